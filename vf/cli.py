"""python -m vf.cli check C07 [--tier quick|thorough] | replay <file> | selftest"""
import argparse
import os
import sys


def main(argv=None):
    ap = argparse.ArgumentParser(prog='vf.cli')
    sub = ap.add_subparsers(dest='cmd', required=True)
    c = sub.add_parser('check')
    c.add_argument('prop')
    c.add_argument('--tier', default=None)
    r = sub.add_parser('replay')
    r.add_argument('path')
    args = ap.parse_args(argv)
    from vf import runner
    if args.cmd == 'check':
        tier = args.tier or os.environ.get('VERIF_TIER') or 'quick'
        if tier not in ('quick', 'thorough'):
            tier = 'quick'
        try:
            seed = int(os.environ.get('VERIF_SEED', '1'))
        except ValueError:
            seed = 1
        return runner.run_check(args.prop.upper(), tier, seed)
    if args.cmd == 'replay':
        return runner.run_replay(args.path)


if __name__ == '__main__':
    try:
        rc = main()
    except SystemExit:
        raise
    except BaseException:
        import traceback
        print('HARNESS-ERROR: ' + traceback.format_exc(), file=sys.__stdout__)
        rc = 2
    sys.stdout = sys.__stdout__
    sys.exit(rc)
