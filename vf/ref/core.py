"""Shared integer helpers of the reference semantics (fast versions; cross-checked against vf/ref/bits.py by selfcheck())."""
from vf.ref.machine import Unpred, Undef, NotImpl, Skip, Abort, M32

LSL, LSR, ASR, ROR, RRX = 'LSL', 'LSR', 'ASR', 'ROR', 'RRX'

REG = {}        # row name -> (decode(M, f) -> ops, execute(M, ops))


def reg(names, dec, ex):
    for n in ([names] if isinstance(names, str) else names):
        assert n not in REG, n
        REG[n] = (dec, ex)


def cond_pass(cond, n, z, c, v):
    r = [z, c, n, v, c and not z, n == v, n == v and not z, 1][cond >> 1]
    r = 1 if r else 0
    if (cond & 1) and cond != 15:
        r ^= 1
    return r


def awc(x, y, c):
    us = x + y + c
    r = us & M32
    sx = x - (1 << 32) if x >> 31 else x
    sy = y - (1 << 32) if y >> 31 else y
    ss = sx + sy + c
    sr = r - (1 << 32) if r >> 31 else r
    return r, int(us != r), int(ss != sr)


def sint(x, n=32):
    x &= (1 << n) - 1
    return x - (1 << n) if x >> (n - 1) else x


def sext(x, n):
    return sint(x, n) & M32


def shift_c(v, t, n, cin):
    """Shift_C on a 32-bit value"""
    if n == 0:
        return v, cin
    if t == LSL:
        if n > 32:
            return 0, 0
        return (v << n) & M32, (v >> (32 - n)) & 1
    if t == LSR:
        if n > 32:
            return 0, 0
        return (v >> n) & M32, (v >> (n - 1)) & 1
    if t == ASR:
        s = v >> 31
        if n >= 32:
            return (M32 if s else 0), s
        return ((v >> n) | (((M32 << (32 - n)) & M32) if s else 0)) & M32, (v >> (n - 1)) & 1
    if t == ROR:
        m = n % 32
        r = ((v >> m) | (v << (32 - m))) & M32 if m else v
        return r, r >> 31
    assert n == 1
    return ((cin << 31) | (v >> 1)) & M32, v & 1


def shift(v, t, n, cin):
    return shift_c(v, t, n, cin)[0]


def dis(ty, imm5):
    """DecodeImmShift"""
    if ty == 0:
        return LSL, imm5
    if ty == 1:
        return LSR, imm5 or 32
    if ty == 2:
        return ASR, imm5 or 32
    return (RRX, 1) if imm5 == 0 else (ROR, imm5)


def drs(ty):
    return (LSL, LSR, ASR, ROR)[ty]


def expand_arm(imm12, cin):
    return shift_c(imm12 & 0xFF, ROR, 2 * (imm12 >> 8), cin)


def expand_thumb(imm12, cin):
    if (imm12 >> 10) == 0:
        b = imm12 & 0xFF
        sel = (imm12 >> 8) & 3
        if sel and not b:
            raise Unpred('ThumbExpandImm with zero byte')
        return [b, (b << 16) | b, (b << 24) | (b << 8), b * 0x01010101][sel], cin
    return shift_c(0x80 | (imm12 & 0x7F), ROR, imm12 >> 7, cin)


def ssat(i, n):
    hi, lo = (1 << (n - 1)) - 1, -(1 << (n - 1))
    if i > hi:
        return hi, True
    if i < lo:
        return lo, True
    return i, False


def usat(i, n):
    hi = (1 << n) - 1
    if i > hi:
        return hi, True
    if i < 0:
        return 0, True
    return i, False


def bitcount(x):
    return bin(x).count('1')


def selfcheck(rng, n=300):
    """cross-check the fast helpers against the bit-list definitions; raises AssertionError on disagreement"""
    from vf.ref import bits as rb
    for _ in range(n):
        x, y, c = rng.getrandbits(32), rng.getrandbits(32), rng.getrandbits(1)
        if rng.random() < 0.3:
            x = rng.choice((0, 1, M32, 0x80000000, 0x7FFFFFFF))
        r = rb.add_with_carry(rb.B(x, 32), rb.B(y, 32), c)
        assert awc(x, y, c) == (rb.U(r[0]), r[1], r[2])
        for t in (LSL, LSR, ASR, ROR):
            s = rng.randrange(0, 256)
            rr, cc = rb.shift_c(rb.B(x, 32), t, s, c)
            assert shift_c(x, t, s, c) == (rb.U(rr), cc), (t, s)
        rr, cc = rb.shift_c(rb.B(x, 32), RRX, 1, c)
        assert shift_c(x, RRX, 1, c) == (rb.U(rr), cc)
        i12 = rng.getrandbits(12)
        rr, cc = rb.arm_expand_imm_c(i12, c)
        assert expand_arm(i12, c) == (rb.U(rr), cc)
        rr, cc, unp = rb.thumb_expand_imm_c(i12, c)
        if not unp:
            assert expand_thumb(i12, c) == (rb.U(rr), cc)
        w = rng.randrange(1, 33)
        i = sint(x) * rng.choice((1, 2, -1))
        q = rb.signed_sat_q(i, w)
        assert (ssat(i, w)[0] & ((1 << w) - 1), ssat(i, w)[1]) == (rb.U(q[0]), q[1])
        q = rb.unsigned_sat_q(i, w)
        assert usat(i, w) == (rb.U(q[0]), q[1])
        assert dis(i12 & 3, (i12 >> 2) & 31) == rb.decode_imm_shift(i12 & 3, (i12 >> 2) & 31)
