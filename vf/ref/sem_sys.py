"""Reference semantics: system instructions - MRS/MSR/CPS/SETEND, exception return (SUBS PC,LR / ERET), SVC/SMC/BKPT/UDF,
hints and events, barriers, preloads, coprocessor instructions with access-control gating."""
from vf.ref.core import reg, awc, shift, dis, expand_arm, LSL
from vf.ref.machine import (Unpred, Undef, NotImpl, Skip, SvcCall, SmcCall, HypTrap, M32, cpsr_write_by_instr, spsr_write_by_instr,
                            exception_return_branch)
from vf.ref.sem_dp import unp, BAD, bits
from vf.gen import MODES


def hook(M, name):
    """a documented mock hook: NotImplementedError on the stock target, a no-op on the hooked one"""
    if not M.hooked:
        raise NotImpl(name)


def check_hyp_thumbee(M):
    c = M.s['cpsr']
    if (c & 31) == MODES['hyp'] and (c >> 24) & 1 and (c >> 5) & 1:
        raise Unpred('Hyp mode in ThumbEE state')


# ------------------------------------------------------------------------------------------------ MRS / MSR
def x_mrs(M, o):
    if o['read_spsr']:
        if M.user_or_system():
            raise Unpred('MRS SPSR in User/System mode')
        M.setR(o['d'], M.spsr())
        return
    if 'mrs-app-view' in M.quirks:      # known finding: R=0 always returns the application-level view
        M.setR(o['d'], M.s['cpsr'] & 0xF80F0000)
        return
    M.setR(o['d'], M.s['cpsr'] & 0xF8FF03DF)
    if not M.privileged():
        M.unknown_bits[M.rkey(o['d'])] = 0x3DF


def x_msr(M, o):
    v = o['imm32'] if 'imm32' in o else M.R(o['n'])
    if o['write_spsr']:
        spsr_write_by_instr(M, v, o['mask'])
    else:
        cpsr_write_by_instr(M, v, o['mask'], False)
        check_hyp_thumbee(M)


def mrs_dec(thumb, spsr):
    def dec(M, f):
        unp(f['d'] in BAD if thumb else f['d'] == 15)
        return dict(d=f['d'], read_spsr=spsr)
    return dec


reg('MRS_A1_app', mrs_dec(False, False), x_mrs)
reg('MRS_A1_sys', mrs_dec(False, True), x_mrs)
reg('MRS_T1_app', mrs_dec(True, False), x_mrs)
reg('MRS_T1_sys', mrs_dec(True, True), x_mrs)


def msr_reg_dec(thumb, app):
    def dec(M, f):
        n = f['n']
        unp(n in BAD if thumb else n == 15)
        if app:
            mask, r = f['m'] << 2, 0
        else:
            mask, r = f['m'], f['r']
        unp(mask == 0)
        return dict(n=n, mask=mask, write_spsr=bool(r))
    return dec


def msr_imm_dec(app):
    def dec(M, f):
        if app:
            mask, r = f['m'] << 2, 0
        else:
            mask, r = f['m'], f['r']
        unp(mask == 0)
        return dict(imm32=expand_arm(f['i'], 0)[0], mask=mask, write_spsr=bool(r))
    return dec


reg('MSR_reg_A1_app', msr_reg_dec(False, True), x_msr)
reg('MSR_reg_A1_sys', msr_reg_dec(False, False), x_msr)
reg('MSR_reg_T1_app', msr_reg_dec(True, True), x_msr)
reg('MSR_reg_T1_sys', msr_reg_dec(True, False), x_msr)
reg('MSR_imm_A1_app', msr_imm_dec(True), x_msr)
reg('MSR_imm_A1_sys', msr_imm_dec(False), x_msr)


# ------------------------------------------------------------------------------------------------ CPS / SETEND
def x_cps(M, o):
    if not M.privileged():
        return
    v = M.s['cpsr']
    for flag, bit in (('affect_a', 8), ('affect_i', 7), ('affect_f', 6)):
        if o[flag]:
            if o['enable']:
                v &= ~(1 << bit)
            if o['disable']:
                v |= 1 << bit
    if o['change_mode']:
        v = (v & ~31) | o['mode']
    cpsr_write_by_instr(M, v, 0b1111, False)
    check_hyp_thumbee(M)


def cps_common(imod, Mb, aif, mode):
    unp(mode != 0 and not Mb)
    unp(((imod >> 1) & 1 and aif == 0) or (not (imod >> 1) & 1 and aif != 0))
    unp((imod == 0 and not Mb) or imod == 1)
    return dict(enable=imod == 2, disable=imod == 3, change_mode=bool(Mb), affect_a=bool(aif & 4), affect_i=bool(aif & 2),
                affect_f=bool(aif & 1), mode=mode)


def _cps_a1(M, f):
    return cps_common(f['i'], f['M'], (f['A'] << 2) | (f['I'] << 1) | f['F'], f['m'])


def _cps_t1(M, f):
    aif = (f['A'] << 2) | (f['I'] << 1) | f['F']
    unp(aif == 0)
    unp(M.in_it_block())
    return dict(enable=f['m'] == 0, disable=f['m'] == 1, change_mode=False, affect_a=bool(aif & 4), affect_i=bool(aif & 2),
                affect_f=bool(aif & 1), mode=0)


def _cps_t2(M, f):
    o = cps_common(f['i'], f['M'], (f['A'] << 2) | (f['I'] << 1) | f['F'], f['m'])
    unp(M.in_it_block())
    return o


reg('CPS_A1', _cps_a1, x_cps)
reg('CPS_T1', _cps_t1, x_cps)
reg('CPS_T2', _cps_t2, x_cps)


def x_setend(M, o):
    M.setbit('cpsr', 9, 1 if o['set_bigend'] else 0)


def _setend_t1(M, f):
    unp(M.in_it_block())
    return dict(set_bigend=bool(f['E']))


reg('SETEND_A1', lambda M, f: dict(set_bigend=bool(f['E'])), x_setend)
reg('SETEND_T1', _setend_t1, x_setend)


# ------------------------------------------------------------------------------------------------ exception return
def eret_mode_check(M):
    if M.is_hyp():
        raise Undef('SUBS PC, LR in Hyp mode')
    if M.user_or_system():
        raise Unpred('exception return in User/System mode')


def x_subs_pc_lr(M, o):
    eret_mode_check(M)
    cin = M.C()
    if o['register_form']:
        op2 = shift(M.R(o['m']), o['shift_t'], o['shift_n'], cin)
    else:
        op2 = o['imm32']
    a = M.R(o['n'])
    opc = o['opcode']
    nb, na = ~op2 & M32, ~a & M32
    r = {0: a & op2, 1: a ^ op2, 2: awc(a, nb, 1)[0], 3: awc(na, op2, 1)[0], 4: awc(a, op2, 0)[0], 5: awc(a, op2, cin)[0],
         6: awc(a, nb, cin)[0], 7: awc(na, op2, cin)[0], 12: a | op2, 13: op2, 14: a & nb, 15: nb}[opc]
    cpsr_write_by_instr(M, M.spsr(), 0b1111, True)
    exception_return_branch(M, r & M32)


def _subs_a1(M, f):
    return dict(n=f.get('n', 0), opcode=bits(f['_w'], 24, 21), imm32=expand_arm(f['i'], 0)[0], register_form=False)


def _subs_a2(M, f):
    st, sn = dis(f['t'], f['i'])
    return dict(n=f.get('n', 0), m=f['m'], opcode=bits(f['_w'], 24, 21), shift_t=st, shift_n=sn, register_form=True)


for _nm in ('AND', 'EOR', 'SUB', 'RSB', 'ADD', 'ADC', 'SBC', 'RSC', 'ORR', 'BIC', 'MOV', 'MVN'):
    reg('SUBS_PC_LR_A1_' + _nm, _subs_a1, x_subs_pc_lr)
    reg('SUBS_PC_LR_A2_' + _nm, _subs_a2, x_subs_pc_lr)


def _subs_t1(M, f):
    if M.is_hyp():
        # encoding T1 tests CurrentModeIsHyp() in its encoding-specific decode, i.e. before the condition: with a failing condition the UNDEFINED
        # instruction may be a NOP or take the exception (IMPLEMENTATION DEFINED; the ARM encodings test it inside ConditionPassed())
        raise Undef('SUBS PC, LR (Thumb) in Hyp mode')
    unp(M.in_it_block() and not M.last_in_it_block())
    return dict(n=14, opcode=2, imm32=f['i'], register_form=False)


reg('SUBS_PC_LR_T1', _subs_t1, x_subs_pc_lr)


def x_eret(M, o):
    if M.user_or_system():
        raise Unpred('ERET in User/System mode')
    new_pc = M.s['elr_hyp'] if M.is_hyp() else M.R(14)
    cpsr_write_by_instr(M, M.spsr(), 0b1111, True)
    exception_return_branch(M, new_pc)


def _eret_t1(M, f):
    unp(M.in_it_block() and not M.last_in_it_block())
    return {}


reg('ERET_T1', _eret_t1, x_eret)


# ------------------------------------------------------------------------------------------------ SVC / SMC / BKPT / UDF
def x_svc(M, o):
    if 'svcalls' in M.s:
        M.s['svcalls'] = tuple(M.s['svcalls']) + (o['imm32'] & 0xFFFF,)          # CallSupervisor(imm32<15:0>)
    if M.is_hyp() or (M.virt_ext() and not M.is_secure() and not M.privileged() and (M.s['hcr'] >> 27) & 1):
        cond = M.cur_cond
        M.write_hsr(0b010001, o['imm32'] & 0xFFFF if cond == 14 else 0, cond, True)
    raise SvcCall()


reg('SVC_A1', lambda M, f: dict(imm32=f['i']), x_svc)
reg('SVC_T1', lambda M, f: dict(imm32=f['i']), x_svc)


def x_smc(M, o):
    if M.sec_ext() and M.privileged():
        if M.virt_ext() and not M.is_secure() and not M.is_hyp() and (M.s['hcr'] >> 19) & 1:
            M.write_hsr(0b010011, 0, M.cur_cond, True)
            raise HypTrap()
        if (M.s['scr'] >> 7) & 1:
            if M.is_secure():
                raise Unpred('SMC with SCR.SCD in Secure state')
            raise Undef('SMC disabled')
        raise SmcCall()
    raise Undef('SMC without Security Extensions / in User mode')


def _smc_t1(M, f):
    unp(M.in_it_block() and not M.last_in_it_block())
    return dict(imm32=f['i'])


reg('SMC_A1', lambda M, f: dict(imm32=f['i']), x_smc)
reg('SMC_T1', _smc_t1, x_smc)


def x_bkpt(M, o):
    hook(M, 'BKPTInstrDebugEvent')


def _bkpt_a1(M, f):
    unp(f['c'] != 14)
    return dict(imm32=f['i'])


reg('BKPT_A1', _bkpt_a1, x_bkpt)
reg('BKPT_T1', lambda M, f: dict(imm32=f['i']), x_bkpt)


def x_udf(M, o):
    raise Undef('UDF')


reg('UDF_A1', lambda M, f: dict(imm32=f['i']), x_udf)
reg('UDF_T1', lambda M, f: dict(imm32=f['i']), x_udf)
reg('UDF_T2', lambda M, f: dict(imm32=f['i']), x_udf)


# ------------------------------------------------------------------------------------------------ hints and events
def x_nop(M, o):
    pass


def x_yield(M, o):
    hook(M, 'Hint_Yield')


def x_sev(M, o):
    hook(M, 'SendEvent')
    M.s['event_register'] = True


def x_wfe(M, o):
    if M.s['event_register']:
        M.s['event_register'] = False
    elif M.virt_ext() and not M.is_secure() and not M.is_hyp() and (M.s['hcr'] >> 14) & 1:
        M.write_hsr(0b000001, 1, M.cur_cond, True)
        raise HypTrap()
    else:
        M.s['wfe'] = True


def x_wfi(M, o):
    if M.virt_ext() and not M.is_secure() and not M.is_hyp() and (M.s['hcr'] >> 13) & 1:
        M.write_hsr(0b000001, 0, M.cur_cond, True)
        raise HypTrap()
    M.s['wfi'] = True


for _sfx in ('A1', 'T1', 'T2'):
    reg('NOP_' + _sfx, lambda M, f: {}, x_nop)
    reg('YIELD_' + _sfx, lambda M, f: {}, x_yield)
    reg('WFE_' + _sfx, lambda M, f: {}, x_wfe)
    reg('WFI_' + _sfx, lambda M, f: {}, x_wfi)
    reg('SEV_' + _sfx, lambda M, f: {}, x_sev)


def x_clrex(M, o):
    M.excl = None


DSB_OPTION = {0b0010: ('OUTER_SHAREABLE', 'WRITES'), 0b0011: ('OUTER_SHAREABLE', 'ALL'), 0b0110: ('NONSHAREABLE', 'WRITES'), 0b0111: ('NONSHAREABLE', 'ALL'),
              0b1010: ('INNER_SHAREABLE', 'WRITES'), 0b1011: ('INNER_SHAREABLE', 'ALL'), 0b1110: ('FULL_SYSTEM', 'WRITES')}


def x_dsb(M, o):
    """A8.8.44: the option selects the required shareability domain and access types; every other (reserved) option is a full-system barrier for all
    accesses; HCR.BSU upgrades the domain for a Non-secure PL1/PL0 caller. The hooked target records what the core asked the memory system for."""
    hook(M, 'DataSynchronizationBarrier')
    domain, types = DSB_OPTION.get(o['option'], ('FULL_SYSTEM', 'ALL'))
    if M.virt_ext() and not M.is_secure() and not M.is_hyp():
        bsu = (M.s['hcr'] >> 10) & 3
        if bsu == 3:
            domain = 'FULL_SYSTEM'
        if bsu == 2 and domain != 'FULL_SYSTEM':
            domain = 'OUTER_SHAREABLE'
        if bsu == 1 and domain == 'NONSHAREABLE':
            domain = 'INNER_SHAREABLE'
    if 'barriers' in M.s:
        M.s['barriers'] = tuple(M.s['barriers']) + ((domain, types),)


def x_isb(M, o):
    hook(M, 'InstructionSynchronizationBarrier')


for _sfx in ('A1', 'T1'):
    reg('CLREX_' + _sfx, lambda M, f: {}, x_clrex)
    reg('DSB_' + _sfx, lambda M, f: dict(option=f['i']), x_dsb)
    reg('ISB_' + _sfx, lambda M, f: dict(option=f['i']), x_isb)


# ------------------------------------------------------------------------------------------------ PLD
def x_pld(M, o):
    """A8.8.126-128: the address handed to Hint_PreloadData() - base register (or Align(PC,4) for the literal form) plus / minus the immediate or the shifted
    index register (RRX takes APSR.C). The hooked target records it."""
    hook(M, 'Hint_PreloadData')
    if 'm' in o:
        offset = shift(M.R(o['m']), o['shift_t'], o['shift_n'], M.C())
    else:
        offset = o['imm32']
    base = M.pc_align4() if o.get('n') is None else M.R(o['n'])
    address = (base + offset) & M32 if o['add'] else (base - offset) & M32
    if 'preloads' in M.s:
        M.s['preloads'] = tuple(M.s['preloads']) + (('pld', address),)


def _pld_reg_a1(M, f):
    unp(f['m'] == 15 or (f['n'] == 15 and False))
    st, sn = dis(f['t'], f['i'])
    return dict(n=f['n'], m=f['m'], add=bool(f['U']), shift_t=st, shift_n=sn)


def _pld_reg_t1(M, f):
    unp(f['m'] in BAD)
    return dict(n=f['n'], m=f['m'], add=True, shift_t=LSL, shift_n=f['i'])


reg('PLD_imm_A1', lambda M, f: dict(n=f['n'], imm32=f['i'], add=bool(f['U'])), x_pld)
reg('PLD_lit_A1', lambda M, f: dict(imm32=f['i'], add=bool(f['U'])), x_pld)
reg('PLD_reg_A1', _pld_reg_a1, x_pld)
reg('LDRB_imm12_hint', lambda M, f: dict(n=f['n'], imm32=f['i'], add=True), x_pld)
reg('LDRB_imm8neg_hint', lambda M, f: dict(n=f['n'], imm32=f['i'], add=False), x_pld)
reg('LDRB_lit_hint', lambda M, f: dict(imm32=f['i'], add=bool(f['U'])), x_pld)
reg('LDRB_reg_hint', _pld_reg_t1, x_pld)


# ------------------------------------------------------------------------------------------------ coprocessor instructions
def coproc_accepted(M, cp):
    """Coproc_Accepted() (B1.11.? shared pseudocode) for cp0..cp13 (cp10/11 never get here) and cp15; cp14 has its own decode and is not modelled"""
    if cp == 14:
        raise Skip('cp14 instruction decode')
    if cp == 15:
        return coproc_accepted_cp15(M)
    if M.sec_ext():
        if not M.is_secure() and not (M.s['nsacr'] >> cp) & 1:
            raise Undef('NSACR denies the coprocessor')
    if not M.virt_ext() or not M.is_hyp():
        v = (M.s['cpacr'] >> (2 * cp)) & 3
        if v == 0:
            raise Undef('CPACR denies the coprocessor')
        if v == 1 and not M.privileged():
            raise Undef('CPACR denies User access')
        if v == 2:
            raise Unpred('CPACR field 10')
    if M.sec_ext() and M.virt_ext() and not M.is_secure() and (M.s['hcptr'] >> cp) & 1:
        M.write_hsr(0b000111, cp & 15, M.cur_cond, True)
        if not M.is_hyp():
            raise HypTrap()
        raise Undef('HCPTR trap in Hyp mode')
    hook(M, 'CPxInstrDecode')


def coproc_accepted_cp15(M):
    """the cp15 leg of Coproc_Accepted(): only MCR / MRC and MCRR / MRRC (conditional forms) exist; HSTR.Tn and HCR.TIDCP trap Non-secure accesses from
    outside Hyp mode to Hyp mode with the access described in the HSR; everything else is left to the (mock) CP15 decode hook"""
    w = M.word
    cond_ok = (w >> 28) != 15 if not M.thumb else (w >> 28) != 15      # (the Thumb encodings carry 1110 / 1111 in the same place: the "2" forms are the 1111 ones)
    if ((w >> 24) & 15) == 0b1110 and (w >> 4) & 1 and cond_ok:
        crn, two_reg = (w >> 16) & 15, False
    elif ((w >> 21) & 0x7F) == 0b1100010 and cond_ok:
        crn, two_reg = w & 15, True
    else:
        raise Undef('cp15 has no such instruction')
    if crn == 4:
        raise Unpred('CP15 c4')
    guest = M.sec_ext() and M.virt_ext() and not M.is_secure() and not M.is_hyp()

    def iss():
        if two_reg:
            return (((w >> 4) & 15) << 16) | (((w >> 16) & 15) << 10) | (((w >> 12) & 15) << 5) | ((w & 15) << 1) | ((w >> 20) & 1)
        return (((w >> 5) & 7) << 17) | (((w >> 21) & 7) << 14) | (((w >> 16) & 15) << 10) | (((w >> 12) & 15) << 5) | ((w & 15) << 1) | ((w >> 20) & 1)

    def trap():
        if not M.privileged():
            # InstrIsPL0Undefined(): a mock hook on the stock target; the hooked target answers opc2<0> (vf/target.py). Whether such an access is UNDEFINED
            # instead of trapped is the configuration's IMPLEMENTATION DEFINED choice
            hook(M, 'InstrIsPL0Undefined')
            if (w >> 5) & 1 and M.cfg.get('coproc_accepted_pl0_undefined'):
                raise Undef('CP15 access that is UNDEFINED at PL0')
        M.write_hsr(0b000100 if two_reg else 0b000011, iss(), M.cur_cond, True)
        raise HypTrap()
    if guest and crn != 14 and (M.s['hstr'] >> crn) & 1:
        trap()
    if guest and (M.s['hcr'] >> 20) & 1 and not two_reg:
        crm = w & 15
        if (crn == 9 and crm in (0, 1, 2, 5, 6, 7, 8)) or (crn == 10 and crm in (0, 1, 4, 8)) or (crn == 11 and crm in (0, 1, 2, 3, 4, 5, 6, 7, 8, 15)):
            trap()
    hook(M, 'CP15InstrDecode')


def cplog(M, *entry):
    M.s['cplog'] = tuple(M.s.get('cplog', ())) + (tuple(entry),)


CPW = (0x11111111, 0x22222222)      # words the hooked target's coprocessor returns


def x_mcr(M, o):
    coproc_accepted(M, o['cp'])
    cplog(M, 'send1', M.R(o['t']), o['cp'])


def x_mrc(M, o):
    coproc_accepted(M, o['cp'])
    cplog(M, 'get1', o['cp'])
    if o['t'] != 15:
        M.setR(o['t'], CPW[0])
    else:
        M.setfield('cpsr', 31, 28, CPW[0] >> 28)


def x_mcrr(M, o):
    coproc_accepted(M, o['cp'])
    cplog(M, 'send2', M.R(o['t2']), M.R(o['t']), o['cp'])


def x_mrrc(M, o):
    coproc_accepted(M, o['cp'])
    cplog(M, 'get2', o['cp'])
    M.setR(o['t2'], CPW[1])
    M.setR(o['t'], CPW[0])


def x_cdp(M, o):
    coproc_accepted(M, o['cp'])
    cplog(M, 'cdp', o['cp'])


def thumb_of(f):
    return f['_row'].endswith(('T1', 'T2'))


def _mcr(M, f):
    th = thumb_of(f)
    unp(f['t'] == 15 or (f['t'] == 13 and th))
    return dict(cp=f['p'], t=f['t'])


def _mrc(M, f):
    unp(f['t'] == 13 and thumb_of(f))
    return dict(cp=f['p'], t=f['t'])


def _mcrr(M, f):
    th = thumb_of(f)
    t, t2 = f['t'], f['u']
    unp(t == 15 or t2 == 15 or ((t == 13 or t2 == 13) and th))
    return dict(cp=f['p'], t=t, t2=t2)


def _mrrc(M, f):
    o = _mcrr(M, f)
    unp(o['t'] == o['t2'])
    return o


for _two, _sfxs in (('', ('A1', 'T1')), ('2', ('A2', 'T2'))):
    for _sfx in _sfxs:
        reg('MCR%s_%s' % (_two, _sfx), _mcr, x_mcr)
        reg('MRC%s_%s' % (_two, _sfx), _mrc, x_mrc)
        reg('MCRR%s_%s' % (_two, _sfx), _mcrr, x_mcrr)
        reg('MRRC%s_%s' % (_two, _sfx), _mrrc, x_mrrc)
        reg('CDP%s_%s' % (_two, _sfx), lambda M, f: dict(cp=f['p']), x_cdp)


def x_ldc(M, o):
    coproc_accepted(M, o['cp'])
    base = M.pc_align4() if o.get('n') is None else M.R(o['n'])
    offset_addr = (base + o['imm32']) & M32 if o['add'] else (base - o['imm32']) & M32
    address = offset_addr if o['index'] else base
    # the hooked coprocessor reports done after one word
    if o['load']:
        cplog(M, 'ldc', M.mem_a_cur(address, 4), o['cp'])
        cplog(M, 'done_loading', o['cp'])
    else:
        cplog(M, 'stc', o['cp'])
        M.mem_a_cur(address, 4, CPW[0])
        cplog(M, 'done_storing', o['cp'])
    if o.get('wback'):
        M.setR(o['n'], offset_addr)


def ldc_dec(load, lit):
    def dec(M, f):
        th = thumb_of(f)
        P, U, D, W = f['P'], f['U'], f['D'], f['W']
        if not (P or U or D or W):
            raise Undef('LDC/STC with P=U=D=W=0')
        o = dict(cp=f['p'], imm32=f['i'] << 2, index=bool(P), add=bool(U), load=load)
        if lit:
            unp(W == 1 or (P == 0 and th))
            o['n'] = None
        else:
            n = f['n']
            wback = bool(W)
            unp(n == 15 and (wback or th))
            o.update(n=n, wback=wback)
        return o
    return dec


for _two, _sfxs in (('', ('A1', 'T1')), ('2', ('A2', 'T2'))):
    for _sfx in _sfxs:
        reg('LDC%s_imm_%s' % (_two, _sfx), ldc_dec(True, False), x_ldc)
        reg('LDC%s_lit_%s' % (_two, _sfx), ldc_dec(True, True), x_ldc)
        reg('STC%s_%s' % (_two, _sfx), ldc_dec(False, False), x_ldc)
