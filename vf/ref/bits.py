"""ARM ARM (DDI 0406C, appendix on pseudocode + A2.2 / A5.2.4 / A6.3.2 / A8.4.3) bit-vector functions on *lists of bits*.

A bitstring of length N is a Python list b with b[i] = bit i (index 0 = least significant).  Nothing here uses
integer shifts, masks or % on the operand values: concatenation, replication and a ripple-carry adder only, so that
no trick is shared with the integer implementations under test.  (Conversion int <-> list happens at the border.)
"""


def B(x, n):
    """integer -> bitstring of length n (two's complement for negative x)"""
    out = []
    for _ in range(n):
        out.append(1 if x % 2 else 0)
        x = (x - (x % 2)) // 2
    return out


def U(b):
    """UInt()"""
    r = 0
    for i in range(len(b) - 1, -1, -1):
        r = r * 2 + b[i]
    return r


def S(b):
    """SInt()"""
    r = U(b)
    if b and b[-1]:
        r -= 2 ** len(b)
    return r


def zeros(n):
    return [0] * n


def cat(hi, lo):
    """hi : lo"""
    return list(lo) + list(hi)


def zero_extend(b, n):
    assert n >= len(b)
    return list(b) + [0] * (n - len(b))


def sign_extend(b, n):
    assert n >= len(b) >= 1
    return list(b) + [b[-1]] * (n - len(b))


def lsl_c(x, shift):
    assert shift > 0
    n = len(x)
    ext = cat(x, zeros(shift))
    return ext[0:n], ext[n]


def lsr_c(x, shift):
    assert shift > 0
    n = len(x)
    ext = zero_extend(x, shift + n)
    return ext[shift:shift + n], ext[shift - 1]


def asr_c(x, shift):
    assert shift > 0
    n = len(x)
    ext = sign_extend(x, shift + n)
    return ext[shift:shift + n], ext[shift - 1]


def lsl(x, shift):
    assert shift >= 0
    return list(x) if shift == 0 else lsl_c(x, shift)[0]


def lsr(x, shift):
    assert shift >= 0
    return list(x) if shift == 0 else lsr_c(x, shift)[0]


def bor(a, b):
    return [p | q for p, q in zip(a, b)]


def ror_c(x, shift):
    assert shift != 0
    n = len(x)
    m = shift % n
    res = bor(lsr(x, m), lsl(x, n - m))
    return res, res[n - 1]


def rrx_c(x, carry_in):
    n = len(x)
    return cat([carry_in], x[1:n]), x[0]


LSL, LSR, ASR, ROR, RRX = 'LSL', 'LSR', 'ASR', 'ROR', 'RRX'


def shift_c(value, t, amount, carry_in):
    assert not (t == RRX and amount != 1)
    if amount == 0:
        return list(value), carry_in
    if t == LSL:
        return lsl_c(value, amount)
    if t == LSR:
        return lsr_c(value, amount)
    if t == ASR:
        return asr_c(value, amount)
    if t == ROR:
        return ror_c(value, amount)
    return rrx_c(value, carry_in)


def decode_imm_shift(ty, imm5):
    if ty == 0:
        return LSL, imm5
    if ty == 1:
        return LSR, (32 if imm5 == 0 else imm5)
    if ty == 2:
        return ASR, (32 if imm5 == 0 else imm5)
    if imm5 == 0:
        return RRX, 1
    return ROR, imm5


def decode_reg_shift(ty):
    return (LSL, LSR, ASR, ROR)[ty]


def add_with_carry(x, y, carry_in):
    """ripple-carry adder; returns (result, carry_out, overflow)"""
    n = len(x)
    c = carry_in
    res = []
    c_into_msb = carry_in
    for i in range(n):
        if i == n - 1:
            c_into_msb = c
        s = x[i] + y[i] + c
        res.append(1 if s in (1, 3) else 0)
        c = 1 if s >= 2 else 0
    return res, c, (1 if c != c_into_msb else 0)


def signed_sat_q(i, n):
    hi = 2 ** (n - 1) - 1
    lo = -(2 ** (n - 1))
    if i > hi:
        return B(hi, n), True
    if i < lo:
        return B(lo, n), True
    return B(i, n), False


def unsigned_sat_q(i, n):
    hi = 2 ** n - 1
    if i > hi:
        return B(hi, n), True
    if i < 0:
        return B(0, n), True
    return B(i, n), False


def arm_expand_imm_c(imm12, carry_in):
    b = B(imm12, 12)
    unrot = zero_extend(b[0:8], 32)
    return shift_c(unrot, ROR, 2 * U(b[8:12]), carry_in)


def thumb_expand_imm_c(imm12, carry_in):
    """returns (imm32 bits, carry, unpredictable)"""
    b = B(imm12, 12)
    lo8 = b[0:8]
    if b[10:12] == [0, 0]:
        sel = U(b[8:10])
        unp = sel != 0 and lo8 == zeros(8)
        if sel == 0:
            imm32 = zero_extend(lo8, 32)
        elif sel == 1:
            imm32 = cat(cat(zeros(8), lo8), cat(zeros(8), lo8))
        elif sel == 2:
            imm32 = cat(cat(lo8, zeros(8)), cat(lo8, zeros(8)))
        else:
            imm32 = cat(cat(lo8, lo8), cat(lo8, lo8))
        return imm32, carry_in, unp
    unrot = zero_extend(cat([1], b[0:7]), 32)
    r, c = ror_c(unrot, U(b[7:12]))
    return r, c, False


def big_endian_reverse(b, nbytes):
    assert len(b) == 8 * nbytes
    out = []
    for i in range(nbytes - 1, -1, -1):
        out += b[8 * i:8 * i + 8]
    return out


def bit_count(b):
    return sum(b)


def lowest_set_bit(b):
    for i, v in enumerate(b):
        if v:
            return i
    return len(b)


def align(x, y):
    return y * (x // y)
