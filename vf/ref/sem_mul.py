"""Reference semantics: multiply / divide / saturating / parallel add-sub / extend / bit-field / pack / reverse / CLZ."""
from vf.ref.core import reg, shift, dis, sint, sext, ssat, usat, LSL
from vf.ref.machine import Unpred, Undef, M32
from vf.ref.sem_dp import unp, BAD

M64 = (1 << 64) - 1


def lo16(x):
    return x & 0xFFFF


def hi16(x):
    return (x >> 16) & 0xFFFF


def ror32(v, n):
    n %= 32
    return ((v >> n) | (v << (32 - n))) & M32 if n else v


def regs_unp(thumb32, regs, extra=False):
    if thumb32:
        unp(any(r in BAD for r in regs) or extra)
    else:
        unp(15 in regs or extra)


# ------------------------------------------------------------------------------------------------ MUL / MLA / MLS
def x_mul(M, o):
    r = sint(M.R(o['n'])) * sint(M.R(o['m']))
    if 'a' in o:
        a = sint(M.R(o['a']))
        r = (a - r) if o.get('sub') else (r + a)
    M.setR(o['d'], r & M32)
    if o.get('setflags'):
        M.set_nz(r & M32)
        if M.arch() == 4:
            M.unknown_bits['cpsr'] = M.unknown_bits.get('cpsr', 0) | (1 << 29)      # C is UNKNOWN after MULS/MLAS on ARMv4 (V is unchanged on every version)


def _mul_a1(M, f):
    unp(15 in (f['d'], f['n'], f['m']))
    unp(M.arch() < 6 and f['d'] == f['n'])
    return dict(d=f['d'], n=f['n'], m=f['m'], setflags=bool(f['S']))


def _mla_a1(M, f):
    unp(15 in (f['d'], f['n'], f['m'], f['a']))
    unp(M.arch() < 6 and f['d'] == f['n'])
    return dict(d=f['d'], n=f['n'], m=f['m'], a=f['a'], setflags=bool(f['S']))


def _mls_a1(M, f):
    unp(15 in (f['d'], f['n'], f['m'], f['a']))
    return dict(d=f['d'], n=f['n'], m=f['m'], a=f['a'], sub=True)


def _mul_t1(M, f):
    d, n = f['d'], f['m']
    unp(M.arch() < 6 and d == n)
    return dict(d=d, n=n, m=d, setflags=not M.in_it_block())


def _mul_t2(M, f):
    regs_unp(True, (f['d'], f['n'], f['m']))
    return dict(d=f['d'], n=f['n'], m=f['m'], setflags=False)


def _mla_t1(M, f):
    regs_unp(True, (f['d'], f['n'], f['m']), f['a'] == 13)
    return dict(d=f['d'], n=f['n'], m=f['m'], a=f['a'], setflags=False)


def _mls_t1(M, f):
    regs_unp(True, (f['d'], f['n'], f['m'], f['a']))
    return dict(d=f['d'], n=f['n'], m=f['m'], a=f['a'], sub=True)


reg('MUL_A1', _mul_a1, x_mul)
reg('MLA_A1', _mla_a1, x_mul)
reg('MLS_A1', _mls_a1, x_mul)
reg('MUL_T1_dp', _mul_t1, x_mul)
reg('MUL_T2', _mul_t2, x_mul)
reg('MLA_T1', _mla_t1, x_mul)
reg('MLS_T1', _mls_t1, x_mul)


# ------------------------------------------------------------------------------------------------ long multiplies
def x_long(M, o):
    kind = o['kind']
    n, m = M.R(o['n']), M.R(o['m'])
    hi, lo = M.R(o['d_hi']), M.R(o['d_lo'])
    if kind == 'UMULL':
        r = n * m
    elif kind == 'UMLAL':
        r = n * m + ((hi << 32) | lo)
    elif kind == 'UMAAL':
        r = n * m + hi + lo
    elif kind == 'SMULL':
        r = sint(n) * sint(m)
    else:
        r = sint(n) * sint(m) + sint((hi << 32) | lo, 64)
    r &= M64
    M.setR(o['d_hi'], r >> 32)
    M.setR(o['d_lo'], r & M32)
    if o.get('setflags'):
        M.setbit('cpsr', 31, r >> 63)
        M.setbit('cpsr', 30, 1 if r == 0 else 0)
        if M.arch() == 4:
            M.unknown_bits['cpsr'] = M.unknown_bits.get('cpsr', 0) | (3 << 28)      # C and V are UNKNOWN after a flag-setting long multiply on ARMv4


def long_dec(kind, thumb):
    def dec(M, f):
        dh, dl, n, m = f['h'], f['l'], f['n'], f['m']
        regs_unp(thumb, (dh, dl, n, m), dh == dl)
        if not thumb and kind != 'UMAAL':
            unp(M.arch() < 6 and (dh == n or dl == n))
        o = dict(kind=kind, d_hi=dh, d_lo=dl, n=n, m=m)
        if kind != 'UMAAL':
            o['setflags'] = bool(f.get('S', 0))
        return o
    return dec


for _k in ('UMULL', 'UMLAL', 'UMAAL', 'SMULL', 'SMLAL'):
    reg(_k + '_A1', long_dec(_k, False), x_long)
    reg(_k + '_T1', long_dec(_k, True), x_long)


# ------------------------------------------------------------------------------------------------ halfword multiplies
def half(v, high):
    return sint(hi16(v) if high else lo16(v), 16)


def x_smla(M, o):
    r = half(M.R(o['n']), o['n_high']) * half(M.R(o['m']), o['m_high'])
    if 'a' in o:
        r += sint(M.R(o['a']))
    M.setR(o['d'], r & M32)
    if r != sint(r & M32):
        M.set_q()


def x_smlaw(M, o):
    r = sint(M.R(o['n'])) * half(M.R(o['m']), o['m_high'])
    if 'a' in o:
        r += sint(M.R(o['a'])) << 16
    d = (r >> 16) & M32
    M.setR(o['d'], d)
    if 'a' in o and (r >> 16) != sint(d):
        M.set_q()


def x_smlalxy(M, o):
    r = half(M.R(o['n']), o['n_high']) * half(M.R(o['m']), o['m_high']) + sint((M.R(o['d_hi']) << 32) | M.R(o['d_lo']), 64)
    r &= M64
    M.setR(o['d_hi'], r >> 32)
    M.setR(o['d_lo'], r & M32)


def half_dec(thumb, acc, nbit=True):
    def dec(M, f):
        regs = [f['d'], f['n'], f['m']]
        if thumb:
            regs_unp(True, regs, acc and f['a'] == 13)
        else:
            regs_unp(False, regs + ([f['a']] if acc else []))
        o = dict(d=f['d'], n=f['n'], m=f['m'], m_high=bool(f['M']))
        if nbit:
            o['n_high'] = bool(f['N'])
        if acc:
            o['a'] = f['a']
        return o
    return dec


reg('SMLAxy_A1', half_dec(False, True), x_smla)
reg('SMULxy_A1', half_dec(False, False), x_smla)
reg('SMLAxy_T1', half_dec(True, True), x_smla)
reg('SMULxy_T1', half_dec(True, False), x_smla)
reg('SMLAWy_A1', half_dec(False, True, False), x_smlaw)
reg('SMULWy_A1', half_dec(False, False, False), x_smlaw)
reg('SMLAWy_T1', half_dec(True, True, False), x_smlaw)
reg('SMULWy_T1', half_dec(True, False, False), x_smlaw)


def smlalxy_dec(thumb):
    def dec(M, f):
        regs_unp(thumb, (f['h'], f['l'], f['n'], f['m']), f['h'] == f['l'])
        return dict(d_hi=f['h'], d_lo=f['l'], n=f['n'], m=f['m'], n_high=bool(f['N']), m_high=bool(f['M']))
    return dec


reg('SMLALxy_A1', smlalxy_dec(False), x_smlalxy)
reg('SMLALxy_T1', smlalxy_dec(True), x_smlalxy)


# ------------------------------------------------------------------------------------------------ dual multiplies
def dual_products(M, o):
    n = M.R(o['n'])
    op2 = ror32(M.R(o['m']), 16) if o['m_swap'] else M.R(o['m'])
    return sint(lo16(n), 16) * sint(lo16(op2), 16), sint(hi16(n), 16) * sint(hi16(op2), 16)


def x_dual(M, o):
    p1, p2 = dual_products(M, o)
    r = (p1 - p2) if o['sub'] else (p1 + p2)
    if 'a' in o:
        r += sint(M.R(o['a']))
    M.setR(o['d'], r & M32)
    if r != sint(r & M32):
        M.set_q()


def x_dual_long(M, o):
    p1, p2 = dual_products(M, o)
    r = ((p1 - p2) if o['sub'] else (p1 + p2)) + sint((M.R(o['d_hi']) << 32) | M.R(o['d_lo']), 64)
    r &= M64
    M.setR(o['d_hi'], r >> 32)
    M.setR(o['d_lo'], r & M32)


def dual_dec(thumb, sub, acc):
    def dec(M, f):
        regs = [f['d'], f['n'], f['m']]
        if thumb:
            regs_unp(True, regs, acc and f['a'] == 13)
        else:
            regs_unp(False, regs)
        o = dict(d=f['d'], n=f['n'], m=f['m'], m_swap=bool(f['M']), sub=sub)
        if acc:
            o['a'] = f['a']
        return o
    return dec


def dual_long_dec(thumb, sub):
    def dec(M, f):
        regs_unp(thumb, (f['h'], f['l'], f['n'], f['m']), f['h'] == f['l'])
        return dict(d_hi=f['h'], d_lo=f['l'], n=f['n'], m=f['m'], m_swap=bool(f['M']), sub=sub)
    return dec


for _sfx, _th in (('A1', False), ('T1', True)):
    reg('SMUAD_' + _sfx, dual_dec(_th, False, False), x_dual)
    reg('SMLAD_' + _sfx, dual_dec(_th, False, True), x_dual)
    reg('SMUSD_' + _sfx, dual_dec(_th, True, False), x_dual)
    reg('SMLSD_' + _sfx, dual_dec(_th, True, True), x_dual)
    reg('SMLALD_' + _sfx, dual_long_dec(_th, False), x_dual_long)
    reg('SMLSLD_' + _sfx, dual_long_dec(_th, True), x_dual_long)


# ------------------------------------------------------------------------------------------------ most significant word multiplies
def x_smm(M, o):
    r = sint(M.R(o['n'])) * sint(M.R(o['m']))
    if 'a' in o:
        a = sint(M.R(o['a'])) << 32
        r = (a - r) if o.get('sub') else (a + r)
    if o['round']:
        r += 0x80000000
    M.setR(o['d'], (r >> 32) & M32)


def smm_dec(thumb, acc, sub=False):
    def dec(M, f):
        regs = [f['d'], f['n'], f['m']]
        if sub:
            regs.append(f['a'])
        if thumb:
            regs_unp(True, regs, acc and not sub and f['a'] == 13)
        else:
            regs_unp(False, regs)
        o = dict(d=f['d'], n=f['n'], m=f['m'], round=bool(f['R']))
        if acc:
            o['a'] = f['a']
        if sub:
            o['sub'] = True
        return o
    return dec


for _sfx, _th in (('A1', False), ('T1', True)):
    reg('SMMUL_' + _sfx, smm_dec(_th, False), x_smm)
    reg('SMMLA_' + _sfx, smm_dec(_th, True), x_smm)
    reg('SMMLS_' + _sfx, smm_dec(_th, True, True), x_smm)


# ------------------------------------------------------------------------------------------------ divide
def x_div(M, o):
    n, m = M.R(o['n']), M.R(o['m'])
    if o['signed']:
        n, m = sint(n), sint(m)
    if m == 0:
        if M.cfg.get('is_armv7r_profile') and (M.s['sctlr'] >> 19) & 1:
            raise Undef('integer divide by zero trapped')
        r = 0
    else:
        q = abs(n) // abs(m)
        r = -q if (n < 0) != (m < 0) else q
    M.setR(o['d'], r & M32)


def div_dec(thumb, signed):
    def dec(M, f):
        regs_unp(thumb, (f['d'], f['n'], f['m']))
        return dict(d=f['d'], n=f['n'], m=f['m'], signed=signed)
    return dec


for _sfx, _th in (('A1', False), ('T1', True)):
    reg('SDIV_' + _sfx, div_dec(_th, True), x_div)
    reg('UDIV_' + _sfx, div_dec(_th, False), x_div)


# ------------------------------------------------------------------------------------------------ USAD8 / USADA8
def x_usad(M, o):
    n, m = M.R(o['n']), M.R(o['m'])
    r = sum(abs(((n >> s) & 0xFF) - ((m >> s) & 0xFF)) for s in (0, 8, 16, 24))
    if 'a' in o:
        r += M.R(o['a'])
    M.setR(o['d'], r & M32)


def usad_dec(thumb, acc):
    def dec(M, f):
        regs = [f['d'], f['n'], f['m']]
        if thumb:
            regs_unp(True, regs, acc and f['a'] == 13)
        else:
            regs_unp(False, regs)
        o = dict(d=f['d'], n=f['n'], m=f['m'])
        if acc:
            o['a'] = f['a']
        return o
    return dec


for _sfx, _th in (('A1', False), ('T1', True)):
    reg('USAD8_' + _sfx, usad_dec(_th, False), x_usad)
    reg('USADA8_' + _sfx, usad_dec(_th, True), x_usad)


# ------------------------------------------------------------------------------------------------ saturating add/sub
def x_qarith(M, o):
    n, m = sint(M.R(o['n'])), sint(M.R(o['m']))
    sat1 = False
    if o['double']:
        n, sat1 = ssat(2 * n, 32)
    r, sat2 = ssat((m - n) if o['sub'] else (m + n), 32)
    M.setR(o['d'], r & M32)
    if sat1 or sat2:
        M.set_q()


def q_dec(thumb, double, sub):
    def dec(M, f):
        regs_unp(thumb, (f['d'], f['n'], f['m']))
        return dict(d=f['d'], n=f['n'], m=f['m'], double=double, sub=sub)
    return dec


for _sfx, _th in (('A1', False), ('T1', True)):
    reg('QADD_' + _sfx, q_dec(_th, False, False), x_qarith)
    reg('QSUB_' + _sfx, q_dec(_th, False, True), x_qarith)
    reg('QDADD_' + _sfx, q_dec(_th, True, False), x_qarith)
    reg('QDSUB_' + _sfx, q_dec(_th, True, True), x_qarith)


# ------------------------------------------------------------------------------------------------ SSAT / USAT (+16)
def x_sat(M, o):
    operand = sint(shift(M.R(o['n']), o['shift_t'], o['shift_n'], M.C()))
    if o['unsigned']:
        r, sat = usat(operand, o['saturate_to'])
    else:
        r, sat = ssat(operand, o['saturate_to'])
    M.setR(o['d'], r & M32)
    if sat:
        M.set_q()


def x_sat16(M, o):
    n = M.R(o['n'])
    res = 0
    anysat = False
    for s in (0, 16):
        v = sint((n >> s) & 0xFFFF, 16)
        r, sat = (usat if o['unsigned'] else ssat)(v, o['saturate_to'])
        anysat |= sat
        res |= (r & 0xFFFF) << s
    M.setR(o['d'], res)
    if anysat:
        M.set_q()


def sat_dec(thumb, unsigned):
    def dec(M, f):
        regs_unp(thumb, (f['d'], f['n']))
        st, sn = dis(f['h'] << 1, f['i'])
        return dict(d=f['d'], n=f['n'], saturate_to=f['s'] + (0 if unsigned else 1), shift_t=st, shift_n=sn, unsigned=unsigned)
    return dec


def sat16_dec(thumb, unsigned):
    def dec(M, f):
        regs_unp(thumb, (f['d'], f['n']))
        return dict(d=f['d'], n=f['n'], saturate_to=f['s'] + (0 if unsigned else 1), unsigned=unsigned)
    return dec


for _sfx, _th in (('A1', False), ('T1', True)):
    reg('SSAT_' + _sfx, sat_dec(_th, False), x_sat)
    reg('USAT_' + _sfx, sat_dec(_th, True), x_sat)
    reg('SSAT16_' + _sfx, sat16_dec(_th, False), x_sat16)
    reg('USAT16_' + _sfx, sat16_dec(_th, True), x_sat16)


# ------------------------------------------------------------------------------------------------ parallel add / subtract
def x_par(M, o):
    pfx, op = o['pfx'], o['op']
    n, m = M.R(o['n']), M.R(o['m'])
    signed = pfx in ('s', 'q', 'sh')
    w = 8 if op.endswith('8') else 16
    nl = 32 // w
    mask = (1 << w) - 1

    def lane(v, i):
        x = (v >> (w * i)) & mask
        return sint(x, w) if signed else x
    # per-lane (a, b, is_sub)
    lanes = []
    if op in ('add16', 'add8'):
        lanes = [(lane(n, i), lane(m, i), False) for i in range(nl)]
    elif op in ('sub16', 'sub8'):
        lanes = [(lane(n, i), lane(m, i), True) for i in range(nl)]
    elif op == 'asx':
        lanes = [(lane(n, 0), lane(m, 1), True), (lane(n, 1), lane(m, 0), False)]
    else:   # sax
        lanes = [(lane(n, 0), lane(m, 1), False), (lane(n, 1), lane(m, 0), True)]
    res = 0
    ge = 0
    for i, (a, b, sub) in enumerate(lanes):
        v = a - b if sub else a + b
        if pfx == 's':
            g = v >= 0
        elif pfx == 'u':
            g = (v >= 0) if sub else (v >= (1 << w))
        else:
            g = False
        if pfx == 'q':
            v = ssat(v, w)[0]
        elif pfx == 'uq':
            v = usat(v, w)[0]
        elif pfx in ('sh', 'uh'):
            v >>= 1
        res |= (v & mask) << (w * i)
        if g:
            ge |= ((1 << (4 // nl)) - 1) << (i * (4 // nl))
    M.setR(o['d'], res)
    if pfx in ('s', 'u'):
        M.set_ge(ge)


def par_dec(thumb, pfx, op):
    def dec(M, f):
        regs_unp(thumb, (f['d'], f['n'], f['m']))
        return dict(d=f['d'], n=f['n'], m=f['m'], pfx=pfx, op=op)
    return dec


for _p in ('s', 'q', 'sh', 'u', 'uq', 'uh'):
    for _o in ('add16', 'asx', 'sax', 'sub16', 'add8', 'sub8'):
        _nm = (_p + _o).upper()
        reg(_nm + '_A1', par_dec(False, _p, _o), x_par)
        reg(_nm + '_T1', par_dec(True, _p, _o), x_par)


def x_sel(M, o):
    n, m, ge = M.R(o['n']), M.R(o['m']), M.ge()
    r = 0
    for i in range(4):
        src = n if (ge >> i) & 1 else m
        r |= src & (0xFF << (8 * i))
    M.setR(o['d'], r)


reg('SEL_A1', lambda M, f: (regs_unp(False, (f['d'], f['n'], f['m'])), dict(d=f['d'], n=f['n'], m=f['m']))[1], x_sel)
reg('SEL_T1', lambda M, f: (regs_unp(True, (f['d'], f['n'], f['m'])), dict(d=f['d'], n=f['n'], m=f['m']))[1], x_sel)


# ------------------------------------------------------------------------------------------------ extend (and add)
def x_ext(M, o):
    rot = ror32(M.R(o['m']), o['rotation'])
    kind, signed = o['kind'], o['signed']
    base = M.R(o['n']) if o.get('n') is not None else 0

    def ext(v, w, to):
        return (sint(v, w) if signed else v) & ((1 << to) - 1)
    if kind == 'b':
        r = (base + ext(rot & 0xFF, 8, 32)) & M32
    elif kind == 'h':
        r = (base + ext(rot & 0xFFFF, 16, 32)) & M32
    else:   # b16
        lo = (lo16(base) + ext(rot & 0xFF, 8, 16)) & 0xFFFF
        hi = (hi16(base) + ext((rot >> 16) & 0xFF, 8, 16)) & 0xFFFF
        r = (hi << 16) | lo
    M.setR(o['d'], r)


def ext_dec(enc, kind, signed, add):
    def dec(M, f):
        if enc == 'A1':
            unp(f['d'] == 15 or f['m'] == 15)
            rot = f['r'] << 3
        elif enc == 'T16':
            rot = 0
        else:
            unp(f['d'] in BAD or f['m'] in BAD or (add and f['n'] == 13))
            rot = f['r'] << 3
        o = dict(d=f['d'], m=f['m'], rotation=rot, kind=kind, signed=signed)
        if add:
            o['n'] = f['n']
        return o
    return dec


for _nm, _kind, _signed in (('SXTB', 'b', True), ('SXTH', 'h', True), ('SXTB16', 'b16', True),
                            ('UXTB', 'b', False), ('UXTH', 'h', False), ('UXTB16', 'b16', False)):
    _add = _nm[:3] + 'A' + _nm[3:]
    reg(_nm + '_A1', ext_dec('A1', _kind, _signed, False), x_ext)
    reg(_add + '_A1', ext_dec('A1', _kind, _signed, True), x_ext)
    reg(_add + '_T1', ext_dec('T32', _kind, _signed, True), x_ext)
    if _kind == 'b16':
        reg(_nm + '_T1', ext_dec('T32', _kind, _signed, False), x_ext)
    else:
        reg(_nm + '_T1', ext_dec('T16', _kind, _signed, False), x_ext)
        reg(_nm + '_T2', ext_dec('T32', _kind, _signed, False), x_ext)


# ------------------------------------------------------------------------------------------------ bit-field
def x_bfc(M, o):
    msb, lsb = o['msbit'], o['lsbit']
    if msb < lsb:
        raise Unpred('BFC/BFI msb < lsb')
    mask = ((1 << (msb - lsb + 1)) - 1) << lsb
    v = M.R(o['d']) & ~mask
    if 'n' in o:
        if 'bfi-source-bits' in M.quirks:       # known finding: armulator copies Rn<msbit:lsbit> instead of Rn<msbit-lsbit:0>
            v |= M.R(o['n']) & mask
        else:
            v |= (M.R(o['n']) << lsb) & mask
    M.setR(o['d'], v & M32)


def x_bfx(M, o):
    lsb, wm1 = o['lsbit'], o['widthminus1']
    msb = lsb + wm1
    if msb > 31:
        raise Unpred('SBFX/UBFX msb > 31')
    v = (M.R(o['n']) >> lsb) & ((1 << (wm1 + 1)) - 1)
    M.setR(o['d'], sext(v, wm1 + 1) if o['signed'] else v)


def bfc_dec(thumb, ins):
    def dec(M, f):
        if thumb:
            unp(f['d'] in BAD or (ins and f['n'] == 13))
            lsb = f['i']
        else:
            unp(f['d'] == 15)
            lsb = f['l']
        o = dict(d=f['d'], msbit=f['m'], lsbit=lsb)
        if ins:
            o['n'] = f['n']
        return o
    return dec


def bfx_dec(thumb, signed):
    def dec(M, f):
        if thumb:
            unp(f['d'] in BAD or f['n'] in BAD)
            lsb = f['i']
        else:
            unp(f['d'] == 15 or f['n'] == 15)
            lsb = f['l']
        return dict(d=f['d'], n=f['n'], lsbit=lsb, widthminus1=f['w'], signed=signed)
    return dec


for _sfx, _th in (('A1', False), ('T1', True)):
    reg('BFC_' + _sfx, bfc_dec(_th, False), x_bfc)
    reg('BFI_' + _sfx, bfc_dec(_th, True), x_bfc)
    reg('SBFX_' + _sfx, bfx_dec(_th, True), x_bfx)
    reg('UBFX_' + _sfx, bfx_dec(_th, False), x_bfx)


# ------------------------------------------------------------------------------------------------ PKH, REV*, RBIT, CLZ
def x_pkh(M, o):
    op2 = shift(M.R(o['m']), o['shift_t'], o['shift_n'], M.C())
    n = M.R(o['n'])
    if o['tb_form']:
        r = (n & 0xFFFF0000) | (op2 & 0xFFFF)
    else:
        r = (op2 & 0xFFFF0000) | (n & 0xFFFF)
    M.setR(o['d'], r)


def pkh_dec(thumb):
    def dec(M, f):
        regs_unp(thumb, (f['d'], f['n'], f['m']))
        st, sn = dis(f['T'] << 1, f['i'])
        return dict(d=f['d'], n=f['n'], m=f['m'], tb_form=bool(f['T']), shift_t=st, shift_n=sn)
    return dec


reg('PKH_A1', pkh_dec(False), x_pkh)
reg('PKH_T1', pkh_dec(True), x_pkh)


def x_unary(M, o):
    v = M.R(o['m'])
    k = o['kind']
    if k == 'REV':
        r = int.from_bytes(v.to_bytes(4, 'little'), 'big')
    elif k == 'REV16':
        r = ((v & 0x00FF00FF) << 8) | ((v & 0xFF00FF00) >> 8)
    elif k == 'REVSH':
        r = (sext(v & 0xFF, 8) << 8) & M32 | ((v >> 8) & 0xFF)
    elif k == 'RBIT':
        r = int(format(v, '032b')[::-1], 2)
    else:
        r = 32 - v.bit_length()
    M.setR(o['d'], r & M32)


def unary_dec(enc, kind):
    def dec(M, f):
        m = f['m']
        if enc == 'A1':
            unp(f['d'] == 15 or m == 15)
        elif enc == 'T32':
            unp((m >> 4) != (m & 15))       # !Consistent(Rm)
            m &= 15
            unp(f['d'] in BAD or m in BAD)
        return dict(d=f['d'], m=m, kind=kind)
    return dec


for _k in ('REV', 'REV16', 'REVSH'):
    reg(_k + '_A1', unary_dec('A1', _k), x_unary)
    reg(_k + '_T1', unary_dec('T16', _k), x_unary)
    reg(_k + '_T2', unary_dec('T32', _k), x_unary)
reg('RBIT_A1', unary_dec('A1', 'RBIT'), x_unary)
reg('RBIT_T1', unary_dec('T32', 'RBIT'), x_unary)
reg('CLZ_A1', unary_dec('A1', 'CLZ'), x_unary)
reg('CLZ_T1', unary_dec('T32', 'CLZ'), x_unary)
