"""Reference semantics: single-register loads and stores (LDR/STR byte, halfword, word, doubleword; literal, register,
unprivileged and exclusive forms), every ARM and Thumb encoding (ARM ARM A8.8.62-A8.8.100, A8.8.203-A8.8.222)."""
from vf.ref.core import reg, shift, dis, sext, LSL
from vf.ref.machine import Unpred, Undef, Skip, M32
from vf.ref.sem_dp import bits, unp, BAD


def pc_store_value(M):
    if 'pc-store-value' in M.quirks:     # known finding: armulator stores the address of the instruction
        return M.s['R.PC']
    return M.R(15)


def ror32(v, n):
    n %= 32
    return ((v >> n) | (v << (32 - n))) & M32 if n else v


def it_mid_pc(M, t):
    unp(t == 15 and M.in_it_block() and not M.last_in_it_block(), 'load to PC inside an IT block but not last')


# ------------------------------------------------------------------------------------------------ executors
def address_of(M, o):
    if o.get('n') is None:
        base = M.pc_align4()
    else:
        base = M.R(o['n'])
    if 'm' in o:
        off = shift(M.R(o['m']), o.get('shift_t', LSL), o.get('shift_n', 0), M.C())
    else:
        off = o['imm32']
    offset_addr = (base + off) & M32 if o['add'] else (base - off) & M32
    address = offset_addr if o.get('index', True) else base
    return address, offset_addr


def ls_syndrome(o, load):
    """LSInstructionSyndrome() (B3.13.6, HSR.ISS<24:16> of a stage-2 Data Abort): ISV : SAS : SSE : 0 : SRT - valid for the single-register
    byte / halfword / word loads and stores (incl. the unprivileged forms) that do not write back the base and do not use the PC as *destination* (a store of the PC is valid); other transfers leave it UNKNOWN here"""
    size = o.get('size')
    if size not in (1, 2, 4) or not isinstance(o.get('t'), int):
        return None
    if (load and o['t'] == 15) or o.get('wback'):
        return 0
    return (1 << 8) | ({1: 0, 2: 1, 4: 2}[size] << 6) | ((1 if o.get('signed') else 0) << 5) | o['t']


def x_load(M, o):
    if o.get('unpriv') and M.is_hyp():
        raise Unpred('unprivileged load/store in Hyp mode')
    M.ls_syndrome = ls_syndrome(o, True)
    size = o['size']
    address, offset_addr = address_of(M, o)
    priv = False if o.get('unpriv') else None
    if size == 8:
        if M.cfg.get('have_lpae') and not (address & 7):
            data = M.mem_a_cur(address, 8)
            big = M.bit('cpsr', 9)
            M.setR(o['t'], (data >> 32) if big else (data & M32))
            M.setR(o['t2'], (data & M32) if big else (data >> 32))
        else:
            M.setR(o['t'], M.mem_a_cur(address, 4))                     # R[t] is written before the second access can abort
            M.setR(o['t2'], M.mem_a_cur((address + 4) & M32, 4))
        if o.get('wback'):
            M.setR(o['n'], offset_addr)
        return
    data = M.mem_u(address, size, priv)
    if o.get('wback'):
        M.setR(o['n'], offset_addr)
    t = o['t']
    if size == 4:
        if t == 15:
            if address & 3:
                raise Unpred('load to PC from an unaligned address')
            M.load_write_pc(data)
        elif M.unaligned_support() or not (address & 3):
            M.setR(t, data)
        elif not M.thumb:
            M.setR(t, ror32(data, 8 * (address & 3)))
        else:
            M.unknown.add(M.rkey(t))
    elif size == 2:
        if M.unaligned_support() or not (address & 1):
            M.setR(t, sext(data, 16) if o.get('signed') else data)
        else:
            M.unknown.add(M.rkey(t))
    else:
        M.setR(t, sext(data, 8) if o.get('signed') else data)


def x_store(M, o):
    M.ls_syndrome = ls_syndrome(o, False)
    if o.get('unpriv') and M.is_hyp():
        raise Unpred('unprivileged load/store in Hyp mode')
    size = o['size']
    address, offset_addr = address_of(M, o)
    priv = False if o.get('unpriv') else None
    t = o['t']
    if size == 8:
        if M.cfg.get('have_lpae') and not (address & 7):
            big = M.bit('cpsr', 9)
            data = ((M.R(t) << 32) | M.R(o['t2'])) if big else ((M.R(o['t2']) << 32) | M.R(t))
            M.mem_a_cur(address, 8, data)
        else:
            M.mem_a_cur(address, 4, M.R(t))
            M.mem_a_cur((address + 4) & M32, 4, M.R(o['t2']))
    elif size == 4:
        if M.unaligned_support() or not (address & 3) or not M.thumb:
            M.mem_u(address, 4, priv, pc_store_value(M) if t == 15 else M.R(t))
        else:       # can only occur before ARMv7, Thumb encodings
            M.mem_u(address, 4, priv, 'UNKNOWN')
    elif size == 2:
        if M.unaligned_support() or not (address & 1):
            M.mem_u(address, 2, priv, M.R(t) & 0xFFFF)
        else:
            M.mem_u(address, 2, priv, 'UNKNOWN')
    else:
        M.mem_u(address, 1, priv, M.R(t) & 0xFF)
    if o.get('wback'):
        M.setR(o['n'], offset_addr)


# ------------------------------------------------------------------------------------------------ ARM encodings
def puw(f):
    index, add = bool(f['P']), bool(f['U'])
    wback = (not f['P']) or bool(f['W'])
    return index, add, wback


def arm_imm(load, size, signed=False, split=False):
    def dec(M, f):
        index, add, wback = puw(f)
        t, n = f['t'], f['n']
        if size == 4:
            if load:
                unp(wback and n == t)
            else:
                unp(wback and (n == 15 or n == t))
        else:
            if load:
                unp(t == 15 or (wback and n == t))
            else:
                unp(t == 15)
                unp(wback and (n == 15 or n == t))
        return dict(size=size, signed=signed, t=t, n=n, imm32=f['i'], index=index, add=add, wback=wback)
    return dec


def arm_lit(size, signed=False):
    def dec(M, f):
        unp(f['P'] == f['W'])
        t = f['t']
        unp(size != 4 and t == 15)
        return dict(size=size, signed=signed, t=t, n=None, imm32=f['i'], add=bool(f['U']), index=True, wback=False)
    return dec


def arm_reg(load, size, signed=False, shifted=True):
    def dec(M, f):
        index, add, wback = puw(f)
        t, n, m = f['t'], f['n'], f['m']
        unp(m == 15)
        unp(size != 4 and t == 15)
        unp(wback and (n == 15 or n == t))
        unp(M.arch() < 6 and wback and m == n)
        st, sn = dis(f['y'], f['i']) if shifted else (LSL, 0)
        return dict(size=size, signed=signed, t=t, n=n, m=m, shift_t=st, shift_n=sn, index=index, add=add, wback=wback)
    return dec


reg('LDR_imm_A1', arm_imm(True, 4), x_load)
reg('STR_imm_A1', arm_imm(False, 4), x_store)
reg('LDRB_imm_A1', arm_imm(True, 1), x_load)
reg('STRB_imm_A1', arm_imm(False, 1), x_store)
reg('LDR_lit_A1', arm_lit(4), x_load)
reg('LDRB_lit_A1', arm_lit(1), x_load)
reg('LDR_reg_A1', arm_reg(True, 4), x_load)
reg('STR_reg_A1', arm_reg(False, 4), x_store)
reg('LDRB_reg_A1', arm_reg(True, 1), x_load)
reg('STRB_reg_A1', arm_reg(False, 1), x_store)
reg('LDRH_imm_A1', arm_imm(True, 2), x_load)
reg('STRH_imm_A1', arm_imm(False, 2), x_store)
reg('LDRSB_imm_A1', arm_imm(True, 1, True), x_load)
reg('LDRSH_imm_A1', arm_imm(True, 2, True), x_load)
reg('LDRH_lit_A1', arm_lit(2), x_load)
reg('LDRSB_lit_A1', arm_lit(1, True), x_load)
reg('LDRSH_lit_A1', arm_lit(2, True), x_load)
reg('LDRH_reg_A1', arm_reg(True, 2, False, False), x_load)
reg('STRH_reg_A1', arm_reg(False, 2, False, False), x_store)
reg('LDRSB_reg_A1', arm_reg(True, 1, True, False), x_load)
reg('LDRSH_reg_A1', arm_reg(True, 2, True, False), x_load)


def arm_unpriv(load, size, signed, regform, shifted=True):
    def dec(M, f):
        t, n = f['t'], f['n']
        if size == 4 and not load:
            unp(n == 15 or n == t)
        else:
            unp(t == 15 or n == 15 or n == t)
        o = dict(size=size, signed=signed, t=t, n=n, index=False, add=bool(f['U']), wback=True, unpriv=True)
        if regform:
            m = f['m']
            unp(m == 15)
            unp(M.arch() < 6 and m == n)
            o['m'] = m
            o['shift_t'], o['shift_n'] = dis(f['y'], f['i']) if shifted else (LSL, 0)
        else:
            o['imm32'] = f['i']
        return o
    return dec


reg('LDRT_A1', arm_unpriv(True, 4, False, False), x_load)
reg('LDRT_A2', arm_unpriv(True, 4, False, True), x_load)
reg('STRT_A1', arm_unpriv(False, 4, False, False), x_store)
reg('STRT_A2', arm_unpriv(False, 4, False, True), x_store)
reg('LDRBT_A1', arm_unpriv(True, 1, False, False), x_load)
reg('LDRBT_A2', arm_unpriv(True, 1, False, True), x_load)
reg('STRBT_A1', arm_unpriv(False, 1, False, False), x_store)
reg('STRBT_A2', arm_unpriv(False, 1, False, True), x_store)
reg('LDRHT_A1', arm_unpriv(True, 2, False, False), x_load)
reg('LDRHT_A2', arm_unpriv(True, 2, False, True, False), x_load)
reg('STRHT_A1', arm_unpriv(False, 2, False, False), x_store)
reg('STRHT_A2', arm_unpriv(False, 2, False, True, False), x_store)
reg('LDRSBT_A1', arm_unpriv(True, 1, True, False), x_load)
reg('LDRSBT_A2', arm_unpriv(True, 1, True, True, False), x_load)
reg('LDRSHT_A1', arm_unpriv(True, 2, True, False), x_load)
reg('LDRSHT_A2', arm_unpriv(True, 2, True, True, False), x_load)


def arm_dual(load, form):
    def dec(M, f):
        t = f['t']
        unp(t & 1)
        t2 = t + 1
        o = dict(size=8, t=t, t2=t2)
        if form == 'lit':
            unp(t2 == 15)
            unp(f['P'] == f['W'])
            o.update(n=None, imm32=f['i'], add=bool(f['U']), index=True, wback=False)
            return o
        index, add, wback = puw(f)
        n = f['n']
        unp(f['P'] == 0 and f['W'] == 1)
        if form == 'imm':
            if load:
                unp(wback and (n == t or n == t2))
            else:
                unp(wback and (n == 15 or n == t or n == t2))
            unp(t2 == 15)
            o['imm32'] = f['i']
        else:
            m = f['m']
            if load:
                unp(t2 == 15 or m == 15 or m == t or m == t2)
            else:
                unp(t2 == 15 or m == 15)
            unp(wback and (n == 15 or n == t or n == t2))
            unp(M.arch() < 6 and wback and m == n)
            o.update(m=m, shift_t=LSL, shift_n=0)
        o.update(n=n, index=index, add=add, wback=wback)
        return o
    return dec


reg('LDRD_imm_A1', arm_dual(True, 'imm'), x_load)
reg('LDRD_lit_A1', arm_dual(True, 'lit'), x_load)
reg('LDRD_reg_A1', arm_dual(True, 'reg'), x_load)
reg('STRD_imm_A1', arm_dual(False, 'imm'), x_store)
reg('STRD_reg_A1', arm_dual(False, 'reg'), x_store)

# ------------------------------------------------------------------------------------------------ Thumb 16-bit
reg('LDR_lit_T1', lambda M, f: dict(size=4, t=f['t'], n=None, imm32=f['i'] << 2, add=True, index=True, wback=False), x_load)
for _nm, _load, _size, _signed in (('StrRegisterT1', False, 4, False), ('StrhRegisterT1', False, 2, False), ('StrbRegisterT1', False, 1, False),
                                   ('LdrsbRegisterT1', True, 1, True), ('LdrRegisterThumbT1', True, 4, False),
                                   ('LdrhRegisterT1', True, 2, False), ('LdrbRegisterT1', True, 1, False), ('LdrshRegisterT1', True, 2, True)):
    reg(_nm, lambda M, f, size=_size, signed=_signed: dict(size=size, signed=signed, t=f['t'], n=f['n'], m=f['m'], shift_t=LSL, shift_n=0,
                                                           index=True, add=True, wback=False), x_load if _load else x_store)
for _nm, _load, _size in (('STR_imm_T1', False, 4), ('LDR_imm_T1', True, 4), ('STRB_imm_T1', False, 1), ('LDRB_imm_T1', True, 1),
                          ('STRH_imm_T1', False, 2), ('LDRH_imm_T1', True, 2)):
    reg(_nm, lambda M, f, size=_size: dict(size=size, t=f['t'], n=f['n'], imm32=f['i'] * size, index=True, add=True, wback=False),
        x_load if _load else x_store)
reg('STR_imm_T2', lambda M, f: dict(size=4, t=f['t'], n=13, imm32=f['i'] << 2, index=True, add=True, wback=False), x_store)
reg('LDR_imm_T2', lambda M, f: dict(size=4, t=f['t'], n=13, imm32=f['i'] << 2, index=True, add=True, wback=False), x_load)


# ------------------------------------------------------------------------------------------------ Thumb 32-bit
def t_imm12(load, size, signed=False):
    def dec(M, f):
        t = f['t']
        if size == 4:
            if load:
                it_mid_pc(M, t)
            else:
                unp(t == 15)
        elif load:
            unp(t == 13)
        else:
            unp(t in BAD)
        return dict(size=size, signed=signed, t=t, n=f['n'], imm32=f['i'], index=True, add=True, wback=False)
    return dec


def t_imm8(load, size, signed=False):
    def dec(M, f):
        t, n = f['t'], f['n']
        index, add, wback = bool(f['P']), bool(f['U']), bool(f['W'])
        if size == 4:
            if load:
                unp(wback and n == t)
                it_mid_pc(M, t)
            else:
                unp(t == 15 or (wback and n == t))
        elif load:
            unp(t == 13 or (t == 15 and wback) or (wback and n == t))
            unp(t == 15)
        else:
            unp(t in BAD or (wback and n == t))
        return dict(size=size, signed=signed, t=t, n=n, imm32=f['i'], index=index, add=add, wback=wback)
    return dec


def t_reg(load, size, signed=False):
    def dec(M, f):
        t, m = f['t'], f['m']
        unp(m in BAD)
        if size == 4:
            if load:
                it_mid_pc(M, t)
            else:
                unp(t == 15)
        elif load:
            unp(t == 13)
        else:
            unp(t in BAD)
        return dict(size=size, signed=signed, t=t, n=f['n'], m=m, shift_t=LSL, shift_n=f['i'], index=True, add=True, wback=False)
    return dec


def t_lit(size, signed=False):
    def dec(M, f):
        t = f['t']
        if size == 4:
            it_mid_pc(M, t)
        else:
            unp(t == 13)
        return dict(size=size, signed=signed, t=t, n=None, imm32=f['i'], add=bool(f['U']), index=True, wback=False)
    return dec


def t_unpriv(load, size, signed=False):
    def dec(M, f):
        unp(f['t'] in BAD)
        return dict(size=size, signed=signed, t=f['t'], n=f['n'], imm32=f['i'], index=True, add=True, wback=False, unpriv=True)
    return dec


for _sz, _nm in ((1, 'STRB'), (2, 'STRH'), (4, 'STR')):
    reg(_nm + '_imm12', t_imm12(False, _sz), x_store)
    reg(_nm + '_imm8', t_imm8(False, _sz), x_store)
    reg(_nm + '_reg_T2', t_reg(False, _sz), x_store)
    reg(_nm + 'T_T1', t_unpriv(False, _sz), x_store)
for _sz, _nm, _sg in ((1, 'LDRB', False), (1, 'LDRSB', True), (2, 'LDRH', False), (2, 'LDRSH', True)):
    reg(_nm + '_lit', t_lit(_sz, _sg), x_load)
    reg(_nm + '_imm12', t_imm12(True, _sz, _sg), x_load)
    reg(_nm + '_imm8', t_imm8(True, _sz, _sg), x_load)
    reg(_nm + '_reg', t_reg(True, _sz, _sg), x_load)
    reg(_nm + 'T', t_unpriv(True, _sz, _sg), x_load)
reg('LDR_lit_T2', t_lit(4), x_load)
reg('LDR_imm_T3', t_imm12(True, 4), x_load)
reg('LDR_imm_T4', t_imm8(True, 4), x_load)
reg('LDR_reg_T2', t_reg(True, 4), x_load)
reg('LDRT_T1', t_unpriv(True, 4), x_load)


def t_dual(load, lit=False):
    def dec(M, f):
        t, t2 = f['t'], f['u']
        o = dict(size=8, t=t, t2=t2, imm32=f['i'] << 2)
        if lit:
            unp(t in BAD or t2 in BAD or t == t2)
            unp(f['W'] == 1)
            o.update(n=None, add=bool(f['U']), index=True, wback=False)
            return o
        n = f['n']
        index, add, wback = bool(f['P']), bool(f['U']), bool(f['W'])
        unp(wback and (n == t or n == t2))
        if load:
            unp(t in BAD or t2 in BAD or t == t2)
        else:
            unp(n == 15 or t in BAD or t2 in BAD)
        o.update(n=n, index=index, add=add, wback=wback)
        return o
    return dec


reg('LDRD_imm_T1', t_dual(True), x_load)
reg('LDRD_lit_T1', t_dual(True, True), x_load)
reg('STRD_imm_T1', t_dual(False), x_store)


# ------------------------------------------------------------------------------------------------ exclusives
def x_ldrex(M, o):
    size = o['size']
    address = (M.R(o['n']) + o.get('imm32', 0)) & M32
    if size == 8 and (address & 7):
        M.alignment_fault(address, False)        # LDREXD requires a doubleword-aligned address
    # SetExclusiveMonitors: translation of the address (may abort), then mark
    pa = M.translate(address, M.privileged(), False, size, True)
    M.excl = (pa, size)
    if size == 8:
        v = M.mem_a_cur(address, 8)
        big = M.bit('cpsr', 9)
        M.setR(o['t'], (v >> 32) if big else (v & M32))
        M.setR(o['t2'], (v & M32) if big else (v >> 32))
    else:
        M.setR(o['t'], M.mem_a_cur(address, size))


def x_strex(M, o):
    size = o['size']
    address = (M.R(o['n']) + o.get('imm32', 0)) & M32
    if address % size:
        M.alignment_fault(address, True)
    pa = M.translate(address, M.privileged(), True, size, True)
    passed = M.hooked and M.excl == (pa, size)
    if M.hooked and passed:
        M.excl = None
    if passed:
        if size == 8:
            big = M.bit('cpsr', 9)
            v = ((M.R(o['t']) << 32) | M.R(o['t2'])) if big else ((M.R(o['t2']) << 32) | M.R(o['t']))
            M.mem_a_cur(address, 8, v)
        else:
            M.mem_a_cur(address, size, M.R(o['t']) & ((1 << (8 * size)) - 1))
        M.setR(o['d'], 0)
    else:
        M.setR(o['d'], 1)


def ldrex_a(size):
    def dec(M, f):
        t, n = f['t'], f['n']
        if size == 8:
            unp((t & 1) or t == 14 or n == 15)
            return dict(size=8, t=t, t2=t + 1, n=n)
        unp(t == 15 or n == 15)
        return dict(size=size, t=t, n=n)
    return dec


def strex_a(size):
    def dec(M, f):
        d, t, n = f['d'], f['t'], f['n']
        if size == 8:
            unp(d == 15 or (t & 1) or t == 14 or n == 15)
            unp(d == n or d == t or d == t + 1)
            return dict(size=8, d=d, t=t, t2=t + 1, n=n)
        unp(d == 15 or t == 15 or n == 15)
        unp(d == n or d == t)
        return dict(size=size, d=d, t=t, n=n)
    return dec


for _sz, _sfx in ((4, ''), (8, 'D'), (1, 'B'), (2, 'H')):
    reg('LDREX%s_A1' % _sfx, ldrex_a(_sz), x_ldrex)
    reg('STREX%s_A1' % _sfx, strex_a(_sz), x_strex)


def _ldrex_t1(M, f):
    unp(f['t'] in BAD or f['n'] == 15)
    return dict(size=4, t=f['t'], n=f['n'], imm32=f['i'] << 2)


def _strex_t1(M, f):
    d, t, n = f['d'], f['t'], f['n']
    unp(d in BAD or t in BAD or n == 15)
    unp(d == n or d == t)
    return dict(size=4, d=d, t=t, n=n, imm32=f['i'] << 2)


def ldrex_t(size):
    def dec(M, f):
        t, n = f['t'], f['n']
        if size == 8:
            t2 = f['u']
            unp(t in BAD or t2 in BAD or t == t2 or n == 15)
            return dict(size=8, t=t, t2=t2, n=n)
        unp(t in BAD or n == 15)
        return dict(size=size, t=t, n=n)
    return dec


def strex_t(size):
    def dec(M, f):
        d, t, n = f['d'], f['t'], f['n']
        if size == 8:
            t2 = f['u']
            unp(d in BAD or t in BAD or t2 in BAD or n == 15)
            unp(d == n or d == t or d == t2)
            return dict(size=8, d=d, t=t, t2=t2, n=n)
        unp(d in BAD or t in BAD or n == 15)
        unp(d == n or d == t)
        return dict(size=size, d=d, t=t, n=n)
    return dec


reg('LDREX_T1', _ldrex_t1, x_ldrex)
reg('STREX_T1', _strex_t1, x_strex)
for _sz, _sfx in ((8, 'D'), (1, 'B'), (2, 'H')):
    reg('LDREX%s_T1' % _sfx, ldrex_t(_sz), x_ldrex)
    reg('STREX%s_T1' % _sfx, strex_t(_sz), x_strex)
