"""Reference machine: architectural state in snapshot key space + the ARM ARM's shared pseudocode (B1/B2/B5):
banked register access, PC writes, MemA/MemU, PMSA translation, exception entry.  Independent of armulator."""
from vf.gen import bank_key, MODES, MODE_NAME

M32 = 0xFFFFFFFF


class Unpred(Exception):
    """architecturally UNPREDICTABLE: no state comparison"""


class Undef(Exception):
    """architecturally UNDEFINED: the Undefined Instruction exception is taken"""


class NotImpl(Exception):
    """the pseudocode reaches a function armulator documents as a mock / unimplemented hook"""


class Skip(Exception):
    """outside what the reference models (case is executed for totality only)"""


class Abort(Exception):
    def __init__(self, kind, addr, iswrite, extra=None):
        self.kind, self.addr, self.iswrite, self.extra = kind, addr, iswrite, extra or {}


class SvcCall(Exception):
    pass


class SmcCall(Exception):
    pass


class HypTrap(Exception):
    pass


class EndOfInstruction(Exception):
    pass


def align(x, n):
    return x - (x % n)


class Machine:
    def __init__(self, snap, mems, cfg, hooked=False):
        """snap: snapshot dict (memN keys ignored); mems: [(begin, size)] in device order; cfg: full config dict"""
        self.s = {k: v for k, v in snap.items() if not k.startswith('mem')}
        self.mem = []
        for i, m_ in enumerate(mems):
            b, size = m_[0], m_[1]           # (a third element names the embedder's device class: no architectural meaning)
            self.mem.append((b, b + size, bytearray(snap.get('mem%d' % i, bytes(size)))))
        self.cfg = cfg
        self.hooked = hooked
        self.unknown = set()
        self.unknown_mem = set()
        self.unknown_bits = {}
        self.branched = False
        self.thumb = bool((self.s['cpsr'] >> 5) & 1)
        self.ilen = 4
        self.word = 0
        if 'excl' in self.s:
            self.s['excl'] = tuple(self.s['excl']) if self.s['excl'] else None
        else:
            self._excl = None
        self.quirks = frozenset()
        self.log = []

    # local exclusive monitor: part of the compared state when the target models it (hooked flavour), private otherwise
    @property
    def excl(self):
        return self.s['excl'] if 'excl' in self.s else self._excl

    @excl.setter
    def excl(self, v):
        if 'excl' in self.s:
            self.s['excl'] = v
        else:
            self._excl = v

    # ------------------------------------------------------------------------------ configuration
    def arch(self):
        return self.cfg['arch_version']

    def sec_ext(self):
        return bool(self.cfg['have_security_ext'])

    def virt_ext(self):
        return bool(self.cfg['have_virt_ext'])

    def pmsa(self):
        return self.cfg['memory_system_architecture'] == 'PMSA'

    # ------------------------------------------------------------------------------ CPSR
    def bit(self, key, i):
        return (self.s[key] >> i) & 1

    def setbit(self, key, i, v):
        self.s[key] = (self.s[key] & ~(1 << i)) | ((1 if v else 0) << i)

    def field(self, key, hi, lo):
        return (self.s[key] >> lo) & ((1 << (hi - lo + 1)) - 1)

    def setfield(self, key, hi, lo, v):
        m = ((1 << (hi - lo + 1)) - 1) << lo
        self.s[key] = (self.s[key] & ~m) | ((v << lo) & m)

    @property
    def mode(self):
        return self.s['cpsr'] & 31

    def mode_name(self, m=None):
        return MODE_NAME[self.mode if m is None else m]

    def flags(self):
        c = self.s['cpsr']
        return (c >> 31) & 1, (c >> 30) & 1, (c >> 29) & 1, (c >> 28) & 1

    def set_nzcv(self, n, z, c, v):
        self.s['cpsr'] = (self.s['cpsr'] & 0x0FFFFFFF) | (n << 31) | (z << 30) | (c << 29) | (v << 28)

    def set_nz(self, result32, c=None):
        self.setbit('cpsr', 31, result32 >> 31)
        self.setbit('cpsr', 30, 1 if (result32 & M32) == 0 else 0)
        if c is not None:
            self.setbit('cpsr', 29, c)

    def C(self):
        return (self.s['cpsr'] >> 29) & 1

    def set_q(self):
        self.setbit('cpsr', 27, 1)

    def ge(self):
        return (self.s['cpsr'] >> 16) & 15

    def set_ge(self, v):
        self.setfield('cpsr', 19, 16, v)

    def itstate(self):
        c = self.s['cpsr']
        return (((c >> 10) & 0x3F) << 2) | ((c >> 25) & 3)

    def set_itstate(self, it):
        self.setfield('cpsr', 15, 10, it >> 2)
        self.setfield('cpsr', 26, 25, it & 3)

    def in_it_block(self):
        return (self.itstate() & 0xF) != 0

    def last_in_it_block(self):
        return (self.itstate() & 0xF) == 0b1000

    def it_advance(self):
        it = self.itstate()
        if (it & 7) == 0:
            self.set_itstate(0)
        else:
            self.set_itstate((it & 0xE0) | ((it << 1) & 0x1F))

    def is_secure(self):
        return (not self.sec_ext()) or not (self.s['scr'] & 1) or self.mode == MODES['mon']

    def bad_mode(self, m):
        if m in (0b10000, 0b10001, 0b10010, 0b10011, 0b10111, 0b11011, 0b11111):
            return False
        if m == 0b10110:
            return not self.sec_ext()
        if m == 0b11010:
            return not self.virt_ext()
        return True

    def privileged(self):
        return self.mode != MODES['usr']

    def is_hyp(self):
        return self.mode == MODES['hyp']

    def user_or_system(self):
        return self.mode in (MODES['usr'], MODES['sys'])

    # ------------------------------------------------------------------------------ core registers
    def rkey(self, n, mode=None):
        return bank_key(n, self.mode_name(mode))

    def R(self, n):
        if n == 15:
            return (self.s['R.PC'] + (4 if self.thumb else 8)) & M32
        return self.s[self.rkey(n)]

    def setR(self, n, v):
        assert n != 15
        self.s[self.rkey(n)] = v & M32

    def Rmode(self, n, mode):
        return self.s[self.rkey(n, mode)]

    def setRmode(self, n, mode, v):
        self.s[self.rkey(n, mode)] = v & M32

    def pc_align4(self):
        return align(self.R(15), 4)

    def spsr_key(self):
        m = self.mode
        if self.bad_mode(m) or m in (MODES['usr'], MODES['sys']):
            raise Unpred('SPSR access in mode %#x' % m)
        return 'spsr_' + self.mode_name()

    def spsr(self):
        return self.s[self.spsr_key()]

    def set_spsr(self, v):
        self.s[self.spsr_key()] = v & M32

    # ------------------------------------------------------------------------------ PC writes
    def branch_to(self, addr):
        self.s['R.PC'] = addr & M32
        self.branched = True

    def branch_write_pc(self, addr):
        if not self.thumb:
            if self.arch() < 6 and (addr & 3):
                raise Unpred('BranchWritePC unaligned before ARMv6')
            self.branch_to(addr & ~3)
        else:
            self.branch_to(addr & ~1)

    def select_iset(self, thumb):
        self.thumb = bool(thumb)
        self.setbit('cpsr', 5, 1 if thumb else 0)
        self.setbit('cpsr', 24, 0)

    def bx_write_pc(self, addr):
        if addr & 1:
            self.select_iset(True)
            self.branch_to(addr & ~1)
        elif not (addr & 2):
            self.select_iset(False)
            self.branch_to(addr)
        else:
            raise Unpred('BXWritePC to address<1:0> = 10')

    def alu_write_pc(self, addr):
        if self.arch() >= 7 and not self.thumb:
            self.bx_write_pc(addr)
        else:
            self.branch_write_pc(addr)

    def load_write_pc(self, addr):
        if self.arch() >= 5:
            self.bx_write_pc(addr)
        else:
            self.branch_write_pc(addr)

    # ------------------------------------------------------------------------------ physical memory (hub model)
    def find_dev(self, pa):
        for d in self.mem:
            if d[0] <= pa < d[1]:
                return d
        return None

    def pa_read(self, pa, size):
        d = self.find_dev(pa)
        if d is None:
            return 0
        if pa + size > d[1]:
            raise Skip('access overhangs the end of a device')
        off = pa - d[0]
        for k in range(off, off + size):
            if (id(d[2]), k) in self.unknown_mem:
                raise Skip('read of UNKNOWN memory')
        return int.from_bytes(d[2][off:off + size], 'little')

    def pa_write(self, pa, size, value, unknown=False):
        d = self.find_dev(pa)
        if d is None:
            return
        if pa + size > d[1]:
            raise Skip('access overhangs the end of a device')
        off = pa - d[0]
        d[2][off:off + size] = (value & ((1 << (8 * size)) - 1)).to_bytes(size, 'little')
        for k in range(off, off + size):
            if unknown:
                self.unknown_mem.add((id(d[2]), k))
            else:
                self.unknown_mem.discard((id(d[2]), k))

    # ------------------------------------------------------------------------------ address translation
    def translate(self, va, ispriv, iswrite, size, wasaligned):
        """returns (pa, memattrs-shareable?)"""
        if self.pmsa():
            return self.translate_p(va, ispriv, iswrite, wasaligned)
        return self.translate_v(va, ispriv, iswrite, size, wasaligned)

    def translate_v(self, va, ispriv, iswrite, size, wasaligned):
        from vf.ref import mmu
        return mmu.translate_v(self, va, ispriv, iswrite, size, wasaligned)

    def translate_p(self, va, ispriv, iswrite, wasaligned):
        sctlr = self.s['sctlr']
        if not (sctlr & 1):
            return va
        nreg = (self.s['mpuir'] >> 8) & 0xFF
        hit = None
        for r in range(nreg):
            if ('drsrs[%d]' % r) not in self.s:
                raise Unpred('MPUIR.DRegion exceeds the implemented regions')
            rsr = self.s['drsrs[%d]' % r]
            if not (rsr & 1):
                continue
            lsbit = ((rsr >> 1) & 31) + 1
            base = self.s['drbars[%d]' % r]
            if lsbit < 2:
                raise Unpred('region size field < 1')
            if lsbit > 2 and (base & ((1 << lsbit) - 1) & ~3):
                raise Unpred('region base not aligned to its size')
            if lsbit == 32 or (va >> lsbit) == (base >> lsbit):
                if lsbit >= 8:
                    sub = (va >> (lsbit - 3)) & 7
                    if (rsr >> (8 + sub)) & 1:
                        continue
                hit = r
        if hit is None:
            if not ((sctlr >> 17) & 1) or not ispriv:
                raise Abort('background', va, iswrite)
            ap = 0b011
        else:
            ap = (self.s['dracrs[%d]' % hit] >> 8) & 7
        self.check_ap(ap, va, ispriv, iswrite, pmsa=True)
        return va

    def check_ap(self, ap, va, ispriv, iswrite, pmsa, extra=None):
        if ap == 0b000:
            ab = True
        elif ap == 0b001:
            ab = not ispriv
        elif ap == 0b010:
            ab = (not ispriv) and iswrite
        elif ap == 0b011:
            ab = False
        elif ap == 0b100:
            raise Unpred('AP = 100')
        elif ap == 0b101:
            ab = (not ispriv) or iswrite
        elif ap == 0b110:
            ab = iswrite
        else:
            if pmsa:
                raise Unpred('AP = 111 on PMSA')
            ab = iswrite
        if ab:
            raise Abort('permission', va, iswrite, extra)

    # ------------------------------------------------------------------------------ MemA / MemU
    def alignment_fault(self, addr, iswrite):
        raise Abort('alignment', addr, iswrite)

    def mem_a(self, addr, size, ispriv, wasaligned, value=None):
        iswrite = value is not None
        sctlr = self.s['sctlr']
        if addr == align(addr, size):
            va = addr
        elif self.arch() >= 7 or (sctlr >> 1) & 1 or (sctlr >> 22) & 1:
            self.alignment_fault(addr, iswrite)
        else:
            va = align(addr, size)
        pa = self.translate(va, ispriv, iswrite, size, wasaligned)
        big = self.bit('cpsr', 9)
        if iswrite:
            if value == 'UNKNOWN':
                self.pa_write(pa, size, 0, unknown=True)
                return None
            v = value & ((1 << (8 * size)) - 1)
            if big:
                v = int.from_bytes(v.to_bytes(size, 'little'), 'big')
            self.pa_write(pa, size, v)
            return None
        v = self.pa_read(pa, size)
        if big:
            v = int.from_bytes(v.to_bytes(size, 'little'), 'big')
        return v

    def mem_u(self, addr, size, ispriv=None, value=None):
        if ispriv is None:
            ispriv = self.privileged()
        iswrite = value is not None
        sctlr = self.s['sctlr']
        a_bit = (sctlr >> 1) & 1
        u_bit = (sctlr >> 22) & 1
        if self.arch() < 7 and not a_bit and not u_bit:
            addr = align(addr, size)
        if addr == align(addr, size):
            return self.mem_a(addr, size, ispriv, True, value)
        if self.virt_ext() and not self.is_secure() and self.is_hyp() and (self.s['hsctlr'] >> 1) & 1:
            self.alignment_fault(addr, iswrite)
        if not self.is_hyp() and a_bit:
            self.alignment_fault(addr, iswrite)
        big = self.bit('cpsr', 9)
        if iswrite:
            if value == 'UNKNOWN':
                for i in range(size):
                    self.mem_a((addr + i) & M32, 1, ispriv, False, 'UNKNOWN')
                return None
            v = value & ((1 << (8 * size)) - 1)
            if big:
                v = int.from_bytes(v.to_bytes(size, 'little'), 'big')
            for i in range(size):
                self.mem_a((addr + i) & M32, 1, ispriv, False, (v >> (8 * i)) & 0xFF)
            return None
        v = 0
        for i in range(size):
            v |= self.mem_a((addr + i) & M32, 1, ispriv, False) << (8 * i)
        if big:
            v = int.from_bytes(v.to_bytes(size, 'little'), 'big')
        return v

    def mem_a_cur(self, addr, size, value=None):
        return self.mem_a(addr, size, self.privileged(), True, value)

    def unaligned_support(self):
        return bool((self.s['sctlr'] >> 22) & 1)

    # ------------------------------------------------------------------------------ exception entry (B1.9)
    def exc_vector_base(self):
        if (self.s['sctlr'] >> 13) & 1:
            return 0xFFFF0000
        if self.sec_ext():
            return self.s['vbar']
        return 0

    def enter_mode_common(self, target_mode, lr_value, offset, mask_a=False, mask_f=False):
        old_cpsr = self.s['cpsr']
        if self.mode == MODES['mon'] and self.sec_ext():
            self.setbit('scr', 0, 0)
        self.setfield('cpsr', 4, 0, target_mode)
        self.set_spsr(old_cpsr)
        if lr_value == 'UNKNOWN':
            self.unknown.add(self.rkey(14))
        else:
            self.setR(14, lr_value)
        self.setbit('cpsr', 7, 1)
        ok = (not self.sec_ext()) or self.virt_ext() or not (self.s['scr'] & 1)
        if mask_f and (ok or (self.s['scr'] >> 4) & 1):
            self.setbit('cpsr', 6, 1)
        if mask_a and (ok or (self.s['scr'] >> 5) & 1):
            self.setbit('cpsr', 8, 1)
        self.set_itstate(0)
        self.setbit('cpsr', 24, 0)
        te = (self.s['sctlr'] >> 30) & 1
        self.setbit('cpsr', 5, te)
        self.thumb = bool(te)
        self.setbit('cpsr', 9, (self.s['sctlr'] >> 25) & 1)
        self.branch_to((self.exc_vector_base() + offset) & M32)

    def enter_monitor(self, lr_value, offset):
        old_cpsr = self.s['cpsr']
        if self.mode == MODES['mon']:
            self.setbit('scr', 0, 0)
        self.setfield('cpsr', 4, 0, MODES['mon'])
        self.set_spsr(old_cpsr)
        self.setR(14, lr_value)
        self.setbit('cpsr', 24, 0)
        te = (self.s['sctlr'] >> 30) & 1
        self.setbit('cpsr', 5, te)
        self.thumb = bool(te)
        self.setbit('cpsr', 9, (self.s['sctlr'] >> 25) & 1)
        self.setbit('cpsr', 8, 1)
        self.setbit('cpsr', 6, 1)
        self.setbit('cpsr', 7, 1)
        self.set_itstate(0)
        self.branch_to((self.s['mvbar'] + offset) & M32)

    def enter_hyp(self, preferred_return, offset):
        old_cpsr = self.s['cpsr']
        self.setfield('cpsr', 4, 0, MODES['hyp'])
        self.s['spsr_hyp'] = old_cpsr
        self.s['elr_hyp'] = preferred_return & M32
        self.setbit('cpsr', 24, 0)
        te = (self.s['hsctlr'] >> 30) & 1
        self.setbit('cpsr', 5, te)
        self.thumb = bool(te)
        self.setbit('cpsr', 9, (self.s['hsctlr'] >> 25) & 1)
        scr = self.s['scr']
        if not (scr >> 3) & 1:
            self.setbit('cpsr', 8, 1)
        if not (scr >> 2) & 1:
            self.setbit('cpsr', 6, 1)
        if not (scr >> 1) & 1:
            self.setbit('cpsr', 7, 1)
        self.set_itstate(0)
        self.branch_to((self.s['hvbar'] + offset) & M32)

    def ns_hyp_capable(self):
        return self.virt_ext() and self.sec_ext()

    def take_reset(self):
        self.setfield('cpsr', 4, 0, MODES['svc'])
        if self.sec_ext():
            self.setbit('scr', 0, 0)
        # ResetControlRegisters(): IMPLEMENTATION DEFINED; the configuration file gives reset values, VBAR is re-initialised
        rv = self.cfg.get('reset_values', {}).get('VBAR')
        self.s['vbar'] = int(rv, 0) if rv else 0
        for bit in (7, 6, 8):
            self.setbit('cpsr', bit, 1)
        self.set_itstate(0)
        self.setbit('cpsr', 24, 0)
        te = (self.s['sctlr'] >> 30) & 1
        self.setbit('cpsr', 5, te)
        self.thumb = bool(te)
        self.setbit('cpsr', 9, (self.s['sctlr'] >> 25) & 1)
        vec = self.cfg['impdef_reset_vector'] if self.cfg.get('has_imp_def_reset_vector') else self.exc_vector_base()
        self.branch_to(vec & ~1)

    def take_undef(self):
        instr = self.s['R.PC']
        lr = (instr + (2 if self.thumb else 4)) & M32
        if self.ns_hyp_capable() and (self.s['scr'] & 1) and self.is_hyp():
            self.enter_hyp(instr, 0x04)
        elif self.ns_hyp_capable() and not self.is_secure() and (self.s['hcr'] >> 27) & 1 and self.mode == MODES['usr']:
            self.enter_hyp(instr, 0x14)
        else:
            self.enter_mode_common(MODES['und'], lr, 0x04)

    def take_svc(self):
        self.it_advance()
        instr = self.s['R.PC']
        nxt = (instr + (2 if self.thumb else 4)) & M32
        if self.ns_hyp_capable() and (self.s['scr'] & 1) and self.is_hyp():
            self.enter_hyp(nxt, 0x08)
        elif self.ns_hyp_capable() and not self.is_secure() and (self.s['hcr'] >> 27) & 1 and self.mode == MODES['usr']:
            self.enter_hyp(nxt, 0x14)
        else:
            self.enter_mode_common(MODES['svc'], nxt, 0x08)

    def take_smc(self):
        self.it_advance()
        nxt = (self.s['R.PC'] + 4) & M32
        self.enter_monitor(nxt, 0x08)

    def take_hyp_trap(self):
        self.enter_hyp(self.s['R.PC'], 0x14)

    def take_data_abort(self, ab, external=False, asynchronous=False, debug=False):
        """TakeDataAbortException() (B1.9.8). The emulator itself only produces synchronous, non-external aborts; `external`, `asynchronous` and `debug`
        are what an embedder's memory system / debug logic reports through IsExternalAbort() / IsAsyncAbort() / DebugException()"""
        instr = self.s['R.PC']
        lr = (instr + 8) & M32
        s2 = bool(ab.extra.get('s2'))
        route_to_monitor = self.sec_ext() and (self.s['scr'] >> 3) & 1 and external
        take_to_hyp = self.ns_hyp_capable() and (self.s['scr'] & 1) and self.is_hyp()
        route_to_hyp = False
        if self.ns_hyp_capable() and not self.is_secure():
            hcr = self.s['hcr']
            route_to_hyp = bool(s2 or (not self.is_hyp() and external and asynchronous and (hcr >> 5) & 1) or (not self.is_hyp() and debug and (self.s['hdcr'] >> 8) & 1)
                                or (self.mode == MODES['usr'] and (hcr >> 27) & 1 and (ab.kind == 'alignment' or (external and not asynchronous))))
        if route_to_monitor:
            self.enter_monitor(lr, 0x10)
        elif take_to_hyp:
            self.enter_hyp(instr, 0x10)
        elif route_to_hyp:
            # a stage-2 abort, an alignment fault of a Non-secure User mode access with HCR.TGE, ...: routed to Hyp mode, Hyp Trap vector
            self.enter_hyp(instr, 0x14)
        else:
            self.enter_mode_common(MODES['abt'], lr, 0x10, mask_a=True)

    def take_irq(self):
        """physical IRQ taken before the instruction at PC"""
        nxt = self.s['R.PC']
        lr = (nxt + 4) & M32
        scr = self.s.get('scr', 0)
        if self.sec_ext() and (scr >> 1) & 1:
            self.enter_monitor(lr, 0x18)
        elif (self.ns_hyp_capable() and not (scr >> 1) & 1 and (self.s['hcr'] >> 4) & 1 and not self.is_secure()) or self.is_hyp():
            self.unknown.add('hsr')
            self.enter_hyp(nxt, 0x18)
        else:
            ve = (self.s['sctlr'] >> 24) & 1
            self.enter_mode_common(MODES['irq'], lr, 0x18, mask_a=True)
            if ve:
                self.branch_to(self.cfg['impdef_irq_vector'])

    def take_fiq(self):
        nxt = self.s['R.PC']
        lr = (nxt + 4) & M32
        scr = self.s.get('scr', 0)
        if self.sec_ext() and (scr >> 2) & 1:
            self.enter_monitor(lr, 0x1C)
        elif (self.ns_hyp_capable() and not (scr >> 2) & 1 and (self.s['hcr'] >> 3) & 1 and not self.is_secure()) or self.is_hyp():
            self.unknown.add('hsr')
            self.enter_hyp(nxt, 0x1C)
        else:
            ve = (self.s['sctlr'] >> 24) & 1
            self.enter_mode_common(MODES['fiq'], lr, 0x1C, mask_a=True, mask_f=True)
            if ve:
                self.branch_to(self.cfg['impdef_fiq_vector'])

    def write_hsr(self, ec, hsr_string, cond=None, cond_passed=True):
        """WriteHSR(): EC, ISS; the IL bit is left UNKNOWN (its rule differs between manual revisions)"""
        v = (ec & 0x3F) << 26
        if (ec >> 4) == 0 and (ec & 15) != 0:
            if not self.thumb:
                v |= 1 << 24
                v |= (cond if cond is not None else 14) << 20
            else:
                if self.cfg.get('write_hsr_hsr_value_24'):
                    v |= 1 << 24
                    c = cond if cond is not None else 14
                    if cond_passed and not self.cfg.get('write_hsr_23_22_cond'):
                        c = 14
                    v |= c << 20
            v |= hsr_string & 0xFFFFF
        else:
            v |= hsr_string & 0x1FFFFFF
        self.s['hsr'] = v
        self.unknown_bits['hsr'] = 1 << 25

    # ------------------------------------------------------------------------------ fault status
    def report_abort(self, ab):
        """write DFSR/DFAR (or HSR/HDFAR) for a synchronous abort, per B3.12-13 / B5.6"""
        if self.pmsa():
            fs = {'alignment': 0b00001, 'background': 0b00000, 'permission': 0b01101}[ab.kind]
            v = ((1 if ab.iswrite else 0) << 11) | ((fs >> 4) << 10) | (fs & 15)
            self.s['dfsr'] = (self.s['dfsr'] & ~0x3FFF) | v
            self.s['dfar'] = ab.addr & M32
        else:
            from vf.ref import mmu
            mmu.report_abort(self, ab)


# ---------------------------------------------------------------------------------------------- PSR writes (B1.3.3)
def cpsr_write_by_instr(M, value, bytemask, is_excpt_return):
    privileged = M.privileged()
    nmfi = (M.s['sctlr'] >> 27) & 1
    c = M.s['cpsr']
    scr = M.s.get('scr', 0) if M.sec_ext() else 0

    def cp(hi, lo):
        nonlocal c
        m = ((1 << (hi - lo + 1)) - 1) << lo
        c = (c & ~m) | (value & m)
    if bytemask & 8:
        cp(31, 27)
        if is_excpt_return:
            cp(26, 24)
            M.it_restored = True           # ITSTATE now is the interrupted program's: the IT-block bookkeeping of the returning instruction does not apply to it
    if bytemask & 4:
        cp(19, 16)
    if bytemask & 2:
        if is_excpt_return:
            cp(15, 10)
            M.it_restored = True
        cp(9, 9)
        if privileged and (M.is_secure() or (scr >> 5) & 1 or M.virt_ext()):
            cp(8, 8)
    if bytemask & 1:
        if privileged:
            cp(7, 7)
        if privileged and (not nmfi or not (value >> 6) & 1) and (M.is_secure() or (scr >> 4) & 1 or M.virt_ext()):
            cp(6, 6)
        if is_excpt_return:
            cp(5, 5)
        if privileged:
            vm = value & 31
            if M.bad_mode(vm):
                raise Unpred('CPSRWriteByInstr: bad mode')
            if not M.is_secure() and vm == MODES['mon']:
                raise Unpred('Monitor mode from Non-secure state')
            if not M.is_secure() and vm == MODES['fiq'] and (M.s.get('nsacr', 0) >> 19) & 1:
                raise Unpred('FIQ mode from Non-secure state with NSACR.RFR')
            if not (scr & 1) and vm == MODES['hyp']:
                raise Unpred('Hyp mode in Secure state')
            if not M.is_secure() and M.mode != MODES['hyp'] and vm == MODES['hyp']:
                raise Unpred('into Hyp mode from a Non-secure PL1 mode')
            if M.mode == MODES['hyp'] and vm != MODES['hyp'] and not is_excpt_return:
                raise Unpred('out of Hyp mode without exception return')
            cp(4, 0)
    M.s['cpsr'] = c
    M.thumb = bool((c >> 5) & 1)


def spsr_write_by_instr(M, value, bytemask):
    if M.user_or_system():
        raise Unpred('SPSR write in User/System mode')
    s = M.spsr()

    def cp(hi, lo):
        nonlocal s
        m = ((1 << (hi - lo + 1)) - 1) << lo
        s = (s & ~m) | (value & m)
    if bytemask & 8:
        cp(31, 24)
    if bytemask & 4:
        cp(19, 16)
    if bytemask & 2:
        cp(15, 8)
    if bytemask & 1:
        cp(7, 5)
        if M.bad_mode(value & 31):
            raise Unpred('SPSRWriteByInstr: bad mode')
        cp(4, 0)
    M.set_spsr(s)


def exception_return_branch(M, new_pc):
    c = M.s['cpsr']
    if (c & 31) == MODES['hyp'] and (c >> 24) & 1 and (c >> 5) & 1:
        raise Unpred('return to Hyp mode in ThumbEE state')
    if (c >> 24) & 1:
        raise Unpred('exception return to Jazelle/ThumbEE state (not modelled)')
    M.branch_write_pc(new_pc)
