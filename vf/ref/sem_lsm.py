"""Reference semantics: block transfers and stack operations (LDM/STM all modes, PUSH/POP, user-bank and
exception-return forms, SRS, RFE)."""
from vf.ref.core import reg, bitcount
from vf.ref.machine import Unpred, Undef, M32, cpsr_write_by_instr, exception_return_branch
from vf.ref.sem_dp import unp
from vf.ref.sem_ls import pc_store_value
from vf.gen import MODES


def lowest(x):
    return (x & -x).bit_length() - 1


def x_ldm(M, o):
    regs, n = o['registers'], o['n']
    bc = bitcount(regs)
    base = M.R(n)
    mode = o['mode']       # IA IB DA DB
    address = {'IA': base, 'IB': base + 4, 'DA': base - 4 * bc + 4, 'DB': base - 4 * bc}[mode] & M32
    final = (base + 4 * bc) & M32 if mode in ('IA', 'IB') else (base - 4 * bc) & M32
    unaligned = o.get('unaligned_allowed', False)
    for i in range(15):
        if (regs >> i) & 1:
            v = M.mem_u(address, 4) if unaligned else M.mem_a_cur(address, 4)
            M.setR(i, v)
            address = (address + 4) & M32
    if (regs >> 15) & 1:
        if unaligned:
            if address & 3:
                raise Unpred('POP pc from unaligned address')
            M.load_write_pc(M.mem_u(address, 4))
        else:
            M.load_write_pc(M.mem_a_cur(address, 4))
    if o['wback']:
        if (regs >> n) & 1:
            M.unknown.add(M.rkey(n))
        else:
            M.setR(n, final)


def x_stm(M, o):
    regs, n = o['registers'], o['n']
    bc = bitcount(regs)
    base = M.R(n)
    mode = o['mode']
    address = {'IA': base, 'IB': base + 4, 'DA': base - 4 * bc + 4, 'DB': base - 4 * bc}[mode] & M32
    final = (base + 4 * bc) & M32 if mode in ('IA', 'IB') else (base - 4 * bc) & M32
    unaligned = o.get('unaligned_allowed', False)
    for i in range(15):
        if (regs >> i) & 1:
            if i == n and o['wback'] and i != lowest(regs):
                M.mem_a_cur(address, 4, 'UNKNOWN')
            elif unaligned:
                M.mem_u(address, 4, None, M.R(i))
            else:
                M.mem_a_cur(address, 4, M.R(i))
            address = (address + 4) & M32
    if (regs >> 15) & 1:
        if unaligned:
            M.mem_u(address, 4, None, pc_store_value(M))
        else:
            M.mem_a_cur(address, 4, pc_store_value(M))
    if o['wback']:
        M.setR(n, final)


def ldm_a(mode):
    def dec(M, f):
        n, regs, wback = f['n'], f['r'], bool(f['W'])
        unp(n == 15 or bitcount(regs) < 1)
        unp(wback and (regs >> n) & 1 and M.arch() >= 7)
        return dict(n=n, registers=regs, wback=wback, mode=mode)
    return dec


def stm_a(mode):
    def dec(M, f):
        n, regs, wback = f['n'], f['r'], bool(f['W'])
        unp(n == 15 or bitcount(regs) < 1)
        return dict(n=n, registers=regs, wback=wback, mode=mode)
    return dec


reg('LDM_A1', ldm_a('IA'), x_ldm)
reg('LDMDA_A1', ldm_a('DA'), x_ldm)
reg('LDMDB_A1', ldm_a('DB'), x_ldm)
reg('LDMIB_A1', ldm_a('IB'), x_ldm)
reg('STM_A1', stm_a('IA'), x_stm)
reg('STMDA_A1', stm_a('DA'), x_stm)
reg('STMDB_A1', stm_a('DB'), x_stm)
reg('STMIB_A1', stm_a('IB'), x_stm)


def _pop_a1(M, f):
    regs = f['r']
    unp((regs >> 13) & 1 and M.arch() >= 7)
    return dict(n=13, registers=regs, wback=True, mode='IA', unaligned_allowed=False)


def _push_a1(M, f):
    return dict(n=13, registers=f['r'], wback=True, mode='DB', unaligned_allowed=False)


reg('POP_A1', _pop_a1, x_ldm)
reg('PUSH_A1', _push_a1, x_stm)


def _push_a2(M, f):
    unp(f['t'] == 13)
    return dict(n=13, registers=1 << f['t'], wback=True, mode='DB', unaligned_allowed=True)


def _pop_a2(M, f):
    unp(f['t'] == 13)
    return dict(n=13, registers=1 << f['t'], wback=True, mode='IA', unaligned_allowed=True)


def _push_t3(M, f):
    unp(f['t'] in (13, 15))
    return dict(n=13, registers=1 << f['t'], wback=True, mode='DB', unaligned_allowed=True)


def _pop_t3(M, f):
    t = f['t']
    unp(t == 13)
    unp(t == 15 and M.in_it_block() and not M.last_in_it_block())
    return dict(n=13, registers=1 << t, wback=True, mode='IA', unaligned_allowed=True)


reg('PUSH_A2', _push_a2, x_stm)
reg('POP_A2', _pop_a2, x_ldm)
reg('PUSH_T3', _push_t3, x_stm)
reg('POP_T3', _pop_t3, x_ldm)


def pc_in_it(M, regs):
    unp((regs >> 15) & 1 and M.in_it_block() and not M.last_in_it_block())


def _ldm_t1(M, f):
    n, regs = f['n'], f['r']
    unp(bitcount(regs) < 1)
    return dict(n=n, registers=regs, wback=not ((regs >> n) & 1), mode='IA')


def _stm_t1(M, f):
    unp(bitcount(f['r']) < 1)
    return dict(n=f['n'], registers=f['r'], wback=True, mode='IA')


def _push_t1(M, f):
    regs = (f['M'] << 14) | f['r']
    unp(bitcount(regs) < 1)
    return dict(n=13, registers=regs, wback=True, mode='DB', unaligned_allowed=False)


def _pop_t1(M, f):
    regs = (f['P'] << 15) | f['r']
    unp(bitcount(regs) < 1)
    pc_in_it(M, regs)
    return dict(n=13, registers=regs, wback=True, mode='IA', unaligned_allowed=False)


reg('LDM_T1', _ldm_t1, x_ldm)
reg('STM_T1', _stm_t1, x_stm)
reg('PUSH_T1', _push_t1, x_stm)
reg('POP_T1', _pop_t1, x_ldm)


def t2_load(mode, sp):
    def dec(M, f):
        regs = (f['P'] << 15) | (f['M'] << 14) | f['r']
        n = 13 if sp else f['n']
        wback = True if sp else bool(f['W'])
        unp(n == 15 or bitcount(regs) < 2 or (f['P'] and f['M']))
        pc_in_it(M, regs)
        unp((not sp) and wback and (regs >> n) & 1)
        o = dict(n=n, registers=regs, wback=wback, mode=mode)
        if sp:
            o['unaligned_allowed'] = False
        return o
    return dec


def t2_store(mode, sp):
    def dec(M, f):
        regs = (f['M'] << 14) | f['r']
        n = 13 if sp else f['n']
        wback = True if sp else bool(f['W'])
        unp(n == 15 or bitcount(regs) < 2)
        unp((not sp) and wback and (regs >> n) & 1)
        o = dict(n=n, registers=regs, wback=wback, mode=mode)
        if sp:
            # known finding push-t2-unaligned: armulator decodes PUSH (T2) with UnalignedAllowed = TRUE
            o['unaligned_allowed'] = 'push-t2-unaligned' in M.quirks
        return o
    return dec


reg('LDM_T2', t2_load('IA', False), x_ldm)
reg('POP_T2', t2_load('IA', True), x_ldm)
reg('LDMDB_T1', t2_load('DB', False), x_ldm)
reg('STM_T2', t2_store('IA', False), x_stm)
reg('PUSH_T2', t2_store('DB', True), x_stm)
reg('STMDB_T1', t2_store('DB', False), x_stm)


# ------------------------------------------------------------------------------------------------ user-bank forms, exception return
def mode_check(M):
    if M.is_hyp():
        raise Undef('not available in Hyp mode')
    if M.user_or_system():
        raise Unpred('UNPREDICTABLE in User or System mode')


def block_addr(M, o, length):
    base = M.R(o['n'])
    address = base if o['increment'] else (base - length) & M32
    if o['word_higher']:
        address = (address + 4) & M32
    return base, address


def _stm_user(M, f):
    unp(f['n'] == 15 or bitcount(f['r']) < 1)
    return dict(n=f['n'], registers=f['r'], increment=bool(f['U']), word_higher=(f['P'] == f['U']))


def x_stm_user(M, o):
    mode_check(M)
    regs = o['registers']
    base, address = block_addr(M, o, 4 * bitcount(regs))
    for i in range(15):
        if (regs >> i) & 1:
            M.mem_a_cur(address, 4, M.Rmode(i, MODES['usr']))
            address = (address + 4) & M32
    if (regs >> 15) & 1:
        M.mem_a_cur(address, 4, pc_store_value(M))


def _ldm_user(M, f):
    unp(f['n'] == 15 or bitcount(f['r']) < 1)
    return dict(n=f['n'], registers=f['r'], increment=bool(f['U']), word_higher=(f['P'] == f['U']))


def x_ldm_user(M, o):
    mode_check(M)
    regs = o['registers']
    base, address = block_addr(M, o, 4 * bitcount(regs))
    for i in range(15):
        if (regs >> i) & 1:
            M.setRmode(i, MODES['usr'], M.mem_a_cur(address, 4))
            address = (address + 4) & M32


def _ldm_eret(M, f):
    n, regs, wback = f['n'], f['r'] | 0x8000, bool(f['W'])
    unp(n == 15)
    unp(wback and (regs >> n) & 1 and M.arch() >= 7)
    return dict(n=n, registers=regs, wback=wback, increment=bool(f['U']), word_higher=(f['P'] == f['U']))


def x_ldm_eret(M, o):
    mode_check(M)
    regs, n = o['registers'], o['n']
    length = 4 * bitcount(regs & 0x7FFF) + 4
    base, address = block_addr(M, o, length)
    for i in range(15):
        if (regs >> i) & 1:
            M.setR(i, M.mem_a_cur(address, 4))
            address = (address + 4) & M32
    new_pc = M.mem_a_cur(address, 4)
    if o['wback']:
        if (regs >> n) & 1:
            M.unknown.add(M.rkey(n))
        else:
            M.setR(n, (base + length) & M32 if o['increment'] else (base - length) & M32)
    cpsr_write_by_instr(M, M.spsr(), 0b1111, True)
    exception_return_branch(M, new_pc)


reg('STM_user_A1', _stm_user, x_stm_user)
reg('LDM_user_A1', _ldm_user, x_ldm_user)
reg('LDM_eret_A1', _ldm_eret, x_ldm_eret)


# ------------------------------------------------------------------------------------------------ RFE / SRS
def x_rfe(M, o):
    if M.is_hyp():
        raise Undef('RFE in Hyp mode')
    if not M.privileged():
        raise Unpred('RFE in User mode')
    base = M.R(o['n'])
    address = base if o['increment'] else (base - 8) & M32
    if o['word_higher']:
        address = (address + 4) & M32
    new_pc = M.mem_a_cur(address, 4)
    spsr_value = M.mem_a_cur((address + 4) & M32, 4)
    if o['wback']:
        M.setR(o['n'], (base + 8) & M32 if o['increment'] else (base - 8) & M32)
    cpsr_write_by_instr(M, spsr_value, 0b1111, True)
    exception_return_branch(M, new_pc)


def _rfe_a1(M, f):
    unp(f['n'] == 15)
    return dict(n=f['n'], wback=bool(f['W']), increment=bool(f['U']), word_higher=(f['P'] == f['U']))


def rfe_t(inc):
    def dec(M, f):
        unp(f['n'] == 15)
        unp(M.in_it_block() and not M.last_in_it_block())
        return dict(n=f['n'], wback=bool(f['W']), increment=inc, word_higher=False)
    return dec


reg('RFE_A1', _rfe_a1, x_rfe)
reg('RFE_T1', rfe_t(False), x_rfe)
reg('RFE_T2', rfe_t(True), x_rfe)


def x_srs(M, o):
    if M.is_hyp():
        raise Undef('SRS in Hyp mode')
    if M.user_or_system():
        raise Unpred('SRS in User or System mode')
    mode = o['mode']
    if mode == MODES['hyp'] or M.bad_mode(mode):
        raise Unpred('SRS to Hyp / bad mode')
    if not M.is_secure():
        if mode == MODES['mon'] or (mode == MODES['fiq'] and (M.s.get('nsacr', 0) >> 19) & 1):
            raise Unpred('SRS to a Secure-only mode from Non-secure state')
    base = M.Rmode(13, mode)
    address = base if o['increment'] else (base - 8) & M32
    if o['word_higher']:
        address = (address + 4) & M32
    M.mem_a_cur(address, 4, M.R(14))
    M.mem_a_cur((address + 4) & M32, 4, M.spsr())
    if o['wback']:
        M.setRmode(13, mode, (base + 8) & M32 if o['increment'] else (base - 8) & M32)


reg('SRS_A1', lambda M, f: dict(mode=f['m'], wback=bool(f['W']), increment=bool(f['U']), word_higher=(f['P'] == f['U'])), x_srs)
reg('SRS_T1', lambda M, f: dict(mode=f['m'], wback=bool(f['W']), increment=False, word_higher=False), x_srs)
reg('SRS_T2', lambda M, f: dict(mode=f['m'], wback=bool(f['W']), increment=True, word_higher=False), x_srs)
