"""Reference encoding-table machinery (rows as pattern strings) shared by the ARM / Thumb tables.

Written from DDI 0406C chapter A5/A8 encoding diagrams. Pattern alphabet:
  0 1      fixed bits
  z o      should-be-zero / should-be-one (do not take part in matching; violated => UNPREDICTABLE)
  letters  fields (a letter may be split over several runs; runs are concatenated msb first)
Rows are tried in order; first row whose fixed bits match and whose guard holds wins.
`cls` is the armulator class expected, or one of the outcome tokens
  UNDEF     : architecturally UNDEFINED -> must end in Undefined Instruction
  NOTIMPL   : belongs to an extension armulator documents as not implemented -> Undefined or NotImplementedError
  UNPRED    : every behaviour accepted (still must not crash)
  NOPISH    : unallocated hint: NOP or UNDEFINED accepted
"""

UNDEF, NOTIMPL, UNPRED, NOPISH = 'UNDEF', 'NOTIMPL', 'UNPRED', 'NOPISH'


class Row:
    __slots__ = ('name', 'cls', 'pat', 'guard', 'mask', 'value', 'fields', 'n', 'sbz', 'sbo')

    def __init__(self, name, cls, pat, guard=None):
        self.name, self.cls, self.guard = name, cls, guard
        bits = pat.replace(' ', '')
        assert len(bits) in (16, 32), (name, len(bits), pat)
        self.pat = bits
        self.n = len(bits)
        self.mask = self.value = self.sbz = self.sbo = 0
        self.fields = {}
        for i, ch in enumerate(bits):
            pos = self.n - 1 - i
            if ch in '01':
                self.mask |= 1 << pos
                if ch == '1': self.value |= 1 << pos
            elif ch == 'z': self.sbz |= 1 << pos
            elif ch == 'o': self.sbo |= 1 << pos
            else: self.fields.setdefault(ch, []).append(pos)

    def runs(self, k):
        """contiguous runs [(hi, lo), ...] msb-first for field k"""
        poss = self.fields[k]; out = []; hi = lo = poss[0]
        for p in poss[1:]:
            if p == lo - 1: lo = p
            else: out.append((hi, lo)); hi = lo = p
        out.append((hi, lo)); return out

    def extract(self, w):
        out = {}
        for k in self.fields:
            v = 0
            for hi, lo in self.runs(k):
                width = hi - lo + 1
                v = (v << width) | ((w >> lo) & ((1 << width) - 1))
            out[k] = v
        return out

    def build(self, **f):
        w = self.value | self.sbo
        for k, poss in self.fields.items():
            v = f[k]
            for j, p in enumerate(reversed(poss)):
                w |= ((v >> j) & 1) << p
        return w


def decode(table, w):
    for row in table:
        if (w & row.mask) == row.value:
            f = row.extract(w)
            if row.guard is None or row.guard(f):
                return row, f
    return None, None


