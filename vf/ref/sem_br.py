"""Reference semantics: branches (B, BL, BLX, BX, BXJ, CBZ/CBNZ, TBB/TBH) and IT."""
from vf.ref.core import reg, sext, bitcount
from vf.ref.machine import Unpred, Undef, Skip, M32
from vf.ref.sem_dp import bits, unp, BAD


def it_mid(M):
    unp(M.in_it_block() and not M.last_in_it_block(), 'branch inside an IT block but not last')


# ------------------------------------------------------------------------------------------------ B
def x_b(M, o):
    M.branch_write_pc((M.R(15) + o['imm32']) & M32)


reg('B_A1', lambda M, f: dict(imm32=sext(f['i'] << 2, 26)), x_b)


def _b_t1(M, f):
    unp(M.in_it_block())
    return dict(imm32=sext(f['i'] << 1, 9))


def _b_t2(M, f):
    it_mid(M)
    return dict(imm32=sext(f['i'] << 1, 12))


def _b_t3(M, f):
    w = f['_w']
    unp(M.in_it_block())
    S, J1, J2 = bits(w, 26, 26), bits(w, 13, 13), bits(w, 11, 11)
    imm = (S << 20) | (J2 << 19) | (J1 << 18) | (bits(w, 21, 16) << 12) | (bits(w, 10, 0) << 1)
    return dict(imm32=sext(imm, 21))


def imm25(w):
    S, J1, J2 = bits(w, 26, 26), bits(w, 13, 13), bits(w, 11, 11)
    I1, I2 = 1 - (J1 ^ S), 1 - (J2 ^ S)
    return (S << 24) | (I1 << 23) | (I2 << 22) | (bits(w, 25, 16) << 12) | (bits(w, 10, 0) << 1)


def _b_t4(M, f):
    it_mid(M)
    return dict(imm32=sext(imm25(f['_w']), 25))


reg('B_T1', _b_t1, x_b)
reg('B_T2', _b_t2, x_b)
reg('B_T3', _b_t3, x_b)
reg('B_T4', _b_t4, x_b)


# ------------------------------------------------------------------------------------------------ BL / BLX (immediate)
def x_bl(M, o):
    pc = M.R(15)
    if not M.thumb:
        M.setR(14, (pc - 4) & M32)
    else:
        M.setR(14, (pc & ~1 & M32) | 1)
    if not o['to_thumb']:
        target = (pc - (pc % 4) + o['imm32']) & M32
    else:
        target = (pc + o['imm32']) & M32
    M.select_iset(o['to_thumb'])
    M.branch_write_pc(target)


reg('BL_A1', lambda M, f: dict(imm32=sext(f['i'] << 2, 26), to_thumb=False), x_bl)
reg('BLX_imm_A2', lambda M, f: dict(imm32=sext((f['i'] << 2) | (f['H'] << 1), 26), to_thumb=True), x_bl)


def _bl_t1(M, f):
    it_mid(M)
    return dict(imm32=sext(imm25(f['_w']), 25), to_thumb=True)


def _blx_t2(M, f):
    w = f['_w']
    if w & 1:
        raise Undef('BLX (immediate) T2 with H = 1')
    it_mid(M)
    return dict(imm32=sext(imm25(w) & ~3, 25), to_thumb=False)


reg('BL_T1', _bl_t1, x_bl)
reg('BLX_imm_T2', _blx_t2, x_bl)


# ------------------------------------------------------------------------------------------------ BX / BLX (register) / BXJ
def x_bx(M, o):
    M.bx_write_pc(M.R(o['m']))


def x_blx_reg(M, o):
    target = M.R(o['m'])
    if not M.thumb:
        M.setR(14, (M.R(15) - 4) & M32)
    else:
        M.setR(14, ((M.R(15) - 2) & M32) | 1)
    M.bx_write_pc(target)


def x_bxj(M, o):
    if M.virt_ext() and not M.is_secure() and not M.is_hyp() and (M.s['hstr'] >> 17) & 1:
        raise Skip('BXJ trapped to Hyp mode')
    if not (M.s.get('jmcr', 0) & 1):
        M.bx_write_pc(M.R(o['m']))
    else:
        raise Skip('Jazelle')


reg('BX_A1', lambda M, f: dict(m=f['m']), x_bx)


def _bx_t1(M, f):
    it_mid(M)
    return dict(m=f['m'])


def _blx_a1(M, f):
    unp(f['m'] == 15)
    return dict(m=f['m'])


def _blx_t1(M, f):
    unp(f['m'] == 15)
    it_mid(M)
    return dict(m=f['m'])


def _bxj_a1(M, f):
    unp(f['m'] == 15)
    return dict(m=f['m'])


def _bxj_t1(M, f):
    unp(f['m'] in BAD)
    it_mid(M)
    return dict(m=f['m'])


reg('BX_T1', _bx_t1, x_bx)
reg('BLX_reg_A1', _blx_a1, x_blx_reg)
reg('BLX_reg_T1', _blx_t1, x_blx_reg)
reg('BXJ_A1', _bxj_a1, x_bxj)
reg('BXJ_T1', _bxj_t1, x_bxj)


# ------------------------------------------------------------------------------------------------ CBZ / CBNZ, TBB / TBH
def _cbz(M, f):
    unp(M.in_it_block())
    return dict(n=f['n'], imm32=f['i'] << 1, nonzero=bool(f['q']))


def x_cbz(M, o):
    imm32 = o['imm32']
    if 'cbz-scale' in M.quirks:      # known finding: armulator scales i:imm5 by 4
        imm32 <<= 1
    if o['nonzero'] != (M.R(o['n']) == 0):
        M.branch_write_pc((M.R(15) + imm32) & M32)


reg('CBZ_T1', _cbz, x_cbz)


def _tb(M, f):
    unp(f['n'] == 13 or f['m'] in BAD)
    it_mid(M)
    return dict(n=f['n'], m=f['m'], is_tbh=bool(f['H']))


def x_tb(M, o):
    if o['is_tbh']:
        hw = M.mem_u((M.R(o['n']) + ((M.R(o['m']) << 1) & M32)) & M32, 2)
    else:
        hw = M.mem_u((M.R(o['n']) + M.R(o['m'])) & M32, 1)
    M.branch_write_pc((M.R(15) + 2 * hw) & M32)


reg('TBB_TBH_T1', _tb, x_tb)


# ------------------------------------------------------------------------------------------------ IT
def _it(M, f):
    fc, mask = f['f'], f['m']
    unp(fc == 15 or (fc == 14 and bitcount(mask) != 1))
    unp(M.in_it_block())
    return dict(firstcond=fc, mask=mask)


def x_it(M, o):
    M.set_itstate((o['firstcond'] << 4) | o['mask'])


reg('IT_T1', _it, x_it)
