"""Reference single-step: fetch, table decode, operand decode, condition, execute, PC/IT update, exception entry."""
from vf.ref import machine as mc
from vf.ref.machine import Unpred, Undef, NotImpl, Skip, Abort, SvcCall, SmcCall, HypTrap, EndOfInstruction, M32
from vf.ref.core import REG, cond_pass
from vf.ref.enc import decode as table_decode, UNDEF, NOTIMPL, UNPRED, NOPISH
from vf.ref.enc_arm import ARM
from vf.ref.enc_t16 import T16
from vf.ref.enc_t32 import T32, HINTISH
from vf.ref import sem_dp  # noqa: F401  (registers semantics)

for _m in ('sem_br', 'sem_ls', 'sem_lsm', 'sem_mul', 'sem_sys'):
    try:
        __import__('vf.ref.' + _m)
    except ImportError as _e:
        if _m not in str(_e):
            raise

TOP5_32 = (0b11101, 0b11110, 0b11111)


def fetch(M):
    pc = M.s['R.PC']
    priv = M.privileged()
    try:
        if not M.thumb:
            if pc & 3:
                raise Skip('misaligned ARM pc')
            pa = M.translate(pc, priv, False, 4, True)
            return M.pa_read(pa, 4), 32
        if pc & 1:
            raise Skip('misaligned Thumb pc')
        pa = M.translate(pc, priv, False, 2, True)
        hw = M.pa_read(pa, 2)
        if (hw >> 11) in TOP5_32:
            pa2 = M.translate((pc + 2) & M32, priv, False, 2, True)
            return (hw << 16) | M.pa_read(pa2, 2), 32
        return hw, 16
    except Abort:
        raise Skip('instruction fetch aborts (Prefetch Abort is not modelled)')


def lookup(M, w, nbits):
    table = (T16 if nbits == 16 else T32) if M.thumb else ARM
    row, f = table_decode(table, w)
    return row, f


def current_cond(M, row, f):
    if not M.thumb:
        return M.word >> 28             # unconditional encodings have cond = 1111, which always passes
    if row.name in ('B_T1', 'B_T3'):
        return f['c']
    it = M.itstate()
    if it & 0xF:
        return it >> 4
    if it == 0:
        return 14
    raise Unpred('ITSTATE with zero mask and non-zero condition')


def decode(M, w, nbits):
    """returns (row, fields, ops, execute) or raises Undef / Unpred / NotImpl / Skip"""
    row, f = lookup(M, w, nbits)
    if row is None or row.cls == UNDEF:
        raise Undef('unallocated / UNDEFINED encoding')
    if row.cls == NOTIMPL:
        raise NotImpl('unimplemented extension: ' + row.name)
    if row.cls in (NOPISH, HINTISH):
        raise Skip('unallocated hint (NOP / UNDEFINED depending on the architecture variant)')
    if row.cls == UNPRED:
        raise Unpred(row.name)
    if (w & row.sbz) or (~w & row.sbo):
        raise Unpred('should-be-zero/one bits violated in ' + row.name)
    h = REG.get(row.name)
    if h is None:
        raise Skip('no reference semantics for ' + row.name)
    f = dict(f)
    f['_w'] = w
    f['_row'] = row.name
    ops = h[0](M, f)
    return row, f, ops, h[1]


def aborted_load_dests(M, row, ops):
    """B1.9.8, effects of data-aborted instructions: "if the instruction loads more than one general-purpose register, UNKNOWN values are left in
    destination registers other than the PC and the base register" - the reference's own sequential order (earlier registers of the list already loaded)
    is one allowed outcome among others. A base register with write-back keeps its original value (Base Restored Abort Model); a base register that is
    merely in the list of a load without write-back is treated like the other destinations."""
    from vf.gen import MODES
    if row is None or not isinstance(ops, dict):
        return
    name = row.name
    keys = []
    if name.startswith(('LDM', 'POP')) and isinstance(ops.get('registers'), int):
        regs = ops['registers']
        if bin(regs & 0xFFFF).count('1') < 2:
            return
        user = name.startswith('LDM_user')
        keys = [M.rkey(i, MODES['usr']) if user else M.rkey(i) for i in range(15) if (regs >> i) & 1]
    elif name.startswith(('LDRD', 'LDREXD')) and 't' in ops and 't2' in ops:
        keys = [M.rkey(ops[k]) for k in ('t', 't2') if ops[k] < 15]
    if not keys:
        return
    if ops.get('wback') and isinstance(ops.get('n'), int) and ops['n'] < 15 and M.rkey(ops['n']) in keys:
        keys.remove(M.rkey(ops['n']))
    M.unknown.update(keys)


def step(M):
    """executes one instruction on M; returns (status, detail). status in ok | undef | abort | svc | smc | hyptrap |
    unpred | notimpl | skip"""
    M.branched = False
    M.ls_syndrome = None
    M.it_restored = False
    try:
        if M.s['cpsr'] & (1 << 24):
            raise Skip('Jazelle / ThumbEE state is not modelled')
        w, nbits = fetch(M)
        M.word, M.ilen = w, nbits // 8
        row = None
        try:
            row, f, ops, ex = decode(M, w, nbits)
        except Undef:
            # an UNDEFINED instruction whose condition fails may be a NOP or take the exception (IMPLEMENTATION DEFINED)
            r2, f2 = lookup(M, w, nbits)
            cond = 14
            if not M.thumb:
                cond = w >> 28
                if cond == 15:
                    cond = 14
            elif M.itstate() & 0xF:
                cond = M.itstate() >> 4
            if not cond_pass(cond, *M.flags()):
                raise Skip('UNDEFINED instruction with failing condition')
            raise
        M.row = row.name
        cond = current_cond(M, row, f)
        if row.name.startswith('BKPT'):
            cond = 14                       # BKPT is unconditional, also inside an IT block
        was_in_it = M.in_it_block()
        passed = cond_pass(cond, *M.flags())
        M.cond_passed = bool(passed)
        M.cur_cond = cond
        if not passed and row.name.startswith('UDF'):
            raise Skip('UDF with failing condition: NOP or Undefined Instruction (IMPLEMENTATION DEFINED)')
        if passed:
            ex(M, ops)
        if not M.branched:
            M.s['R.PC'] = (M.s['R.PC'] + M.ilen) & M32
        if was_in_it and not M.it_restored:
            M.it_advance()
        return 'ok', row.name
    except Undef as e:
        M.take_undef()
        return 'undef', str(e)
    except Abort as ab:
        aborted_load_dests(M, row, locals().get('ops'))
        try:
            M.report_abort(ab)
        except Skip as e:
            return 'skip', str(e)
        except NotImpl as e:
            return 'notimpl', str(e)
        M.take_data_abort(ab)
        return 'abort', ab.kind
    except SvcCall:
        M.take_svc()
        return 'svc', ''
    except SmcCall:
        M.take_smc()
        return 'smc', ''
    except HypTrap:
        M.take_hyp_trap()
        return 'hyptrap', ''
    except EndOfInstruction:
        return 'ok', 'end-of-instruction'
    except Unpred as e:
        return 'unpred', str(e)
    except NotImpl as e:
        return 'notimpl', str(e)
    except Skip as e:
        return 'skip', str(e)
