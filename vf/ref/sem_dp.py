"""Reference semantics: data-processing instructions (ARM ARM A8.8: ADC ADD ADR AND ASR BIC CMN CMP EOR LSL LSR MOV MOVT MVN ORN
ORR ROR RRX RSB RSC SBC SUB TEQ TST), every ARM and Thumb encoding."""
from vf.ref.core import *   # noqa: F401,F403
from vf.ref.core import reg, awc, shift_c, dis, drs, expand_arm, expand_thumb, LSL, LSR, ASR, ROR, RRX
from vf.ref.machine import Unpred, M32

BAD = (13, 15)


def bits(w, hi, lo):
    return (w >> lo) & ((1 << (hi - lo + 1)) - 1)


def unp(cond, why=''):
    if cond:
        raise Unpred(why)


# ------------------------------------------------------------------------------------------------ executor
LOGICAL = {'AND': lambda a, b: a & b, 'EOR': lambda a, b: a ^ b, 'ORR': lambda a, b: a | b, 'BIC': lambda a, b: a & ~b & M32,
           'ORN': lambda a, b: (a | (~b & M32)) & M32, 'MOV': lambda a, b: b, 'MVN': lambda a, b: ~b & M32,
           'TST': lambda a, b: a & b, 'TEQ': lambda a, b: a ^ b}
ARITH = {'ADD': lambda a, b, c: awc(a, b, 0), 'ADC': lambda a, b, c: awc(a, b, c), 'SUB': lambda a, b, c: awc(a, ~b & M32, 1),
         'SBC': lambda a, b, c: awc(a, ~b & M32, c), 'RSB': lambda a, b, c: awc(~a & M32, b, 1),
         'RSC': lambda a, b, c: awc(~a & M32, b, c), 'CMP': lambda a, b, c: awc(a, ~b & M32, 1), 'CMN': lambda a, b, c: awc(a, b, 0)}
TESTS = ('TST', 'TEQ', 'CMP', 'CMN')


def x_alu(M, o):
    """o: op, d, n, setflags and one of: imm32(+carry) | m,shift_t,shift_n | m,s,shift_t (register-shifted register)"""
    op = o['op']
    cin = M.C()
    if 'imm32' in o:
        b, sc = o['imm32'], o.get('carry', cin)
    elif 's' in o:
        b, sc = shift_c(M.R(o['m']), o['shift_t'], M.R(o['s']) & 0xFF, cin)
    else:
        b, sc = shift_c(M.R(o['m']), o['shift_t'], o['shift_n'], cin)
    a = M.R(o['n']) if o.get('n') is not None else 0
    n_, z_, c_, v_ = M.flags()
    if op in LOGICAL:
        r = LOGICAL[op](a, b) & M32
        cf, vf = sc, v_
    else:
        r, cf, vf = ARITH[op](a, b, cin)
    if op in TESTS:
        M.set_nzcv(r >> 31, int(r == 0), cf, vf)
        return
    if o['d'] == 15:
        M.alu_write_pc(r)
        return
    M.setR(o['d'], r)
    if o['setflags']:
        M.set_nzcv(r >> 31, int(r == 0), cf, vf)


def x_shift_reg(M, o):
    """LSL/LSR/ASR/ROR (register): R[d] = Shift_C(R[n], type, R[m]<7:0>)"""
    r, c = shift_c(M.R(o['n']), o['shift_t'], M.R(o['m']) & 0xFF, M.C())
    M.setR(o['d'], r)
    if o['setflags']:
        M.set_nz(r, c)


def x_adr(M, o):
    base = M.pc_align4()
    r = (base + o['imm32']) & M32 if o['add'] else (base - o['imm32']) & M32
    if o['d'] == 15:
        M.alu_write_pc(r)
    else:
        M.setR(o['d'], r)


def x_movt(M, o):
    M.setR(o['d'], (o['imm16'] << 16) | (M.R(o['d']) & 0xFFFF))


# ------------------------------------------------------------------------------------------------ ARM encodings
ARM_OPS = ['AND', 'EOR', 'SUB', 'RSB', 'ADD', 'ADC', 'SBC', 'RSC', 'ORR', 'BIC']
for _op in ARM_OPS + ['MOV', 'MVN']:
    def _dec_imm(M, f, op=_op):
        imm32, carry = expand_arm(f['i'], M.C())
        return dict(op=op, d=f['d'], n=f.get('n'), setflags=bool(f['S']), imm32=imm32, carry=carry)

    def _dec_reg(M, f, op=_op):
        st, sn = dis(f['t'], f['i'])
        return dict(op=op, d=f['d'], n=f.get('n'), m=f['m'], setflags=bool(f['S']), shift_t=st, shift_n=sn)

    def _dec_rsr(M, f, op=_op):
        regs = [f['d'], f['m'], f['s']] + ([f['n']] if 'n' in f else [])
        unp(15 in regs, 'register-shifted register form with PC')
        return dict(op=op, d=f['d'], n=f.get('n'), m=f['m'], s=f['s'], setflags=bool(f['S']), shift_t=drs(f['t']))
    if _op == 'MOV':
        reg('MOV_imm_A1', _dec_imm, x_alu)
    elif _op == 'MVN':
        reg('MVN_imm_A1', _dec_imm, x_alu)
        reg('MVN_reg_A1', _dec_reg, x_alu)
        reg('MVN_rsr_A1', _dec_rsr, x_alu)
    else:
        reg(_op + '_imm_A1', _dec_imm, x_alu)
        reg(_op + '_reg_A1', _dec_reg, x_alu)
        reg(_op + '_rsr_A1', _dec_rsr, x_alu)

for _op in TESTS:
    def _dec_imm(M, f, op=_op):
        imm32, carry = expand_arm(f['i'], M.C())
        return dict(op=op, n=f['n'], imm32=imm32, carry=carry)

    def _dec_reg(M, f, op=_op):
        st, sn = dis(f['t'], f['i'])
        return dict(op=op, n=f['n'], m=f['m'], shift_t=st, shift_n=sn)

    def _dec_rsr(M, f, op=_op):
        unp(15 in (f['n'], f['m'], f['s']))
        return dict(op=op, n=f['n'], m=f['m'], s=f['s'], shift_t=drs(f['t']))
    reg(_op + '_imm_A1', _dec_imm, x_alu)
    reg(_op + '_reg_A1', _dec_reg, x_alu)
    reg(_op + '_rsr_A1', _dec_rsr, x_alu)


def _sp_imm_a(op):
    def dec(M, f):
        return dict(op=op, d=f['d'], n=13, setflags=bool(f['S']), imm32=expand_arm(f['i'], 0)[0])
    return dec


def _sp_reg_a(op):
    def dec(M, f):
        st, sn = dis(f['t'], f['i'])
        return dict(op=op, d=f['d'], n=13, m=f['m'], setflags=bool(f['S']), shift_t=st, shift_n=sn)
    return dec


reg('ADD_sp_imm_A1', _sp_imm_a('ADD'), x_alu)
reg('SUB_sp_imm_A1', _sp_imm_a('SUB'), x_alu)
reg('ADD_sp_reg_A1', _sp_reg_a('ADD'), x_alu)
reg('SUB_sp_reg_A1', _sp_reg_a('SUB'), x_alu)
reg('ADR_A1', lambda M, f: dict(d=f['d'], imm32=expand_arm(f['i'], 0)[0], add=True), x_adr)
reg('ADR_A2', lambda M, f: dict(d=f['d'], imm32=expand_arm(f['i'], 0)[0], add=False), x_adr)


def _movw_a2(M, f):
    unp(f['d'] == 15)
    return dict(op='MOV', d=f['d'], setflags=False, imm32=f['i'])


def _movt(M, f):
    unp(f['d'] == 15)
    return dict(d=f['d'], imm16=f['i'])


reg('MOVW_A2', _movw_a2, x_alu)
reg('MOVT_A1', _movt, x_movt)
reg('MOV_reg_A1', lambda M, f: dict(op='MOV', d=f['d'], m=f['m'], setflags=bool(f['S']), shift_t=LSL, shift_n=0), x_alu)
for _nm, _ty in (('LSL', 0), ('LSR', 1), ('ASR', 2), ('ROR', 3)):
    def _dec_si(M, f, ty=_ty):
        st, sn = dis(ty, f['i'])
        return dict(op='MOV', d=f['d'], m=f['m'], setflags=bool(f['S']), shift_t=st, shift_n=sn)

    def _dec_sr(M, f, ty=_ty):
        unp(15 in (f['d'], f['n'], f['m']))
        return dict(d=f['d'], n=f['n'], m=f['m'], setflags=bool(f['S']), shift_t=drs(ty))
    reg(_nm + '_imm_A1', _dec_si, x_alu)
    reg(_nm + '_reg_A1', _dec_sr, x_shift_reg)
reg('RRX_A1', lambda M, f: dict(op='MOV', d=f['d'], m=f['m'], setflags=bool(f['S']), shift_t=RRX, shift_n=1), x_alu)

# ------------------------------------------------------------------------------------------------ Thumb 16-bit


def it_unp(M):
    unp(M.in_it_block())


def nit(M):
    return not M.in_it_block()


def _mov_reg_t2(M, f):
    unp(M.in_it_block())
    return dict(op='MOV', d=f['d'], m=f['m'], setflags=True, shift_t=LSL, shift_n=0)


reg('MOV_reg_T2', _mov_reg_t2, x_alu)
for _nm, _ty in (('LSL', 0), ('LSR', 1), ('ASR', 2)):
    def _dec_si(M, f, ty=_ty):
        st, sn = dis(ty, f['i'])
        return dict(op='MOV', d=f['d'], m=f['m'], setflags=nit(M), shift_t=st, shift_n=sn)
    reg(_nm + '_imm_T1', _dec_si, x_alu)
reg('ADD_reg_T1', lambda M, f: dict(op='ADD', d=f['d'], n=f['n'], m=f['m'], setflags=nit(M), shift_t=LSL, shift_n=0), x_alu)
reg('SUB_reg_T1', lambda M, f: dict(op='SUB', d=f['d'], n=f['n'], m=f['m'], setflags=nit(M), shift_t=LSL, shift_n=0), x_alu)
reg('ADD_imm_T1', lambda M, f: dict(op='ADD', d=f['d'], n=f['n'], setflags=nit(M), imm32=f['i']), x_alu)
reg('SUB_imm_T1', lambda M, f: dict(op='SUB', d=f['d'], n=f['n'], setflags=nit(M), imm32=f['i']), x_alu)
reg('MOV_imm_T1', lambda M, f: dict(op='MOV', d=f['d'], setflags=nit(M), imm32=f['i'], carry=M.C()), x_alu)
reg('CMP_imm_T1', lambda M, f: dict(op='CMP', n=f['n'], imm32=f['i']), x_alu)
reg('ADD_imm_T2', lambda M, f: dict(op='ADD', d=f['d'], n=f['d'], setflags=nit(M), imm32=f['i']), x_alu)
reg('SUB_imm_T2', lambda M, f: dict(op='SUB', d=f['d'], n=f['d'], setflags=nit(M), imm32=f['i']), x_alu)
for _nm in ('AND', 'EOR', 'ADC', 'SBC', 'ORR', 'BIC'):
    reg(_nm + '_T1_dp', lambda M, f, op=_nm: dict(op=op, d=f['d'], n=f['d'], m=f['m'], setflags=nit(M), shift_t=LSL, shift_n=0), x_alu)
for _nm, _ty in (('LSL', 0), ('LSR', 1), ('ASR', 2), ('ROR', 3)):
    reg(_nm + '_T1_dp', lambda M, f, ty=_ty: dict(d=f['d'], n=f['d'], m=f['m'], setflags=nit(M), shift_t=drs(ty)), x_shift_reg)
reg('TST_T1_dp', lambda M, f: dict(op='TST', n=f['d'], m=f['m'], shift_t=LSL, shift_n=0), x_alu)
reg('CMP_T1_dp', lambda M, f: dict(op='CMP', n=f['d'], m=f['m'], shift_t=LSL, shift_n=0), x_alu)
reg('CMN_T1_dp', lambda M, f: dict(op='CMN', n=f['d'], m=f['m'], shift_t=LSL, shift_n=0), x_alu)
reg('RSB_T1_dp', lambda M, f: dict(op='RSB', d=f['d'], n=f['m'], setflags=nit(M), imm32=0), x_alu)
reg('MVN_T1_dp', lambda M, f: dict(op='MVN', d=f['d'], m=f['m'], setflags=nit(M), shift_t=LSL, shift_n=0), x_alu)


def _add_sp_reg_t1(M, f):
    d = (f['D'] << 3) | f['d']
    unp(d == 15 and M.in_it_block() and not M.last_in_it_block())
    return dict(op='ADD', d=d, n=13, m=d, setflags=False, shift_t=LSL, shift_n=0)


def _add_reg_t2(M, f):
    d = (f['D'] << 3) | f['d']
    m = f['m']
    unp(d == 15 and M.in_it_block() and not M.last_in_it_block())
    unp(d == 15 and m == 15)
    return dict(op='ADD', d=d, n=d, m=m, setflags=False, shift_t=LSL, shift_n=0)


def _cmp_reg_t2(M, f):
    n = (f['N'] << 3) | f['n']
    m = f['m']
    unp(n < 8 and m < 8)
    unp(n == 15 or m == 15)
    return dict(op='CMP', n=n, m=m, shift_t=LSL, shift_n=0)


def _mov_reg_t1(M, f):
    d = (f['D'] << 3) | f['d']
    unp(d == 15 and M.in_it_block() and not M.last_in_it_block())
    return dict(op='MOV', d=d, m=f['m'], setflags=False, shift_t=LSL, shift_n=0)


reg('ADD_sp_reg_T1', _add_sp_reg_t1, x_alu)
reg('ADD_sp_reg_T2', lambda M, f: dict(op='ADD', d=13, n=13, m=f['m'], setflags=False, shift_t=LSL, shift_n=0), x_alu)
reg('ADD_reg_T2', _add_reg_t2, x_alu)
reg('CMP_reg_T2', _cmp_reg_t2, x_alu)
reg('MOV_reg_T1', _mov_reg_t1, x_alu)
reg('ADR_T1', lambda M, f: dict(d=f['d'], imm32=f['i'] << 2, add=True), x_adr)
reg('ADD_sp_imm_T1', lambda M, f: dict(op='ADD', d=f['d'], n=13, setflags=False, imm32=f['i'] << 2), x_alu)
reg('ADD_sp_imm_T2', lambda M, f: dict(op='ADD', d=13, n=13, setflags=False, imm32=f['i'] << 2), x_alu)
reg('SUB_sp_imm_T1', lambda M, f: dict(op='SUB', d=13, n=13, setflags=False, imm32=f['i'] << 2), x_alu)

# ------------------------------------------------------------------------------------------------ Thumb 32-bit


def _t32_reg(op, rule):
    def dec(M, f):
        d, n, m, S = f.get('d'), f.get('n'), f['m'], f.get('S', 1)
        rule(d, n, m, S)
        st, sn = dis(f['t'], f['i'])
        o = dict(op=op, m=m, shift_t=st, shift_n=sn)
        if op not in TESTS:
            o.update(d=d, setflags=bool(S))
        if n is not None and op not in ('MOV', 'MVN'):
            o['n'] = n
        return o
    return dec


def r_std(d, n, m, S):
    unp(d in BAD or n in BAD or m in BAD)


def r_andlike(d, n, m, S):
    unp(d == 13 or (d == 15 and not S) or n in BAD or m in BAD)


def r_addlike(d, n, m, S):
    unp(d == 13 or (d == 15 and not S) or n == 15 or m in BAD)


def r_test(d, n, m, S):
    unp(n in BAD or m in BAD)


def r_cmp(d, n, m, S):
    unp(n == 15 or m in BAD)


def r_dm(d, n, m, S):
    unp(d in BAD or m in BAD)


def r_orn(d, n, m, S):
    unp(d in BAD or n == 13 or m in BAD)


reg('AND_reg_T2', _t32_reg('AND', r_andlike), x_alu)
reg('TST_reg_T2', _t32_reg('TST', r_test), x_alu)
reg('BIC_reg_T2', _t32_reg('BIC', r_std), x_alu)
reg('ORR_reg_T2', _t32_reg('ORR', r_orn), x_alu)
reg('ORN_reg_T1', _t32_reg('ORN', r_orn), x_alu)
reg('MVN_reg_T2', _t32_reg('MVN', r_dm), x_alu)
reg('EOR_reg_T2', _t32_reg('EOR', r_andlike), x_alu)
reg('TEQ_reg_T1', _t32_reg('TEQ', r_test), x_alu)
reg('ADD_reg_T3', _t32_reg('ADD', r_addlike), x_alu)
reg('CMN_reg_T2', _t32_reg('CMN', r_cmp), x_alu)
reg('ADC_reg_T2', _t32_reg('ADC', r_std), x_alu)
reg('SBC_reg_T2', _t32_reg('SBC', r_std), x_alu)
reg('SUB_reg_T2', _t32_reg('SUB', r_addlike), x_alu)
reg('CMP_reg_T3', _t32_reg('CMP', r_cmp), x_alu)
reg('RSB_reg_T1', _t32_reg('RSB', r_std), x_alu)


def _sp_reg_t(op):
    def dec(M, f):
        d, m, S = f['d'], f['m'], f['S']
        st, sn = dis(f['t'], f['i'])
        unp(d == 13 and (st != LSL or sn > 3))
        unp((d == 15 and not S) or m in BAD)
        return dict(op=op, d=d, n=13, m=m, setflags=bool(S), shift_t=st, shift_n=sn)
    return dec


reg('ADD_sp_reg_T3', _sp_reg_t('ADD'), x_alu)
reg('SUB_sp_reg_T1', _sp_reg_t('SUB'), x_alu)


def _mov_reg_t3(M, f):
    d, m, S = f['d'], f['m'], f['S']
    if S:
        unp(d in BAD or m in BAD)
    else:
        unp(d == 15 or m == 15 or (d == 13 and m == 13))
    return dict(op='MOV', d=d, m=m, setflags=bool(S), shift_t=LSL, shift_n=0)


reg('MOV_reg_T3', _mov_reg_t3, x_alu)
for _nm, _ty in (('LSL_imm_T2', 0), ('LSR_imm_T2', 1), ('ASR_imm_T2', 2), ('ROR_imm_T1', 3)):
    def _dec_si(M, f, ty=_ty):
        unp(f['d'] in BAD or f['m'] in BAD)
        st, sn = dis(ty, f['i'])
        return dict(op='MOV', d=f['d'], m=f['m'], setflags=bool(f['S']), shift_t=st, shift_n=sn)
    reg(_nm, _dec_si, x_alu)


def _rrx_t1(M, f):
    unp(f['d'] in BAD or f['m'] in BAD)
    return dict(op='MOV', d=f['d'], m=f['m'], setflags=bool(f['S']), shift_t=RRX, shift_n=1)


reg('RRX_T1', _rrx_t1, x_alu)
for _nm, _ty in (('LSL', 0), ('LSR', 1), ('ASR', 2), ('ROR', 3)):
    def _dec_sr(M, f, ty=_ty):
        unp(f['d'] in BAD or f['n'] in BAD or f['m'] in BAD)
        return dict(d=f['d'], n=f['n'], m=f['m'], setflags=bool(f['S']), shift_t=drs(ty))
    reg(_nm + '_reg_T2', _dec_sr, x_shift_reg)


def _t32_imm(op, rule, carry=False):
    def dec(M, f):
        d, n, S = f.get('d'), f.get('n'), f.get('S', 1)
        rule(d, n, None, S)
        if carry:
            imm32, c = expand_thumb(f['i'], M.C())
        else:
            imm32, c = expand_thumb(f['i'], 0)[0], None
        o = dict(op=op, imm32=imm32)
        if c is not None:
            o['carry'] = c
        if op not in TESTS:
            o.update(d=d, setflags=bool(S))
        if n is not None and op not in ('MOV', 'MVN'):
            o['n'] = n
        return o
    return dec


def ri_andlike(d, n, m, S):
    unp(d == 13 or (d == 15 and not S) or n in BAD)


def ri_dn(d, n, m, S):
    unp(d in BAD or n in BAD)


def ri_orr(d, n, m, S):
    unp(d in BAD or n == 13)


def ri_d(d, n, m, S):
    unp(d in BAD)


def ri_n(d, n, m, S):
    unp(n in BAD)


def ri_add(d, n, m, S):
    unp(d == 13 or (d == 15 and not S) or n == 15)


def ri_cmp(d, n, m, S):
    unp(n == 15)


def ri_sp(d, n, m, S):
    unp(d == 15 and not S)


reg('AND_imm_T1', _t32_imm('AND', ri_andlike, True), x_alu)
reg('TST_imm_T1', _t32_imm('TST', ri_n, True), x_alu)
reg('BIC_imm_T1', _t32_imm('BIC', ri_dn, True), x_alu)
reg('ORR_imm_T1', _t32_imm('ORR', ri_orr, True), x_alu)
reg('MOV_imm_T2', _t32_imm('MOV', ri_d, True), x_alu)
reg('ORN_imm_T1', _t32_imm('ORN', ri_orr, True), x_alu)
reg('MVN_imm_T1', _t32_imm('MVN', ri_d, True), x_alu)
reg('EOR_imm_T1', _t32_imm('EOR', ri_andlike, True), x_alu)
reg('TEQ_imm_T1', _t32_imm('TEQ', ri_n, True), x_alu)
reg('ADD_imm_T3', _t32_imm('ADD', ri_add), x_alu)
reg('CMN_imm_T1', _t32_imm('CMN', ri_cmp), x_alu)
reg('ADC_imm_T1', _t32_imm('ADC', ri_dn), x_alu)
reg('SBC_imm_T1', _t32_imm('SBC', ri_dn), x_alu)
reg('SUB_imm_T3', _t32_imm('SUB', ri_add), x_alu)
reg('CMP_imm_T2', _t32_imm('CMP', ri_cmp), x_alu)
reg('RSB_imm_T2', _t32_imm('RSB', ri_dn), x_alu)


def _sp_imm_t(op):
    def dec(M, f):
        unp(f['d'] == 15 and not f['S'])
        return dict(op=op, d=f['d'], n=13, setflags=bool(f['S']), imm32=expand_thumb(f['i'], 0)[0])
    return dec


reg('ADD_sp_imm_T3', _sp_imm_t('ADD'), x_alu)
reg('SUB_sp_imm_T2', _sp_imm_t('SUB'), x_alu)


def imm12_plain(w):
    return (bits(w, 26, 26) << 11) | (bits(w, 14, 12) << 8) | bits(w, 7, 0)


def _adr_t(add):
    def dec(M, f):
        unp(f['d'] in BAD)
        return dict(d=f['d'], imm32=imm12_plain(f['_w']), add=add)
    return dec


reg('ADR_T3', _adr_t(True), x_adr)
reg('ADR_T2', _adr_t(False), x_adr)


def _plain(op, sp):
    def dec(M, f):
        if sp:
            unp(f['d'] == 15)
            n = 13
        else:
            unp(f['d'] in BAD)
            n = f['n']
        return dict(op=op, d=f['d'], n=n, setflags=False, imm32=imm12_plain(f['_w']))
    return dec


reg('ADD_sp_imm_T4', _plain('ADD', True), x_alu)
reg('ADD_imm_T4', _plain('ADD', False), x_alu)
reg('SUB_sp_imm_T3', _plain('SUB', True), x_alu)
reg('SUB_imm_T4', _plain('SUB', False), x_alu)


def imm16_t(w):
    return (bits(w, 19, 16) << 12) | imm12_plain(w)


def _mov_imm_t3(M, f):
    unp(f['d'] in BAD)
    return dict(op='MOV', d=f['d'], setflags=False, imm32=imm16_t(f['_w']))


def _movt_t1(M, f):
    unp(f['d'] in BAD)
    return dict(d=f['d'], imm16=imm16_t(f['_w']))


reg('MOV_imm_T3', _mov_imm_t3, x_alu)
reg('MOVT_T1', _movt_t1, x_movt)
