"""VMSA address translation reference (B3): FCSE, short-descriptor walk, domains, permissions, fault encoding."""
from vf.ref.machine import Unpred, Skip, Abort, M32


def translate_v(M, va, ispriv, iswrite, size, wasaligned):
    hyp = M.is_hyp()
    if (va >> 25) == 0:                 # FCSETranslate()
        va = ((M.s.get('fcseidr', 0) >> 25) << 25) | va
    enabled = ((M.s['hsctlr'] & 1) if hyp else (M.s['sctlr'] & 1))
    if not enabled:
        # stage 1 off: flat map, Strongly-ordered => an unaligned (byte-wise) access faults
        if not wasaligned:
            if not M.virt_ext():
                raise Unpred('unaligned access to Strongly-ordered memory (MMU off)')
            raise Abort('alignment', va, iswrite)
        if M.virt_ext() and not M.is_secure() and not hyp and (M.s['hcr'] & 1):
            raise Skip('stage 2 translation')
        return va
    raise Skip('MMU on: see vf/ref/mmuwalk.py')


SD_FS = {'alignment': 0b00001, 'translation': (0b00101, 0b00111), 'access_flag': (0b00011, 0b00110), 'domain': (0b01001, 0b01011),
         'permission': (0b01101, 0b01111)}


def report_abort(M, ab):
    """DFSR/DFAR for a synchronous data abort on VMSA, short-descriptor format (B3.13, B4.1.52)"""
    hyp = M.is_hyp() or (ab.kind == 'alignment' and M.virt_ext() and (M.s.get('hcr', 0) >> 27) & 1 and False)
    if M.is_hyp() or ab.extra.get('ldformat') or (M.s.get('ttbcr', 0) >> 31) & 1:
        raise Skip('Hyp-mode / long-descriptor fault syndromes')
    if M.virt_ext() and (M.s.get('hcr', 0) >> 27) & 1 and ab.kind == 'alignment':
        raise Skip('alignment fault routed to Hyp mode (HCR.TGE)')
    if M.cfg.get('have_lpae'):
        if not M.hooked:
            raise NotImpl('TLBLookupCameFromCacheMaintenance')
    level = ab.extra.get('level', 1)
    fs = SD_FS[ab.kind]
    if isinstance(fs, tuple):
        fs = fs[level - 1]
    v = ((1 if ab.iswrite else 0) << 11) | ((fs >> 4) << 10) | (fs & 15)
    domain_valid = ab.kind == 'domain' or (level == 2 and ab.kind in ('translation', 'access_flag')) or \
        (not M.cfg.get('have_lpae') and ab.kind == 'permission')
    if domain_valid:
        v |= (ab.extra.get('domain', 0) & 15) << 4
    else:
        M.unknown_bits['dfsr'] = 0xF0
    M.s['dfsr'] = (M.s['dfsr'] & ~0x3FFF) | v
    addr = ab.addr & M32
    if ab.kind == 'alignment' and (addr >> 25) == 0:
        addr |= (M.s.get('fcseidr', 0) >> 25) << 25        # AlignmentFaultV reports the MVA
    M.s['dfar'] = addr
