"""VMSA address translation reference (DDI 0406C B3): FCSE, short-descriptor walk, long-descriptor stage-1 walk, domains,
permissions, TEX/MAIR memory types, fault syndromes.  Written from the manual's description, not from armulator."""
from vf.ref.machine import Unpred, Skip, NotImpl, Abort, M32

SO, DEVICE, NORMAL = 'strongly-ordered', 'device', 'normal'


def bits(v, hi, lo):
    return (v >> lo) & ((1 << (hi - lo + 1)) - 1)


def fcse(M, va):
    if (va >> 25) == 0:
        return ((M.s.get('fcseidr', 0) >> 25) << 25) | va
    return va


def read_desc(M, pa, size, big):
    v = M.pa_read(pa, size)
    M.walk_reads = getattr(M, 'walk_reads', 0) + 1
    if big:
        v = int.from_bytes(v.to_bytes(size, 'little'), 'big')
    return v


def default_tex(texcb):
    """memory type of table B3-10 (TEX remap disabled)"""
    if texcb == 0b00000:
        return SO
    if texcb in (0b00001, 0b01000):
        return DEVICE
    if texcb in (0b00010, 0b00011, 0b00100, 0b00111) or (texcb >> 4) & 1:
        return NORMAL
    if texcb == 0b00110:
        return None            # IMPLEMENTATION DEFINED
    raise Unpred('reserved TEX/C/B encoding')


def remapped_tex(M, texcb):
    region = texcb & 7
    if region == 6:
        return None
    tr = (M.s['prrr'] >> (2 * region)) & 3
    return (SO, DEVICE, NORMAL, None)[tr]


def walk_sd(M, mva, iswrite):
    """returns dict(pa, domain, level, ap, memtype)"""
    sctlr = M.s['sctlr']
    ttbcr = M.s['ttbcr']
    big = (sctlr >> 25) & 1
    n = ttbcr & 7
    if n == 0 or (mva >> (32 - n)) == 0:
        ttbr = M.s['ttbr0_64']
        disabled = (ttbcr >> 4) & 1
    else:
        ttbr = M.s['ttbr1_64']
        disabled = (ttbcr >> 5) & 1
        n = 0
    if M.sec_ext() and disabled:
        raise Abort('translation', mva, iswrite, {'level': 1, 'domain': None})
    l1addr = (bits(ttbr, 31, 14 - n) << (14 - n)) | (bits(mva, 31 - n, 20) << 2)
    l1 = read_desc(M, second_stage_translate(M, l1addr, mva, iswrite), 4, big)
    kind = l1 & 3
    if kind == 0:
        raise Abort('translation', mva, iswrite, {'level': 1, 'domain': None})
    afe = (sctlr >> 29) & 1
    ha = (sctlr >> 17) & 1
    if kind == 1:
        domain = bits(l1, 8, 5)
        l2addr = (bits(l1, 31, 10) << 10) | (bits(mva, 19, 12) << 2)
        l2 = read_desc(M, second_stage_translate(M, l2addr, mva, iswrite), 4, big)
        if (l2 & 3) == 0:
            raise Abort('translation', mva, iswrite, {'level': 2, 'domain': domain})
        ap = (bits(l2, 9, 9) << 2) | bits(l2, 5, 4)
        if afe and not (l2 >> 4) & 1:
            if not ha:
                raise Abort('access_flag', mva, iswrite, {'level': 2, 'domain': domain})
            raise Skip('hardware access flag update')
        if not (l2 >> 1) & 1:
            texcb = (bits(l2, 14, 12) << 2) | bits(l2, 3, 2)
            pa = (bits(l2, 31, 16) << 16) | bits(mva, 15, 0)
        else:
            texcb = (bits(l2, 8, 6) << 2) | bits(l2, 3, 2)
            pa = (bits(l2, 31, 12) << 12) | bits(mva, 11, 0)
        level = 2
    else:
        ap = (bits(l1, 15, 15) << 2) | bits(l1, 11, 10)
        texcb = (bits(l1, 14, 12) << 2) | bits(l1, 3, 2)
        level = 1
        if afe and not (l1 >> 10) & 1:
            if not ha:
                # the domain of a section is known, of a supersection it is 0
                raise Abort('access_flag', mva, iswrite, {'level': 1, 'domain': None})
            raise Skip('hardware access flag update')
        if not (l1 >> 18) & 1:
            domain = bits(l1, 8, 5)
            pa = (bits(l1, 31, 20) << 20) | bits(mva, 19, 0)
        else:
            domain = 0
            pa = (bits(l1, 8, 5) << 36) | (bits(l1, 23, 20) << 32) | (bits(l1, 31, 24) << 24) | bits(mva, 23, 0)
    if not (sctlr >> 28) & 1:
        if not M.hooked:
            raise NotImpl('RemapRegsHaveResetValues')
        memtype = default_tex(texcb)
    else:
        memtype = remapped_tex(M, texcb)
    return dict(pa=pa, domain=domain, level=level, ap=ap, memtype=memtype)


def two_stage(M):
    """Non-secure PL1&0 regime of an implementation with the Virtualization Extensions: its accesses and its table walks are subject to stage 2"""
    return M.virt_ext() and not M.is_secure() and not M.is_hyp()


def second_stage_translate(M, s1_out, mva, iswrite):
    """SecondStageTranslate(): the address of a stage-1 descriptor is an IPA. Returns the PA the descriptor is read from."""
    if not two_stage(M) or not (M.s['hcr'] & 1):
        return s1_out
    rec = walk_ld(M, s1_out, iswrite, regime='s2', va=mva, s2fs1walk=True)
    check_ap_s2(M, rec, mva, s1_out, False, True)
    if (M.s['hcr'] >> 2) & 1 and rec['memtype'] != NORMAL:
        # HCR.PTW: a stage-1 walk through memory that stage 2 calls Device / Strongly-ordered is a stage-2 permission fault
        raise Abort('permission', mva, iswrite, {'ldformat': True, 'hyp': True, 's2': True, 'ipa': s1_out, 'level': rec['level'], 's1ptw': True})
    return rec['pa']


def check_ap_s2(M, rec, mva, ipa, iswrite, s2fs1walk):
    """CheckPermissionS2(): HAP<2> grants writes, HAP<1> grants reads; the IPA is reported only for faults on a stage-1 walk"""
    hap = rec['ap'] >> 1
    if (iswrite and not (hap >> 1) & 1) or (not iswrite and not hap & 1):
        raise Abort('permission', mva, iswrite, {'ldformat': True, 'hyp': True, 's2': True, 'ipa': ipa if s2fs1walk else None, 'level': rec['level'],
                                                 's1ptw': s2fs1walk})


def s2_memtype(attr):
    """stage-2 MemAttr<3:0> (B3.6.3 / table B3-9)"""
    if (attr >> 2) == 0:
        if (attr & 3) > 1:
            raise Unpred('reserved stage-2 MemAttr encoding')
        return (SO, DEVICE)[attr & 3]
    if (attr & 3) == 0:
        raise Unpred('reserved stage-2 MemAttr encoding')
    return NORMAL


def walk_ld(M, ia, iswrite, regime='pl10', va=None, s2fs1walk=False):
    """long-descriptor walk (B3.19.6 TranslationTableWalkLD): regime 'pl10' = stage 1 of the PL1&0 regime (TTBR0/1, TTBCR), 'hyp' = stage 1 of the PL2
    regime (HTTBR, HTCR), 's2' = stage 2 of the Non-secure PL1&0 regime (VTTBR, VTCR; `ia` is then a 40-bit IPA and `va` the address of the access that
    caused the walk)"""
    stage1 = regime != 's2'
    if va is None:
        va = ia & M32
    # where a fault of this walk is taken and what it reports
    ex = {'ldformat': True, 'hyp': regime != 'pl10', 's2': not stage1, 'ipa': None if stage1 else ia, 's1ptw': bool(s2fs1walk)}
    found = False
    disabled = False
    if regime == 'hyp':
        big = (M.s['hsctlr'] >> 25) & 1
        t0 = M.s['htcr'] & 7
        if t0 == 0 or (ia >> (32 - t0)) == 0:
            level = 1 if (t0 >> 1) == 0 else 2
            lb = 9 * level - t0 - 4
            base = (M.s['httbr'] >> lb << lb) & ((1 << 40) - 1)
            if bits(M.s['httbr'], lb - 1, 3):
                raise Unpred('HTTBR base not aligned')
            found = True
            start = 31 - t0
    elif regime == 'pl10':
        ttbcr = M.s['ttbcr']
        big = (M.s['sctlr'] >> 25) & 1
        t0 = ttbcr & 7
        if t0 == 0 or (ia >> (32 - t0)) == 0:
            level = 1 if (t0 >> 1) == 0 else 2
            lb = 9 * level - t0 - 4
            base = (M.s['ttbr0_64'] >> lb << lb) & ((1 << 40) - 1)
            if bits(M.s['ttbr0_64'], lb - 1, 3):
                raise Unpred('TTBR0 base not aligned')
            found = True
            disabled = (ttbcr >> 7) & 1
            start = 31 - t0
        t1 = (ttbcr >> 16) & 7
        ones = t1 > 0 and bits(ia, 31, 32 - t1) == (1 << t1) - 1
        if (t1 == 0 and not found) or ones:
            level = 1 if (t1 >> 1) == 0 else 2
            lb = 9 * level - t1 - 4
            base = (M.s['ttbr1_64'] >> lb << lb) & ((1 << 40) - 1)
            if bits(M.s['ttbr1_64'], lb - 1, 3):
                raise Unpred('TTBR1 base not aligned')
            found = True
            disabled = (ttbcr >> 23) & 1
            start = 31 - t1
    else:
        big = (M.s['hsctlr'] >> 25) & 1
        vtcr = M.s['vtcr']
        t0 = vtcr & 15
        if ((vtcr >> 4) & 1) != (t0 >> 3):
            raise Unpred('VTCR.S differs from VTCR.T0SZ<3>')
        if t0 & 8:
            t0 -= 16
        sl0 = (vtcr >> 6) & 3
        if sl0 > 1 or (sl0 == 0 and t0 < -2) or (sl0 == 1 and t0 > 1):
            raise Unpred('VTCR.SL0 / T0SZ combination')
        lb = 14 - t0 - 9 * sl0
        if bits(M.s['vttbr'], lb - 1, 3):
            raise Unpred('VTTBR base not aligned')
        if t0 == -8 or (ia >> (32 - t0)) == 0:
            level = 2 - sl0
            base = (M.s['vttbr'] >> lb << lb) & ((1 << 40) - 1)
            found = True
            start = 31 - t0
    if not found or disabled:
        raise Abort('translation', va, iswrite, dict(ex, level=1))
    first = True
    rw, user, xnt, pxnt = True, True, False, False
    nested = regime == 'pl10' and two_stage(M)
    for _ in range(4):
        offset = 9 * level
        if first:
            sel = bits(ia, start, 39 - offset) << 3
        else:
            sel = bits(ia, 47 - offset, 39 - offset) << 3
        first = False
        daddr = base | sel
        if nested:
            daddr = second_stage_translate(M, daddr, ia & M32, iswrite)
        desc = read_desc(M, daddr, 8, big)
        if not desc & 1:
            raise Abort('translation', va, iswrite, dict(ex, level=level))
        block = False
        if not (desc >> 1) & 1:
            if level == 3:
                raise Abort('translation', va, iswrite, dict(ex, level=level))
            block = True
        elif level == 3:
            block = True
        else:
            base = bits(desc, 39, 12) << 12
            rw = rw and not (desc >> 62) & 1
            user = user and not (desc >> 61) & 1
            pxnt = pxnt or bool((desc >> 59) & 1)
            xnt = xnt or bool((desc >> 60) & 1)
            level += 1
            continue
        ialen = 39 - offset
        pa = (bits(desc, 39, ialen) << ialen) | bits(ia, ialen - 1, 0)
        attrs = (bits(desc, 54, 52) << 10) | bits(desc, 11, 2)
        if stage1:
            if not rw:
                attrs |= 1 << 5
            if not user:
                attrs &= ~(1 << 4)
        if not (attrs >> 8) & 1:
            raise Abort('access_flag', va, iswrite, dict(ex, level=level))
        ap = (bits(attrs, 5, 4) << 1) | 1
        if not stage1:
            return dict(pa=pa, domain=None, level=level, ap=ap, memtype=s2_memtype(attrs & 15), ld=True)
        if regime == 'hyp':
            # the PL2 regime has no unprivileged accesses, no PXN and no ASIDs: AP<1> and APTable<0> are SBO / SBZ, PXN, PXNTable and nG SBZ
            if not (attrs >> 4) & 1 or not user or (attrs >> 11) & 1 or pxnt or (attrs >> 9) & 1:
                raise Unpred('Hyp-mode descriptor with AP<1> = 0, APTable<0> = 1, PXN, PXNTable or nG')
            mair = (M.s['hmair1'] << 32) | M.s['hmair0']
        else:
            mair = (M.s['mair1'] << 32) | M.s['mair0']
        field = (mair >> (8 * (attrs & 7))) & 0xFF
        if (field >> 4) == 0:
            memtype = {0: SO, 4: DEVICE}.get(field & 15)
        else:
            memtype = NORMAL
        return dict(pa=pa, domain=None, level=level, ap=ap, memtype=memtype, ld=True)
    raise Skip('walk deeper than 3 levels')


def check_ap(M, ap, mva, ispriv, iswrite, extra):
    if (M.s['sctlr'] >> 29) & 1:
        ap |= 1
    M.check_ap(ap, mva, ispriv, iswrite, pmsa=False, extra=extra)


def translate_v(M, va, ispriv, iswrite, size, wasaligned, want_attrs=False):
    """TranslateAddressV() (B3.19.7)"""
    mva = fcse(M, va)
    hyp = M.is_hyp()
    if hyp and mva != (va & 0xFFFFFFFF):
        raise Skip('FCSE and Hyp mode')           # (whether the PL2 regime sees FCSE-modified addresses is not something this reference takes a position on)
    two = two_stage(M)
    hcr = M.s['hcr'] if M.virt_ext() else 0
    enabled = (M.s['hsctlr'] if hyp else M.s['sctlr']) & 1
    uses_ld = False
    if enabled:
        if two and (hcr >> 27) & 1:
            raise Unpred('HCR.TGE with stage 1 enabled')
        uses_ld = hyp or bool((M.s['ttbcr'] >> 31) & 1)
        if uses_ld:
            if not M.cfg.get('have_lpae'):
                raise Unpred('TTBCR.EAE without LPAE')
            rec = walk_ld(M, mva, iswrite, regime='hyp' if hyp else 'pl10')
        else:
            rec = walk_sd(M, mva, iswrite)
        if rec['memtype'] is None:
            raise Skip('IMPLEMENTATION DEFINED / UNKNOWN memory type')
    else:
        # stage 1 off: flat map, Strongly-ordered (so an unaligned, byte-wise access faults) - or Normal for a guest running with HCR.DC
        rec = dict(pa=mva, memtype=SO, level=None, domain=None, ap=None)
        if two and (hcr >> 12) & 1:
            if not hcr & 1:
                raise Unpred('HCR.DC without HCR.VM')
            rec['memtype'] = NORMAL
    if not wasaligned and rec['memtype'] in (SO, DEVICE):
        if not M.virt_ext():
            raise Unpred('unaligned access to Device / Strongly-ordered memory')
        raise Abort('alignment', mva, iswrite, {'ldformat': hyp or uses_ld, 'hyp': hyp, 'from_translate': True})
    if enabled:
        extra = {'level': rec['level'], 'domain': rec['domain'], 'ldformat': uses_ld, 'hyp': hyp}
        check = True
        if not uses_ld:
            d = (M.s['dacr'] >> (2 * rec['domain'])) & 3
            if d == 0:
                raise Abort('domain', mva, iswrite, extra)
            if d == 2:
                raise Unpred('DACR field 10')
            check = d == 1
        if check:
            check_ap(M, rec['ap'], mva, ispriv, iswrite, extra)
    pa, memtype = rec['pa'], rec['memtype']
    if two and hcr & 1:
        rec2 = walk_ld(M, pa, iswrite, regime='s2', va=mva)
        if not wasaligned and rec2['memtype'] in (SO, DEVICE):
            raise Abort('alignment', mva, iswrite, {'ldformat': True, 'hyp': True, 's2': True, 'from_translate': True})
        check_ap_s2(M, rec2, mva, pa, iswrite, False)
        pa = rec2['pa']
        memtype = SO if SO in (memtype, rec2['memtype']) else DEVICE if DEVICE in (memtype, rec2['memtype']) else NORMAL
    return (pa, memtype) if want_attrs else pa


SD_FS = {'alignment': 0b00001, 'translation': (0b00101, 0b00111), 'access_flag': (0b00011, 0b00110), 'domain': (0b01001, 0b01011),
         'permission': (0b01101, 0b01111)}
LD_FS = {'translation': 0b000100, 'access_flag': 0b001000, 'permission': 0b001100}


def report_abort(M, ab):
    """DFSR/DFAR - or HSR/HDFAR/HPFAR when the abort is taken to Hyp mode - for a synchronous data abort on VMSA (B3.13, B4.1.52, B3.13.6)"""
    ex = ab.extra
    tge = M.virt_ext() and (M.s.get('hcr', 0) >> 27) & 1
    to_hyp = bool(ex.get('hyp')) or (M.is_hyp() and 'hyp' not in ex)
    tge_alignment = False
    if ab.kind == 'alignment' and tge and not to_hyp:
        # AlignmentFault(): taketohypmode = CurrentModeIsHyp() || HCR.TGE == '1'. Modelled where the architecture is unambiguous: a Non-secure User
        # mode access checked by MemA / MemU itself; elsewhere (Secure state, PL1 modes, faults found by the translation) no position is taken
        if ex.get('from_translate') or M.is_secure() or M.mode != 0b10000:
            raise Skip('alignment fault with HCR.TGE outside Non-secure User mode')
        to_hyp = tge_alignment = True
    if to_hyp:
        if fcse(M, ab.addr & M32) != (ab.addr & M32) and ab.kind == 'alignment' and not ex.get('from_translate'):
            raise Skip('FCSE and faults taken to Hyp mode')
        if not M.hooked:
            raise NotImpl('TLBLookupCameFromCacheMaintenance')
        level = ex.get('level') or 0
        fsc = 0b100001 if ab.kind == 'alignment' else (LD_FS[ab.kind] | (level & 3))
        iss = ((1 if ex.get('s1ptw') else 0) << 7) | ((1 if ab.iswrite else 0) << 6) | fsc
        M.s['hdfar'] = ab.addr & M32
        if ex.get('ipa') is not None:
            M.s['hpfar'] = (M.s['hpfar'] & 0xF) | (((ex['ipa'] >> 12) & 0xFFFFFFF) << 4)
        if ex.get('s2'):
            # a stage-2 abort: EC = 0x24 and ISS<24:16> = LSInstructionSyndrome() (filled in by the instruction's semantics when it provides one)
            syn = getattr(M, 'ls_syndrome', None)
            M.write_hsr(0b100100, iss | ((syn or 0) << 16))
            if syn is None:
                M.unknown_bits['hsr'] = M.unknown_bits.get('hsr', 0) | (0x1FF << 16)
        else:
            M.write_hsr(0b100101, iss)
            if tge_alignment:
                # the pseudocode gives EC = 0x25 ("taken from Hyp mode") for every abort that is not a stage-2 abort, the text of B3.13.6 gives 0x24 for
                # aborts routed to Hyp mode from other modes: EC<0> is not compared
                M.unknown_bits['hsr'] = M.unknown_bits.get('hsr', 0) | (1 << 26)
        return
    if tge and ab.kind == 'alignment':
        raise Skip('alignment fault routed to Hyp mode (HCR.TGE)')
    addr = ab.addr & M32
    if ab.kind == 'alignment':
        addr = fcse(M, addr)
    ld = ab.extra.get('ldformat') or (ab.kind == 'alignment' and (M.s.get('ttbcr', 0) >> 31) & 1)
    if ld or M.cfg.get('have_lpae'):
        if not M.hooked:
            raise NotImpl('TLBLookupCameFromCacheMaintenance')
    level = ab.extra.get('level', 1)
    if ld:
        st = 0b100001 if ab.kind == 'alignment' else (LD_FS[ab.kind] | (level & 3))
        v = ((1 if ab.iswrite else 0) << 11) | (1 << 9) | st
        M.unknown_bits['dfsr'] = (1 << 10) | (7 << 6)
        M.s['dfsr'] = (M.s['dfsr'] & ~0x3FFF) | v
        M.s['dfar'] = addr
        return
    fs = SD_FS[ab.kind]
    if isinstance(fs, tuple):
        fs = fs[level - 1]
    v = ((1 if ab.iswrite else 0) << 11) | ((fs >> 4) << 10) | (fs & 15)
    dom = ab.extra.get('domain')
    domain_valid = ab.kind == 'domain' or (level == 2 and ab.kind in ('translation', 'access_flag')) or \
        (not M.cfg.get('have_lpae') and ab.kind == 'permission')
    if domain_valid and dom is not None:
        v |= (dom & 15) << 4
    else:
        M.unknown_bits['dfsr'] = 0xF0
    M.unknown_bits['dfsr'] = M.unknown_bits.get('dfsr', 0) | (1 << 8)
    M.s['dfsr'] = (M.s['dfsr'] & ~0x3FFF) | v
    M.s['dfar'] = addr
