"""VMSA address translation reference (DDI 0406C B3): FCSE, short-descriptor walk, long-descriptor stage-1 walk, domains,
permissions, TEX/MAIR memory types, fault syndromes.  Written from the manual's description, not from armulator."""
from vf.ref.machine import Unpred, Skip, NotImpl, Abort, M32

SO, DEVICE, NORMAL = 'strongly-ordered', 'device', 'normal'


def bits(v, hi, lo):
    return (v >> lo) & ((1 << (hi - lo + 1)) - 1)


def fcse(M, va):
    if (va >> 25) == 0:
        return ((M.s.get('fcseidr', 0) >> 25) << 25) | va
    return va


def read_desc(M, pa, size, big):
    v = M.pa_read(pa, size)
    M.walk_reads = getattr(M, 'walk_reads', 0) + 1
    if big:
        v = int.from_bytes(v.to_bytes(size, 'little'), 'big')
    return v


def default_tex(texcb):
    """memory type of table B3-10 (TEX remap disabled)"""
    if texcb == 0b00000:
        return SO
    if texcb in (0b00001, 0b01000):
        return DEVICE
    if texcb in (0b00010, 0b00011, 0b00100, 0b00111) or (texcb >> 4) & 1:
        return NORMAL
    if texcb == 0b00110:
        return None            # IMPLEMENTATION DEFINED
    raise Unpred('reserved TEX/C/B encoding')


def remapped_tex(M, texcb):
    region = texcb & 7
    if region == 6:
        return None
    tr = (M.s['prrr'] >> (2 * region)) & 3
    return (SO, DEVICE, NORMAL, None)[tr]


def walk_sd(M, mva, iswrite):
    """returns dict(pa, domain, level, ap, memtype)"""
    sctlr = M.s['sctlr']
    ttbcr = M.s['ttbcr']
    big = (sctlr >> 25) & 1
    n = ttbcr & 7
    if n == 0 or (mva >> (32 - n)) == 0:
        ttbr = M.s['ttbr0_64']
        disabled = (ttbcr >> 4) & 1
    else:
        ttbr = M.s['ttbr1_64']
        disabled = (ttbcr >> 5) & 1
        n = 0
    if M.sec_ext() and disabled:
        raise Abort('translation', mva, iswrite, {'level': 1, 'domain': None})
    l1addr = (bits(ttbr, 31, 14 - n) << (14 - n)) | (bits(mva, 31 - n, 20) << 2)
    if M.virt_ext() and not M.is_secure():
        raise Skip('stage 2 on table walk')
    l1 = read_desc(M, l1addr, 4, big)
    kind = l1 & 3
    if kind == 0:
        raise Abort('translation', mva, iswrite, {'level': 1, 'domain': None})
    afe = (sctlr >> 29) & 1
    ha = (sctlr >> 17) & 1
    if kind == 1:
        domain = bits(l1, 8, 5)
        l2addr = (bits(l1, 31, 10) << 10) | (bits(mva, 19, 12) << 2)
        l2 = read_desc(M, l2addr, 4, big)
        if (l2 & 3) == 0:
            raise Abort('translation', mva, iswrite, {'level': 2, 'domain': domain})
        ap = (bits(l2, 9, 9) << 2) | bits(l2, 5, 4)
        if afe and not (l2 >> 4) & 1:
            if not ha:
                raise Abort('access_flag', mva, iswrite, {'level': 2, 'domain': domain})
            raise Skip('hardware access flag update')
        if not (l2 >> 1) & 1:
            texcb = (bits(l2, 14, 12) << 2) | bits(l2, 3, 2)
            pa = (bits(l2, 31, 16) << 16) | bits(mva, 15, 0)
        else:
            texcb = (bits(l2, 8, 6) << 2) | bits(l2, 3, 2)
            pa = (bits(l2, 31, 12) << 12) | bits(mva, 11, 0)
        level = 2
    else:
        ap = (bits(l1, 15, 15) << 2) | bits(l1, 11, 10)
        texcb = (bits(l1, 14, 12) << 2) | bits(l1, 3, 2)
        level = 1
        if afe and not (l1 >> 10) & 1:
            if not ha:
                # the domain of a section is known, of a supersection it is 0
                raise Abort('access_flag', mva, iswrite, {'level': 1, 'domain': None})
            raise Skip('hardware access flag update')
        if not (l1 >> 18) & 1:
            domain = bits(l1, 8, 5)
            pa = (bits(l1, 31, 20) << 20) | bits(mva, 19, 0)
        else:
            domain = 0
            pa = (bits(l1, 8, 5) << 36) | (bits(l1, 23, 20) << 32) | (bits(l1, 31, 24) << 24) | bits(mva, 23, 0)
    if not (sctlr >> 28) & 1:
        if not M.hooked:
            raise NotImpl('RemapRegsHaveResetValues')
        memtype = default_tex(texcb)
    else:
        memtype = remapped_tex(M, texcb)
    return dict(pa=pa, domain=domain, level=level, ap=ap, memtype=memtype)


def walk_ld(M, ia, iswrite):
    """stage-1 long-descriptor walk for the Non-Hyp translation regime"""
    ttbcr = M.s['ttbcr']
    big = (M.s['sctlr'] >> 25) & 1
    ex = {'ldformat': True}
    found = False
    disabled = False
    t0 = ttbcr & 7
    if t0 == 0 or (ia >> (32 - t0)) == 0:
        level = 1 if (t0 >> 1) == 0 else 2
        lb = 9 * level - t0 - 4
        base = (M.s['ttbr0_64'] >> lb << lb) & ((1 << 40) - 1)
        if bits(M.s['ttbr0_64'], lb - 1, 3):
            raise Unpred('TTBR0 base not aligned')
        found = True
        disabled = (ttbcr >> 7) & 1
        start = 31 - t0
    t1 = (ttbcr >> 16) & 7
    ones = t1 > 0 and bits(ia, 31, 32 - t1) == (1 << t1) - 1
    if (t1 == 0 and not found) or ones:
        level = 1 if (t1 >> 1) == 0 else 2
        lb = 9 * level - t1 - 4
        base = (M.s['ttbr1_64'] >> lb << lb) & ((1 << 40) - 1)
        if bits(M.s['ttbr1_64'], lb - 1, 3):
            raise Unpred('TTBR1 base not aligned')
        found = True
        disabled = (ttbcr >> 23) & 1
        start = 31 - t1
    if not found or disabled:
        raise Abort('translation', ia, iswrite, dict(ex, level=1))
    first = True
    rw, user, xnt, pxnt = True, True, False, False
    secure = M.is_secure()
    lookup_secure = secure
    for _ in range(4):
        offset = 9 * level
        if first:
            sel = bits(ia, start, 39 - offset) << 3
        else:
            sel = bits(ia, 47 - offset, 39 - offset) << 3
        first = False
        desc = read_desc(M, base | sel, 8, big)
        if not desc & 1:
            raise Abort('translation', ia, iswrite, dict(ex, level=level))
        block = False
        if not (desc >> 1) & 1:
            if level == 3:
                raise Abort('translation', ia, iswrite, dict(ex, level=level))
            block = True
        elif level == 3:
            block = True
        else:
            base = bits(desc, 39, 12) << 12
            lookup_secure = lookup_secure and not (desc >> 63) & 1
            rw = rw and not (desc >> 62) & 1
            user = user and not (desc >> 61) & 1
            pxnt = pxnt or bool((desc >> 59) & 1)
            xnt = xnt or bool((desc >> 60) & 1)
            level += 1
            continue
        ialen = 39 - offset
        pa = (bits(desc, 39, ialen) << ialen) | bits(ia, ialen - 1, 0)
        attrs = (bits(desc, 54, 52) << 10) | bits(desc, 11, 2)
        if not rw:
            attrs |= 1 << 5
        if not user:
            attrs &= ~(1 << 4)
        if not (attrs >> 8) & 1:
            raise Abort('access_flag', ia, iswrite, dict(ex, level=level))
        ap = (bits(attrs, 5, 4) << 1) | 1
        idx = attrs & 7
        mair = (M.s['mair1'] << 32) | M.s['mair0']
        field = (mair >> (8 * idx)) & 0xFF
        if (field >> 4) == 0:
            memtype = {0: SO, 4: DEVICE}.get(field & 15)
        else:
            memtype = NORMAL
        return dict(pa=pa, domain=None, level=level, ap=ap, memtype=memtype, ld=True)
    raise Skip('walk deeper than 3 levels')


def check_ap(M, ap, mva, ispriv, iswrite, extra):
    if (M.s['sctlr'] >> 29) & 1:
        ap |= 1
    M.check_ap(ap, mva, ispriv, iswrite, pmsa=False, extra=extra)


def translate_v(M, va, ispriv, iswrite, size, wasaligned, want_attrs=False):
    mva = fcse(M, va)
    hyp = M.is_hyp()
    if hyp:
        # PL2 regime: modelled with its MMU off only (flat map, Strongly-ordered whatever HCR.DC says, so a split unaligned access faults);
        # HSCTLR.M = 1 (long-descriptor walk through HTTBR) is not modelled
        if M.s.get('hsctlr', 0) & 1:
            raise Skip('Hyp translation regime with HSCTLR.M = 1')
        if mva != (va & 0xFFFFFFFF):
            raise Skip('FCSE and Hyp mode')
        if not wasaligned:
            raise Abort('alignment', mva, iswrite, {'hyp': True})
        return (mva, SO) if want_attrs else mva
    enabled = M.s['sctlr'] & 1
    if M.virt_ext() and not M.is_secure() and (M.s['hcr'] & 1):
        raise Skip('stage 2 translation')
    if not enabled:
        # stage 1 off: flat map, Strongly-ordered => an unaligned (byte-wise) access faults
        if M.virt_ext() and not M.is_secure() and (M.s['hcr'] >> 12) & 1:
            raise Skip('HCR.DC')
        if not wasaligned:
            if not M.virt_ext():
                raise Unpred('unaligned access to Strongly-ordered memory (MMU off)')
            raise Abort('alignment', mva, iswrite)
        return (mva, SO) if want_attrs else mva
    if M.virt_ext() and not M.is_secure() and (M.s['hcr'] >> 27) & 1:
        raise Unpred('HCR.TGE with stage 1 enabled')
    uses_ld = bool((M.s['ttbcr'] >> 31) & 1)
    if uses_ld:
        if not M.cfg.get('have_lpae'):
            raise Unpred('TTBCR.EAE without LPAE')
        rec = walk_ld(M, mva, iswrite)
    else:
        rec = walk_sd(M, mva, iswrite)
    if rec['memtype'] is None:
        raise Skip('IMPLEMENTATION DEFINED / UNKNOWN memory type')
    if not wasaligned and rec['memtype'] in (SO, DEVICE):
        if not M.virt_ext():
            raise Unpred('unaligned access to Device / Strongly-ordered memory')
        raise Abort('alignment', mva, iswrite, {'ldformat': uses_ld})
    extra = {'level': rec['level'], 'domain': rec['domain'], 'ldformat': uses_ld}
    check = True
    if not uses_ld:
        d = (M.s['dacr'] >> (2 * rec['domain'])) & 3
        if d == 0:
            raise Abort('domain', mva, iswrite, extra)
        if d == 2:
            raise Unpred('DACR field 10')
        check = d == 1
    if check:
        check_ap(M, rec['ap'], mva, ispriv, iswrite, extra)
    return (rec['pa'], rec['memtype']) if want_attrs else rec['pa']


SD_FS = {'alignment': 0b00001, 'translation': (0b00101, 0b00111), 'access_flag': (0b00011, 0b00110), 'domain': (0b01001, 0b01011),
         'permission': (0b01101, 0b01111)}
LD_FS = {'translation': 0b000100, 'access_flag': 0b001000, 'permission': 0b001100}


def report_abort(M, ab):
    """DFSR/DFAR for a synchronous data abort on VMSA (B3.13, B4.1.52)"""
    if M.is_hyp():
        if ab.kind != 'alignment':
            raise Skip('Hyp-mode fault syndromes')
        if fcse(M, ab.addr & M32) != (ab.addr & M32):
            raise Skip('FCSE and Hyp mode')          # (whether the PL2 regime sees FCSE-modified addresses is not something this reference takes a position on)
        # Data Abort taken from Hyp mode to Hyp mode: HSR.EC = 0x25, ISS = WnR : DFSC (alignment = 100001); HDFAR = address; DFSR / DFAR untouched
        if not M.hooked:
            raise NotImpl('TLBLookupCameFromCacheMaintenance')
        M.write_hsr(0b100101, ((1 if ab.iswrite else 0) << 6) | 0b100001)
        M.s['hdfar'] = ab.addr & M32
        return
    if M.virt_ext() and (M.s.get('hcr', 0) >> 27) & 1 and ab.kind == 'alignment':
        raise Skip('alignment fault routed to Hyp mode (HCR.TGE)')
    addr = ab.addr & M32
    if ab.kind == 'alignment':
        addr = fcse(M, addr)
    ld = ab.extra.get('ldformat') or (ab.kind == 'alignment' and (M.s.get('ttbcr', 0) >> 31) & 1)
    if ld or M.cfg.get('have_lpae'):
        if not M.hooked:
            raise NotImpl('TLBLookupCameFromCacheMaintenance')
    level = ab.extra.get('level', 1)
    if ld:
        st = 0b100001 if ab.kind == 'alignment' else (LD_FS[ab.kind] | (level & 3))
        v = ((1 if ab.iswrite else 0) << 11) | (1 << 9) | st
        M.unknown_bits['dfsr'] = (1 << 10) | (7 << 6)
        M.s['dfsr'] = (M.s['dfsr'] & ~0x3FFF) | v
        M.s['dfar'] = addr
        return
    fs = SD_FS[ab.kind]
    if isinstance(fs, tuple):
        fs = fs[level - 1]
    v = ((1 if ab.iswrite else 0) << 11) | ((fs >> 4) << 10) | (fs & 15)
    dom = ab.extra.get('domain')
    domain_valid = ab.kind == 'domain' or (level == 2 and ab.kind in ('translation', 'access_flag')) or \
        (not M.cfg.get('have_lpae') and ab.kind == 'permission')
    if domain_valid and dom is not None:
        v |= (dom & 15) << 4
    else:
        M.unknown_bits['dfsr'] = 0xF0
    M.unknown_bits['dfsr'] = M.unknown_bits.get('dfsr', 0) | (1 << 8)
    M.s['dfsr'] = (M.s['dfsr'] & ~0x3FFF) | v
    M.s['dfar'] = addr
