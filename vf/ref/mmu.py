"""VMSA address translation reference (B3): FCSE, short-descriptor walk, domains, permissions, fault encoding."""
from vf.ref.machine import Unpred, Skip, Abort, M32


def translate_v(M, va, ispriv, iswrite, size, wasaligned):
    hyp = M.is_hyp()
    enabled = ((M.s['hsctlr'] & 1) if hyp else (M.s['sctlr'] & 1))
    if not enabled:
        # stage 1 off: flat map, Strongly-ordered => an unaligned (byte-wise) access faults
        if not wasaligned:
            if not M.virt_ext():
                raise Unpred('unaligned access to Strongly-ordered memory (MMU off)')
            raise Abort('alignment', va, iswrite)
        if M.virt_ext() and not M.is_secure() and not hyp and (M.s['hcr'] & 1):
            raise Skip('stage 2 translation')
        return va
    raise Skip('MMU on: see vf/ref/mmuwalk.py')


def report_abort(M, ab):
    raise Skip('VMSA fault reporting')
