"""Architectural bit positions of CPSR and system-register fields (DDI 0406C B1.3.3, B4.1, B6.1, C11), written from
the manual's register diagrams.  Format: {(module, class, ctor args): [(accessor, [(msb, lsb), ...]), ...]} where a
composite field lists its runs most-significant first, and an indexed accessor is ('get_x_n', 'set_x_n', n)."""


def b(i):
    return [(i, i)]


def r(m, l):
    return [(m, l)]


def idx(g, s, n, runs):
    return ((g, s, n), runs)


FIELDS = {}
INDEXED = {}

FIELDS[('cpsr', 'CPSR', ())] = [
    ('n', b(31)), ('z', b(30)), ('c', b(29)), ('v', b(28)), ('q', b(27)), ('j', b(24)), ('ge', r(19, 16)),
    ('it', [(15, 10), (26, 25)]), ('e', b(9)), ('a', b(8)), ('i', b(7)), ('f', b(6)), ('t', b(5)), ('m', r(4, 0)),
    ('isetstate', [(24, 24), (5, 5)]),
]
FIELDS[('sctlr', 'SCTLR', ())] = [
    ('ie', b(31)), ('te', b(30)), ('afe', b(29)), ('tre', b(28)), ('nmfi', b(27)), ('ee', b(25)), ('ve', b(24)), ('u', b(22)),
    ('fi', b(21)), ('uwxn', b(20)), ('wxn', b(19)), ('dz', b(19)), ('ha', b(17)), ('br', b(17)), ('rr', b(14)), ('v', b(13)),
    ('i', b(12)), ('z', b(11)), ('sw', b(10)), ('b', b(7)), ('cp15ben', b(5)), ('c', b(2)), ('a', b(1)), ('m', b(0)),
]
FIELDS[('scr', 'SCR', ())] = [
    ('sif', b(9)), ('hce', b(8)), ('scd', b(7)), ('net', b(6)), ('aw', b(5)), ('fw', b(4)), ('ea', b(3)), ('fiq', b(2)),
    ('irq', b(1)), ('ns', b(0)),
]
FIELDS[('nsacr', 'NSACR', ())] = [('nstrcdis', b(20)), ('rfr', b(19)), ('nsasedis', b(15)), ('nsd32dis', b(14))] + \
    [idx('get_cp_n', 'set_cp_n', n, b(n)) for n in range(14)]
FIELDS[('cpacr', 'CPACR', ())] = [('asedis', b(31)), ('d32dis', b(30)), ('trcdis', b(28))] + \
    [idx('get_cp_n', 'set_cp_n', n, r(2 * n + 1, 2 * n)) for n in range(14)]
FIELDS[('hcr', 'HCR', ())] = [
    ('tge', b(27)), ('tvm', b(26)), ('ttlb', b(25)), ('tpu', b(24)), ('tpc', b(23)), ('tsw', b(22)), ('tac', b(21)),
    ('tidcp', b(20)), ('tsc', b(19)), ('twe', b(14)), ('twi', b(13)), ('dc', b(12)), ('bsu', r(11, 10)), ('fb', b(9)),
    ('va', b(8)), ('vi', b(7)), ('vf', b(6)), ('amo', b(5)), ('imo', b(4)), ('fmo', b(3)), ('ptw', b(2)), ('swio', b(1)),
    ('vm', b(0)),
] + [idx('get_tid_n', 'set_tid_n', n, b(15 + n)) for n in range(4)]
FIELDS[('hcptr', 'HCPTR', ())] = [('tcpac', b(31)), ('tta', b(20)), ('tase', b(15))] + \
    [idx('get_tcp_n', 'set_tcp_n', n, b(n)) for n in range(14)]
FIELDS[('hstr', 'HSTR', ())] = [('tjdbx', b(17)), ('ttee', b(16))] + [idx('get_t_n', 'set_t_n', n, b(n)) for n in range(16)]
FIELDS[('hdcr', 'HDCR', ())] = [('tdra', b(11)), ('tdosa', b(10)), ('tda', b(9)), ('tde', b(8)), ('hpme', b(7)), ('tpm', b(6)),
                                ('tpmcr', b(5)), ('hpmn', r(4, 0))]
FIELDS[('hsctlr', 'HSCTLR', ())] = [('te', b(30)), ('ee', b(25)), ('fi', b(21)), ('wxn', b(19)), ('i', b(12)), ('cp15ben', b(5)),
                                    ('c', b(2)), ('a', b(1)), ('m', b(0))]
FIELDS[('hsr', 'HSR', ())] = [('ec', r(31, 26)), ('il', b(25)), ('iss', r(24, 0))]
FIELDS[('hpfar', 'HPFAR', ())] = [('fipa', r(31, 4))]
FIELDS[('htcr', 'HTCR', ())] = [('sh0', r(13, 12)), ('orgn0', r(11, 10)), ('irgn0', r(9, 8)), ('t0sz', r(2, 0))]
FIELDS[('vtcr', 'VTCR', ())] = [('sh0', r(13, 12)), ('orgn0', r(11, 10)), ('irgn0', r(9, 8)), ('sl0', r(7, 6)), ('s', b(4)),
                                ('t0sz', r(3, 0))]
FIELDS[('ttbcr', 'TTBCR', ())] = [
    ('eae', b(31)), ('sh1', r(29, 28)), ('orgn1', r(27, 26)), ('irgn1', r(25, 24)), ('epd1', b(23)), ('a1', b(22)),
    ('t1sz', r(18, 16)), ('sh0', r(13, 12)), ('orgn0', r(11, 10)), ('irgn0', r(9, 8)), ('epd0', b(7)), ('t0sz', r(2, 0)),
    ('pd1', b(5)), ('pd0', b(4)), ('n', r(2, 0)),
]
FIELDS[('dacr', 'DACR', ())] = [idx('get_d_n', 'set_d_n', n, r(2 * n + 1, 2 * n)) for n in range(16)]
FIELDS[('prrr', 'PRRR', ())] = [('ns1', b(19)), ('ns0', b(18)), ('ds1', b(17)), ('ds0', b(16))] + \
    [idx('get_nos_n', 'set_nos_n', n, b(24 + n)) for n in range(8)] + \
    [idx('get_tr_n', 'set_tr_n', n, r(2 * n + 1, 2 * n)) for n in range(8)]
FIELDS[('nmrr', 'NMRR', ())] = [idx('get_or_n', 'set_or_n', n, r(2 * n + 17, 2 * n + 16)) for n in range(8)] + \
    [idx('get_ir_n', 'set_ir_n', n, r(2 * n + 1, 2 * n)) for n in range(8)]
FIELDS[('dfsr', 'DFSR', ())] = [('cm', b(13)), ('ext', b(12)), ('wnr', b(11)), ('lpae', b(9)), ('domain', r(7, 4)),
                                ('fs', [(10, 10), (3, 0)]), ('status', r(5, 0))]
FIELDS[('fpexc', 'FPEXC', ())] = [('ex', b(31)), ('en', b(30))]
FIELDS[('fcseidr', 'FCSEIDR', ())] = [('pid', r(31, 25))]
FIELDS[('midr', 'MIDR', ())] = [('implementer', r(31, 24)), ('variant', r(23, 20)), ('architecture', r(19, 16)),
                                ('primary_part_number', r(15, 4)), ('revision', r(3, 0))]
FIELDS[('mpuir', 'MPUIR', ())] = [('iregion', r(23, 16)), ('dregion', r(15, 8)), ('nu', b(0))]
for _c in ('DRSR', 'IRSR'):
    FIELDS[('rsr', _c, ())] = [('rsize', r(5, 1)), ('en', b(0))] + [idx('get_sd_n', 'set_sd_n', n, b(8 + n)) for n in range(8)]
for _c in ('DRACR', 'IRACR'):
    FIELDS[('racr', _c, ())] = [('xn', b(12)), ('ap', r(10, 8)), ('tex', r(5, 3)), ('s', b(2)), ('c', b(1)), ('b', b(0))]
FIELDS[('sder', 'SDER', ())] = [('suniden', b(1)), ('suiden', b(0))]
FIELDS[('teecr', 'TEECR', ())] = [('xed', b(0))]
FIELDS[('jmcr', 'JMCR', ())] = [('je', b(0))]
FIELDS[('pmcr', 'PMCR', ())] = [('imp', r(31, 24)), ('idcode', r(23, 16)), ('n', r(15, 11)), ('dp', b(5)), ('x', b(4)), ('d', b(3)),
                                ('c', b(2)), ('p', b(1)), ('e', b(0))]
FIELDS[('dbgdidr', 'DBGDIDR', ())] = [('wrps', r(31, 28)), ('brps', r(27, 24)), ('ctx_cmps', r(23, 20)), ('version', r(19, 16)),
                                      ('devid_imp', b(15)), ('nsuhd_imp', b(14)), ('pcsr_imp', b(13)), ('se_imp', b(12)),
                                      ('variant', r(7, 4)), ('revision', r(3, 0))]
FIELDS[('id_pfr1', 'IdPfr1', ())] = [('gt', r(19, 16)), ('ve', r(15, 12)), ('m_profile', r(11, 8)), ('se', r(7, 4)), ('pm', r(3, 0))]
