"""Runner: sharding, seed derivation, accumulation, evidence, VIOLATION / KNOWN-FINDING reporting.

Exit codes: 0 held (possibly with KNOWN-FINDING lines), 1 violation(s), 2 harness error / inconclusive.
"""
import collections
import hashlib
import importlib
import json
import multiprocessing
import os
import subprocess
import sys
import time
import traceback

ROOT = os.path.dirname(os.path.dirname(os.path.abspath(__file__)))
# where evidence/ and replays/ are written: /verif unless VERIF_OUT redirects them (used when checks run against scratch mutants)
OUTROOT = os.environ.get('VERIF_OUT') or ROOT
OUT = sys.__stdout__
NCPU = int(os.environ.get('VERIF_JOBS', '16'))


def out(*a):
    print(*a, file=OUT, flush=True)


def h64(obj):
    return int.from_bytes(hashlib.blake2b(repr(obj).encode(), digest_size=8).digest(), 'big')


def derive_seed(seed, prop, shard):
    return int.from_bytes(hashlib.sha256(f'{seed}:{prop}:{shard}'.encode()).digest()[:8], 'big')


def jsonable(o):
    if isinstance(o, dict):
        return {str(k): jsonable(v) for k, v in o.items()}
    if isinstance(o, (list, tuple, set, frozenset)):
        return [jsonable(v) for v in o]
    if isinstance(o, (bytes, bytearray)):
        return o.hex()
    if isinstance(o, (int, str, float, bool)) or o is None:
        return o
    return repr(o)


class Acc:
    """Accumulator for one shard (merged across shards by the runner)."""
    MAX_SAMPLES_PER_CLASS = 2
    MAX_SAMPLE_CLASSES = 12

    def __init__(self):
        self.evals = 0
        self.nontriv = set()
        self.samples = {}
        self.classes = collections.Counter()
        self.viol = {}
        self.viol_n = collections.Counter()
        self.known = collections.Counter()
        self.excluded = 0
        self.extra = {}
        self.exhaustive = None
        self.errors = []

    def case(self, nontrivial, key=None, cls=None, sample=None):
        """count one executed case; key: hashable identity of the case (for distinct counting)"""
        self.evals += 1
        if cls is not None:
            self.classes[cls] += 1
        if nontrivial:
            self.nontriv.add(h64(key) if not isinstance(key, int) else key & 0xFFFFFFFFFFFFFFFF)
            if sample is not None:
                c = cls if cls is not None else 'nontrivial'
                lst = self.samples.get(c)
                if lst is None:
                    if len(self.samples) < self.MAX_SAMPLE_CLASSES:
                        self.samples[c] = [sample() if callable(sample) else sample]
                elif len(lst) < self.MAX_SAMPLES_PER_CLASS:
                    lst.append(sample() if callable(sample) else sample)

    def cls(self, name, n=1):
        self.classes[name] += n

    def violation(self, bucket, case, detail):
        bucket = str(bucket)
        self.viol_n[bucket] += 1
        if bucket not in self.viol:
            self.viol[bucket] = {'case': case() if callable(case) else case, 'detail': detail}

    def known_hit(self, key, n=1):
        self.known[key] += n

    def merge(self, o):
        self.evals += o.evals
        self.nontriv |= o.nontriv
        for c, l in o.samples.items():
            if c in self.samples:
                self.samples[c] = (self.samples[c] + l)[:self.MAX_SAMPLES_PER_CLASS]
            elif len(self.samples) < self.MAX_SAMPLE_CLASSES:
                self.samples[c] = l
        self.classes.update(o.classes)
        for b, v in o.viol.items():
            self.viol.setdefault(b, v)
        self.viol_n.update(o.viol_n)
        self.known.update(o.known)
        self.excluded += o.excluded
        for k, v in o.extra.items():
            if isinstance(v, (int, float)) and isinstance(self.extra.get(k, 0), (int, float)):
                self.extra[k] = self.extra.get(k, 0) + v
            else:
                self.extra.setdefault(k, v)
        if o.exhaustive is not None:
            self.exhaustive = o.exhaustive if self.exhaustive is None else (self.exhaustive and o.exhaustive)
        self.errors += o.errors
        return self


_COV = {'dir': os.environ.get('VERIF_COV'), 'lines': set(), 'on': False}


def cov_start():
    """optional line-coverage probe over the tree under test (tools/coverage_probe.py): sys.monitoring LINE events, each location disabled after
    its first hit, so the cost is negligible; never active in registered commands (VERIF_COV unset)"""
    if not _COV['dir'] or _COV['on'] or not hasattr(sys, 'monitoring'):
        return
    mon = sys.monitoring
    root = os.path.realpath(os.environ.get('VERIF_REPO', '/repo')) + os.sep

    def on_line(code, line):
        fn = code.co_filename
        if fn.startswith(root):
            _COV['lines'].add((fn[len(root):], line))
        return mon.DISABLE
    try:
        mon.use_tool_id(mon.COVERAGE_ID, 'vfcov')
    except ValueError:
        pass
    mon.register_callback(mon.COVERAGE_ID, mon.events.LINE, on_line)
    mon.set_events(mon.COVERAGE_ID, mon.events.LINE)
    _COV['on'] = True


def cov_dump(tag):
    if not _COV['on']:
        return
    os.makedirs(_COV['dir'], exist_ok=True)
    with open(os.path.join(_COV['dir'], '%s-%d-%d.json' % (tag, os.getpid(), int(time.time() * 1e6))), 'w') as f:
        json.dump(sorted(_COV['lines']), f)


def _shard_entry(args):
    fn, arg = args
    cov_start()
    try:
        return _shard_entry2(fn, arg)
    finally:
        cov_dump('shard')


def _shard_entry2(fn, arg):
    try:
        r = fn(*arg) if isinstance(arg, tuple) else fn(arg)
        return r
    except Exception:
        a = Acc()
        a.errors.append(traceback.format_exc())
        return a


class Ctx:
    def __init__(self, prop, tier, seed):
        self.prop, self.tier, self.seed = prop, tier, seed
        self.quick = tier == 'quick'
        self.acc = Acc()
        self.rule = ''
        self.assumptions = []
        self.technique = ''

    def n(self, quick, thorough):
        return quick if self.quick else thorough

    def shard_seed(self, i):
        return derive_seed(self.seed, self.prop, i)

    def pmap(self, fn, args, jobs=None):
        """run fn over args in up to 16 processes; each returns an Acc; merged into ctx.acc"""
        args = list(args)
        jobs = min(jobs or NCPU, len(args)) or 1
        if jobs == 1:
            for a in args:
                self.acc.merge(_shard_entry((fn, a)))
            return
        mp = multiprocessing.get_context('fork')
        with mp.Pool(jobs) as pool:
            for r in pool.imap_unordered(_shard_entry, [(fn, a) for a in args], chunksize=1):
                self.acc.merge(r)


def git_rev(path):
    try:
        return subprocess.run(['git', '-C', path, 'rev-parse', '--short', 'HEAD'], capture_output=True, text=True,
                              timeout=10).stdout.strip()
    except Exception:
        return '?'


def load_known():
    """KNOWN_FINDINGS.txt -> {(prop, key): text} for `finding:` lines only"""
    res = {}
    p = os.path.join(ROOT, 'KNOWN_FINDINGS.txt')
    if not os.path.exists(p):
        return res
    for line in open(p):
        line = line.strip()
        if not line.startswith('finding:'):
            continue
        toks = line.split()
        prop = key = None
        rest = []
        for t in toks[1:]:
            if t.startswith('property=') and prop is None:
                prop = t[9:]
            elif t.startswith('key=') and key is None:
                key = t[4:]
            else:
                rest.append(t)
        if prop and key:
            res[(prop, key)] = ' '.join(rest)
    return res


def check_env():
    import armulator
    f = os.path.realpath(armulator.__file__)
    want = os.path.realpath(os.environ.get('VERIF_REPO', '/repo'))
    if not f.startswith(want + os.sep):
        out(f'HARNESS-ERROR: armulator imported from {f}, expected under {want}')
        sys.exit(2)


def run_check(prop, tier, seed):
    check_env()
    t0 = time.time()
    mod = importlib.import_module('vf.props.' + prop.lower())
    ctx = Ctx(prop, tier, seed)
    cov_start()
    try:
        mod.run(ctx)
        cov_dump('main-' + prop)
    except Exception:
        out('HARNESS-ERROR: ' + traceback.format_exc())
        return 2
    acc = ctx.acc
    if acc.errors:
        out('HARNESS-ERROR in shard:\n' + acc.errors[0])
        return 2
    known = load_known()
    listed = {k: v for (p, k), v in known.items() if p == prop}
    # unlisted known-hit keys become violations (a finding only counts when the file lists it)
    rc = 0
    nviol = 0
    os.makedirs(os.path.join(OUTROOT, 'replays'), exist_ok=True)
    for bucket in sorted(acc.viol):
        v = acc.viol[bucket]
        rec = {'property': prop, 'bucket': bucket, 'count': acc.viol_n[bucket], 'case': v['case'],
               'detail': v['detail'], 'seed': seed, 'tier': tier, 'repo_rev': git_rev('/repo'),
               'verif_rev': git_rev(ROOT)}
        dig = hashlib.sha1(json.dumps(jsonable(rec['case']), sort_keys=True).encode() + bucket.encode()).hexdigest()[:10]
        path = os.path.join('replays', f'{prop}-{dig}.json')
        with open(os.path.join(OUTROOT, path), 'w') as f:
            json.dump(jsonable(rec), f, indent=1, sort_keys=True)
        out(f'VIOLATION property={prop} replay={path}  # {bucket} x{acc.viol_n[bucket]}')
        rc = 1
        nviol += 1
    for key, text in sorted(listed.items()):
        out(f'KNOWN-FINDING: property={prop} key={key} {text} (hit by {acc.known.get(key, 0)} generated cases)')
    wall = time.time() - t0
    samples = []
    for c, l in sorted(acc.samples.items(), key=lambda kv: str(kv[0])):
        for s in l:
            samples.append({'class': str(c), 'case': jsonable(s)})
    cov = {
        'evaluations': acc.evals,
        'distinct_nontrivial': len(acc.nontriv),
        'rule': ctx.rule,
        'samples': samples[:24],
        'classes': {str(k): v for k, v in sorted(acc.classes.items(), key=lambda kv: str(kv[0]))},
        'known_findings_hit': dict(acc.known),
        'excluded': acc.excluded,
    }
    if acc.exhaustive is not None:
        cov['exhaustive'] = bool(acc.exhaustive)
    cov.update(jsonable(acc.extra))
    ev = {'property_id': prop, 'tier': tier, 'seed': seed, 'level': 'exploration', 'coverage': cov,
          'assumptions': ctx.assumptions, 'wall_s': round(wall, 2), 'violations': nviol,
          'technique': ctx.technique}
    os.makedirs(os.path.join(OUTROOT, 'evidence'), exist_ok=True)
    with open(os.path.join(OUTROOT, 'evidence', prop + '.json'), 'w') as f:
        json.dump(ev, f, indent=1, sort_keys=True)
    out(f'{prop} {tier} seed={seed}: evaluations={acc.evals} distinct_nontrivial={len(acc.nontriv)} '
        f'violations={nviol} known_hits={sum(acc.known.values())} wall={wall:.1f}s')
    if rc == 0 and (acc.evals == 0 or len(acc.nontriv) < 2):          # a run that found violations is not vacuous
        out('HARNESS-ERROR: vacuous run (no non-trivial cases)')
        return 2
    return rc


def run_replay(path):
    check_env()
    rec = json.load(open(path if os.path.isabs(path) else os.path.join(ROOT, path)))
    prop = rec['property']
    mod = importlib.import_module('vf.props.' + prop.lower())
    res = mod.replay(rec['case'], rec.get('bucket'))
    if res:
        out(f'VIOLATION property={prop} replay={path}  # {res}')
        return 1
    out(f'replay {path}: no longer fails')
    return 0
