"""Prototype v2: provenance-tracking ints for exhaustive path enumeration of pure bit-field decoders.

Three value classes:
  SymWord : per-bit provenance (each bit is a copy of a source bit, or a constant)
  Opaque  : only knows the SET of source bits it depends on (result of arithmetic)
  int     : constant
Control dependence is recorded only at comparisons / truthiness / use as shift count, index, etc.
"""
import random

TRACE = []
HINTS = []


def _lit_eq(lits, outcome):
    return ('eq', tuple(lits), outcome)


def _conc_bits(srcbits, word):
    srcbits = tuple(sorted(set(srcbits)))
    if srcbits:
        TRACE.append(('conc', srcbits, tuple((word >> b) & 1 for b in srcbits), frozenset()))


CUR_WORD = [0]


class _Base(int):
    def _deps(self):
        raise NotImplementedError

    def _conc(self):
        _conc_bits(self._deps(), CUR_WORD[0])
        return int.__int__(self)

    # generic fallbacks: produce Opaque with merged deps
    def _op(self, other, fn):
        a = int.__int__(self)
        if isinstance(other, _Base):
            b = int.__int__(other)
            deps = set(self._deps()) | set(other._deps())
        else:
            b = other
            deps = set(self._deps())
        if not isinstance(b, int):
            return NotImplemented
        return Opaque(fn(a, b), frozenset(deps))

    def __add__(self, o): return self._op(o, lambda a, b: a + b)
    def __radd__(self, o): return self._op(o, lambda a, b: b + a)
    def __sub__(self, o): return self._op(o, lambda a, b: a - b)
    def __rsub__(self, o): return self._op(o, lambda a, b: b - a)
    def __mul__(self, o): return self._op(o, lambda a, b: a * b)
    def __rmul__(self, o): return self._op(o, lambda a, b: b * a)
    def __and__(self, o): return self._op(o, lambda a, b: a & b)
    def __rand__(self, o): return self._op(o, lambda a, b: b & a)
    def __or__(self, o): return self._op(o, lambda a, b: a | b)
    def __ror__(self, o): return self._op(o, lambda a, b: b | a)
    def __xor__(self, o): return self._op(o, lambda a, b: a ^ b)
    def __rxor__(self, o): return self._op(o, lambda a, b: b ^ a)
    def __mod__(self, o): return self._op(o, lambda a, b: a % b)
    def __floordiv__(self, o): return self._op(o, lambda a, b: a // b)
    def __neg__(self): return Opaque(-int.__int__(self), frozenset(self._deps()))
    def __invert__(self): return Opaque(~int.__int__(self), frozenset(self._deps()))

    def __lshift__(self, n):
        if isinstance(n, _Base): n = n._conc()
        return self._op(n, lambda a, b: a << b)

    def __rshift__(self, n):
        if isinstance(n, _Base): n = n._conc()
        return self._op(n, lambda a, b: a >> b)

    def __rlshift__(self, o): return o << self._conc()
    def __rrshift__(self, o): return o >> self._conc()
    def __pow__(self, o, m=None): return pow(self._conc(), int(o), m)
    def __rpow__(self, o, m=None): return pow(o, self._conc(), m)

    # control
    def __eq__(self, o):
        if isinstance(o, _Base):
            return self._conc() == o._conc()
        if not isinstance(o, int): return NotImplemented
        return self._conc() == o

    def __ne__(self, o):
        r = self.__eq__(o)
        return r if r is NotImplemented else not r

    def _hint(self, o):
        # an order comparison with a constant: remember (provenance of the value, constant) so that the caller can also try the values next to the
        # constant - order comparisons are decided by concretisation, which enumerates values one at a time and may stop before the boundary
        src = getattr(self, 'src', None)
        if src is not None and isinstance(o, int) and not isinstance(o, _Base):
            HINTS.append((tuple(src), int(o)))

    def __lt__(self, o): self._hint(o); return self._conc() < (o._conc() if isinstance(o, _Base) else o)
    def __le__(self, o): self._hint(o); return self._conc() <= (o._conc() if isinstance(o, _Base) else o)
    def __gt__(self, o): self._hint(o); return self._conc() > (o._conc() if isinstance(o, _Base) else o)
    def __ge__(self, o): self._hint(o); return self._conc() >= (o._conc() if isinstance(o, _Base) else o)
    def __bool__(self): return self.__ne__(0)
    def __hash__(self): return hash(self._conc())
    def __index__(self): return self._conc()
    def __int__(self): return self._conc()
    def bit_length(self): return self._conc().bit_length()
    def bit_count(self): return bin(self._conc()).count('1')
    def __format__(self, spec): return format(self._conc(), spec)
    def __str__(self): return str(self._conc())
    def __repr__(self): return '%s(%#x)' % (type(self).__name__, int.__int__(self))


class Opaque(_Base):
    def __new__(cls, v, deps):
        if not deps:
            return v
        o = int.__new__(cls, v)
        o.deps = deps
        return o

    def _deps(self): return self.deps


class SymWord(_Base):
    def __new__(cls, v, src):
        if all(s < 0 for s in src):
            return v
        o = int.__new__(cls, v)
        o.src = src
        return o

    @staticmethod
    def word(v, nbits=32):
        return SymWord(v, tuple(range(nbits)))

    def _deps(self): return [s for s in self.src if s >= 0]

    def __and__(self, other):
        if isinstance(other, _Base) or other < 0:
            return _Base.__and__(self, other)
        v = int.__int__(self) & other
        return SymWord(v, tuple(s if (other >> i) & 1 else -1 for i, s in enumerate(self.src)))
    __rand__ = __and__

    def __rshift__(self, n):
        if isinstance(n, _Base): n = n._conc()
        return SymWord(int.__int__(self) >> n, self.src[n:])

    def __lshift__(self, n):
        if isinstance(n, _Base): n = n._conc()
        return SymWord(int.__int__(self) << n, (-1,) * n + self.src)

    def _merge(self, other, v):
        sv = int.__int__(self)
        if isinstance(other, SymWord):
            ov = int.__int__(other)
            a, b = self.src, other.src
            n = max(len(a), len(b))
            a = a + (-1,) * (n - len(a)); b = b + (-1,) * (n - len(b))
            src = []
            for i in range(n):
                ba = (sv >> i) & 1; bb = (ov >> i) & 1
                if a[i] >= 0 and (b[i] >= 0 or bb): return None
                if b[i] >= 0 and ba: return None
                src.append(a[i] if a[i] >= 0 else b[i])
            return SymWord(v, tuple(src))
        if isinstance(other, _Base) or not isinstance(other, int) or other < 0:
            return None
        for i, s in enumerate(self.src):
            if s >= 0 and (other >> i) & 1: return None
        return SymWord(v, self.src + (-1,) * max(0, other.bit_length() - len(self.src)))

    def __add__(self, other):
        if isinstance(other, int):
            r = self._merge(other, int.__int__(self) + int.__int__(other))
            if r is not None: return r
        return _Base.__add__(self, other)
    __radd__ = __add__

    def __or__(self, other):
        if isinstance(other, int):
            r = self._merge(other, int.__int__(self) | int.__int__(other))
            if r is not None: return r
        return _Base.__or__(self, other)
    __ror__ = __or__
    __hash__ = _Base.__hash__       # (defining __eq__ below would otherwise make the class unhashable: decoders that use words as dict keys)

    def __eq__(self, other):
        if isinstance(other, _Base):
            return self._conc() == other._conc()
        if not isinstance(other, int): return NotImplemented
        sv = int.__int__(self)
        lits = []
        n = max(len(self.src), other.bit_length()) if other >= 0 else None
        if n is None: return False
        for i in range(n):
            s = self.src[i] if i < len(self.src) else -1
            if s < 0:
                if ((sv >> i) & 1) != ((other >> i) & 1): return False
            else:
                lits.append((s, (other >> i) & 1))
        if not lits: return True
        # the same source bit may appear twice with conflicting demands
        d = {}
        for s, v in lits:
            if d.setdefault(s, v) != v: return False
        res = sv == other
        TRACE.append(_lit_eq(sorted(d.items()), res))
        return res


def traced_bit_count(orig):
    def bit_count(bits, bit, length):
        if isinstance(bits, _Base):
            deps = tuple(sorted(set(bits._deps())))
            if isinstance(bits, SymWord) and len(deps) == len(bits._deps()):
                k = bin(int.__int__(bits)).count('1')
                nconst = sum(1 for i, s in enumerate(bits.src) if s < 0 and (int.__int__(bits) >> i) & 1)
                TRACE.append(('pc', deps, k - nconst, frozenset()))
                bits = int.__int__(bits)
            else:
                bits = bits._conc()
        return orig(bits, bit, length)
    return bit_count


def patch_armulator():
    import sys
    import armulator.armv6.bits_ops as bo
    orig = bo.bit_count
    new = traced_bit_count(orig)
    for name, mod in list(sys.modules.items()):
        if name.startswith('armulator') and getattr(mod, 'bit_count', None) is orig:
            mod.bit_count = new


# ---------------------------------------------------------------- solver
def negate(lit):
    k = lit[0]
    if k == 'eq': return ('eq', lit[1], not lit[2])
    if k == 'conc': return ('nconc', lit[1], lit[3] | {lit[2]})
    if k == 'pc': return ('npc', lit[1], lit[3] | {lit[2]})
    raise ValueError(lit)


def lit_matches(p, t):
    """does trace literal t realise prefix literal p?  returns t possibly enriched"""
    if p[0] == 'eq': return t if t == p else None
    if p[0] == 'conc': return t if (t[0] == 'conc' and t[1] == p[1] and t[2] == p[2]) else None
    if p[0] == 'pc': return t if (t[0] == 'pc' and t[1] == p[1] and t[2] == p[2]) else None
    if p[0] == 'nconc':
        if t[0] == 'conc' and t[1] == p[1] and t[2] not in p[2]:
            return ('conc', t[1], t[2], p[2])
        return None
    if p[0] == 'npc':
        if t[0] == 'pc' and t[1] == p[1] and t[2] not in p[2]:
            return ('pc', t[1], t[2], p[2])
        return None


def solve(constraints, nbits, rng):
    assign = {}
    clauses = []
    cards = []     # (bits, allowed set of k)
    for c in constraints:
        k = c[0]
        if k == 'eq':
            if c[2]:
                for s, v in c[1]:
                    if assign.get(s, v) != v: return None
                    assign[s] = v
            else:
                clauses.append(tuple(c[1]))
        elif k == 'conc':
            for s, v in zip(c[1], c[2]):
                if assign.get(s, v) != v: return None
                assign[s] = v
        elif k == 'nconc':
            for val in c[2]:
                clauses.append(tuple(zip(c[1], val)))
        elif k == 'pc':
            cards.append((c[1], {c[2]}))
        elif k == 'npc':
            cards.append((c[1], set(range(len(c[1]) + 1)) - set(c[2])))

    def card_ok(assign, final):
        for bits, allowed in cards:
            ones = sum(1 for b in bits if assign.get(b) == 1)
            free = sum(1 for b in bits if b not in assign)
            if final:
                if ones not in allowed: return False
            elif not any(ones <= k <= ones + free for k in allowed):
                return False
        return True

    def propagate(assign, clauses):
        changed = True
        while changed:
            changed = False
            new = []
            for cl in clauses:
                sat = False; rest = []
                for s, v in cl:
                    if s in assign:
                        if assign[s] != v: sat = True; break
                    else:
                        rest.append((s, v))
                if sat: continue
                if not rest: return None
                if len(rest) == 1:
                    s, v = rest[0]; assign[s] = 1 - v; changed = True
                else:
                    new.append(tuple(rest))
            clauses = new
        return clauses

    def dpll(assign, clauses):
        clauses = propagate(assign, clauses)
        if clauses is None or not card_ok(assign, False): return None
        if clauses:
            s, v = clauses[0][0]
            order = (1 - v, v)
        else:
            # decide cardinality bits, if any undecided
            pend = [b for bits, _ in cards for b in bits if b not in assign]
            if not pend:
                return assign if card_ok(assign, True) else None
            s = pend[0]; order = (rng.getrandbits(1),); order = (order[0], 1 - order[0])
        for val in order:
            a = dict(assign); a[s] = val
            r = dpll(a, clauses)
            if r is not None: return r
        return None

    r = dpll(dict(assign), clauses)
    if r is None: return None
    w = 0
    for b in range(nbits):
        w |= (r[b] if b in r else rng.getrandbits(1)) << b
    return w


def enumerate_paths(fn, nbits=32, seed=0, limit=None, pre=(), fixed=()):
    rng = random.Random(seed)
    stack = [list(pre)]
    low = []            # alternatives that merely pick ANOTHER VALUE for a concretised field: explored after every flipped equality test, so that a
    n = 0               # path limit cuts value enumeration, not decision structure
    infeasible = 0
    while stack or low:
        prefix = stack.pop(0) if stack else low.pop()          # breadth-first over flipped equality tests: every early decision is flipped before a limit hits
        w = solve(list(fixed) + prefix, nbits, rng)
        if w is None:
            infeasible += 1
            continue
        TRACE.clear(); HINTS.clear(); CUR_WORD[0] = w
        try:
            out = fn(SymWord.word(w, nbits))
        except Exception as e:
            out = ('EXC', type(e).__name__)
        trace = list(TRACE)
        # align trace with prefix
        ok = len(trace) >= len(prefix)
        if ok:
            for i, p in enumerate(prefix):
                m = lit_matches(p, trace[i])
                if m is None: ok = False; break
                trace[i] = m
        if not ok:
            raise AssertionError(('prefix mismatch', hex(w), prefix[-3:], trace[max(0, len(prefix) - 3):len(prefix) + 1]))
        start = len(prefix)
        if prefix and prefix[-1][0] in ('nconc', 'npc'):
            start -= 1
        for i in range(max(start, len(pre)), len(trace)):
            alt = negate(trace[i])
            (low if alt[0] in ('nconc', 'npc') else stack).append(trace[:i] + [alt])
        n += 1
        yield w, trace, out
        if limit and n >= limit: return


def boundary_words(word, hints, nbits=32):
    """words equal to `word` except that a value compared with a constant c takes c-1, c, c+1 (where representable in its source bits)"""
    out = []
    seen = set()
    for src, c in hints:
        width = len(src)
        for v in (c - 1, c, c + 1):
            if v < 0 or v >= (1 << width):
                continue
            w2 = word
            ok = True
            for i, sb in enumerate(src):
                bit = (v >> i) & 1
                if sb < 0:
                    continue            # constant bit of the compared value: cannot be changed through the word
                w2 = (w2 & ~(1 << sb)) | (bit << sb)
            if ok and w2 != word and w2 not in seen and 0 <= w2 < (1 << nbits):
                seen.add(w2)
                out.append(w2)
    return out
