"""The only module that touches armulator: configs, instance construction, state application, stepping, snapshots.

Importing this module silences sys.stdout (armulator prints 'unpredictable' ~450 places); harness output goes through
vf.runner.out() which writes to sys.__stdout__.
"""
import json
import os
import sys

ROOT = os.path.dirname(os.path.dirname(os.path.abspath(__file__)))


class _Null:
    def write(self, s):
        return len(s)

    def flush(self):
        pass


sys.stdout = _Null()

import armulator.armv6.arm_v6 as _av6  # noqa: E402
from armulator.armv6.arm_v6 import ArmV6  # noqa: E402
from armulator.armv6.all_registers.abstract_register import AbstractRegister  # noqa: E402
from armulator.armv6.configurations import configurations  # noqa: E402
from armulator.armv6.memory_controller_hub import MemoryController  # noqa: E402
from armulator.armv6.memory_types import RAM  # noqa: E402
from armulator.armv6.registers import RName  # noqa: E402

DEFAULT_CONFIG_PATH = os.path.join(os.path.dirname(_av6.__file__), 'arm_configurations.json')
DEFAULT_CONFIG = json.load(open(DEFAULT_CONFIG_PATH))

_cfg_paths = {}


def config_path(overrides=None):
    """write (once per process per distinct override set) a config file = default + overrides; return its path"""
    key = json.dumps(overrides or {}, sort_keys=True)
    p = _cfg_paths.get(key)
    if p is None:
        import hashlib
        d = os.path.join(os.environ.get('VERIF_WORK', os.path.join(ROOT, '.work')), 'cfg')
        os.makedirs(d, exist_ok=True)
        cfg = json.loads(json.dumps(DEFAULT_CONFIG))
        for k, v in (overrides or {}).items():
            if k == 'reset_values':
                cfg['reset_values'].update(v)
            else:
                cfg[k] = v
        body = json.dumps(cfg, sort_keys=True)
        p = os.path.join(d, hashlib.sha1(body.encode()).hexdigest()[:16] + '.json')
        if not os.path.exists(p):
            tmp = p + '.%d.tmp' % os.getpid()
            with open(tmp, 'w') as f:
                f.write(body)
            os.replace(tmp, p)
        _cfg_paths[key] = p
    return p


def load_config(overrides=None):
    configurations.load(config_path(overrides))


# ---------------------------------------------------------------------------------------------- hooked flavour
class HookedArmV6(ArmV6):
    """ArmV6 with the documented `# mock` extension points given the simplest faithful implementations."""

    def __init__(self, *a):
        super().__init__(*a)
        self.mon = None
        self.cplog = []
        self.cp_words = [0x11111111, 0x22222222]
        self.hints = []
        self.barriers = []          # (domain, types) of every DSB the core asked the memory system for: part of the compared state
        self.preloads = []          # (kind, address) of every preload hint handed to the memory system: likewise
        self.svcalls = []           # immediates of the supervisor calls made (CallSupervisor): likewise

    def call_supervisor(self, immediate):
        # an embedder's front end for supervisor calls (semihosting): it sees every call the core makes - and only those
        self.svcalls.append(immediate)
        return super().call_supervisor(immediate)

    def mark_exclusive_local(self, pa, pid, size):
        self.mon = (pa.physicaladdress, size)

    def mark_exclusive_global(self, pa, pid, size):
        pass

    def is_exclusive_local(self, pa, pid, size):
        return self.mon == (pa.physicaladdress, size)

    def is_exclusive_global(self, pa, pid, size):
        return True

    def clear_exclusive_local(self, pid):
        self.mon = None

    def remap_regs_have_reset_values(self):
        return True

    def tlb_lookup_came_from_cache_maintenance(self):
        return False

    def hint_preload_data(self, a):
        self.hints.append(('pld', a))
        self.preloads.append(('pld', a))

    def hint_preload_data_for_write(self, a):
        self.hints.append(('pldw', a))
        self.preloads.append(('pldw', a))

    def hint_yield(self):
        self.hints.append(('yield',))

    def send_event(self):
        self.registers.set_event_register(True)

    def data_synchronization_barrier(self, d, t):
        self.hints.append(('dsb',))
        self.barriers.append((getattr(d, 'name', str(d)), getattr(t, 'name', str(t))))

    def instruction_synchronization_barrier(self):
        self.hints.append(('isb',))

    def bkpt_instr_debug_event(self):
        self.hints.append(('bkpt',))

    def cpx_instr_decode(self, instr):
        return True

    def cp15_instr_decode(self, instr):
        return True

    def cp14_debug_instr_decode(self, instr):
        return True

    def cp14_trace_instr_decode(self, instr):
        return True

    def cp14_jazelle_instr_decode(self, instr):
        return True

    def instr_is_pl0_undefined(self, instr):
        # a deterministic stand-in for the IMPLEMENTATION DEFINED set of CP15 encodings that are UNDEFINED at PL0: those with opc2<0> = 1
        return bool((instr >> 5) & 1)

    def coproc_send_one_word(self, w, cp, instr):
        self.cplog.append(('send1', w, cp))

    def coproc_get_one_word(self, cp, instr):
        self.cplog.append(('get1', cp))
        return self.cp_words[0]

    def coproc_send_two_words(self, w2, w1, cp, instr):
        self.cplog.append(('send2', w2, w1, cp))

    def coproc_get_two_words(self, cp, instr):
        self.cplog.append(('get2', cp))
        return self.cp_words[1], self.cp_words[0]

    def coproc_internal_operation(self, cp, instr):
        self.cplog.append(('cdp', cp))

    def coproc_done_loading(self, cp, instr):
        self.cplog.append(('done_loading', cp))
        return True

    def coproc_done_storing(self, cp, instr):
        self.cplog.append(('done_storing', cp))
        return True

    def coproc_send_loaded_word(self, w, cp, instr):
        self.cplog.append(('ldc', w, cp))

    def coproc_get_word_to_store(self, cp, instr):
        self.cplog.append(('stc', cp))
        return self.cp_words[0]


class TransformRAM(RAM):
    """an embedder's device class: a RAM whose read() / write() are overridden (here: the bytes are kept inverted in a store of its own - think of a ROM
    image decoder, a mirrored or a recording RAM). To the processor it is a RAM like any other; `memory_array` of the base class stays what RAM made it."""

    def __init__(self, size):
        super().__init__(size)
        self.cells = bytearray(b'\xff' * size)

    def read(self, address, size):
        chunk = bytes(x ^ 0xFF for x in self.cells[address:address + size])
        return bytearray(chunk + bytes(size - len(chunk)))

    def write(self, address, size, value):
        data = bytes(value)[:max(self.size - address, 0)]
        self.cells[address:address + len(data)] = bytes(x ^ 0xFF for x in data)


def new_cpu(overrides=None, hooked=False, mems=None):
    """fresh instance for a config; mems = [(begin, size[, 'x'])] replaces the configured memory list ('x': an embedder-defined RAM subclass)"""
    p = config_path(overrides)
    cpu = (HookedArmV6 if hooked else ArmV6)(p)
    if mems is not None:
        cpu.mem.memories = [MemoryController((TransformRAM if len(m) > 2 and m[2] == 'x' else RAM)(m[1]), m[0], m[0] + m[1]) for m in mems]
    return cpu


RNAMES = {r.name: r for r in RName}
from vf.ref.snapshot_keys import KEYS  # noqa: E402
_IDX = __import__('re').compile(r'\[\d+\]')
_REG_KINDS = {}

# ---------------------------------------------------------------------------------------------- snapshot / apply
def snapshot(cpu, with_mem=True):
    """generic walk over vars(cpu.registers): a register added by a refactor is automatically under the frame check"""
    out = {}
    regs = cpu.registers
    kinds = _REG_KINDS.get(type(regs))
    if kinds is None:
        # which attributes are register objects in a freshly constructed Registers of this class: a step that replaces one of them by a plain
        # value (or vice versa) has corrupted the register file even if the value looks right
        kinds = _REG_KINDS[type(regs)] = {k for k, v in vars(regs).items() if isinstance(v, AbstractRegister)}      # first snapshot in a process is of a fresh instance
    for k, v in vars(regs).items():
        if k == 'changed_registers':
            continue
        if k in kinds and not isinstance(v, AbstractRegister):
            out[k] = 'TYPE-CHANGED:' + type(v).__name__
            continue
        if isinstance(v, (bool, int)):
            out[k] = v
        elif isinstance(v, AbstractRegister):
            out[k] = v.value
        elif isinstance(v, dict):
            if k == '_R':                    # the core register file; other dictionaries (look-up tables, caches a refactor adds) are not state of their own
                for kk, vv in v.items():
                    out['R.' + kk.name] = vv
        elif isinstance(v, list):
            for i, e in enumerate(v):
                out['%s[%d]' % (k, i)] = e.value if isinstance(e, AbstractRegister) else e
    if not any(k.startswith('R.') for k in out):
        # the core register file is not an instance attribute (any more): read it where the accessors read it, so that the comparison still sees it
        for kk, vv in getattr(regs, '_R', {}).items():
            out['R.' + kk.name] = vv
    if hasattr(cpu, 'cplog'):
        out['cplog'] = tuple(cpu.cplog)
    if hasattr(cpu, 'barriers'):
        out['barriers'] = tuple(cpu.barriers)
    if hasattr(cpu, 'preloads'):
        out['preloads'] = tuple(cpu.preloads)
    if hasattr(cpu, 'svcalls'):
        out['svcalls'] = tuple(cpu.svcalls)
    if hasattr(cpu, 'mon'):
        out['excl'] = tuple(cpu.mon) if cpu.mon else None        # local exclusive monitor of the hooked flavour
    out['wfe'] = cpu.is_wait_for_event
    out['wfi'] = cpu.is_wait_for_interrupt
    # only architectural state (the register-file attributes of the pinned tree, vf/ref/snapshot_keys.py): an attribute added later - a cache, a counter, a
    # consumed-flag - is implementation detail; the checks judge what it does to the architectural state, not its own value
    out = {k: v for k, v in out.items() if k in KEYS or _IDX.sub('[]', k) in KEYS}
    if with_mem:
        for i, mc in enumerate(cpu.mem.memories):
            out['mem%d' % i] = mem_bytes(mc.mem)
    return out


def mem_bytes(mem):
    """contents of a memory device: its backing bytearray where the device keeps one as an instance attribute (so that a change of its length shows),
    the device's own read() otherwise (an implementation may store its bytes any way it likes)"""
    if type(mem) is RAM and isinstance(vars(mem).get('memory_array'), bytearray):
        return bytes(mem.memory_array)
    return bytes(mem.read(0, mem.size))


def mem_fill(mem, offset, data):
    """what an embedder does to load an image: through the backing bytearray if there is one, else through the device's write()"""
    arr = vars(mem).get('memory_array')
    if type(mem) is RAM and isinstance(arr, bytearray):
        arr[offset:offset + len(data)] = data
    else:
        for o in range(0, len(data), 4096):
            chunk = data[o:o + 4096]
            mem.write(offset + o, len(chunk), chunk)


def apply_state(cpu, state):
    """state: dict in snapshot key space (any subset); overwrites those locations"""
    regs = cpu.registers
    R = regs._R
    for k, v in state.items():
        if k.startswith('R.'):
            R[RNAMES[k[2:]]] = v
        elif k.startswith('mem'):
            mem_fill(cpu.mem.memories[int(k[3:])].mem, 0, bytes(v))
        elif k == 'cplog':
            cpu.cplog = list(v)
        elif k == 'barriers':
            if hasattr(cpu, 'barriers'):
                cpu.barriers = [tuple(x) for x in v]
        elif k == 'preloads':
            if hasattr(cpu, 'preloads'):
                cpu.preloads = [tuple(x) for x in v]
        elif k == 'svcalls':
            if hasattr(cpu, 'svcalls'):
                cpu.svcalls = list(v)
        elif k == 'excl':
            if hasattr(cpu, 'mon'):
                cpu.mon = tuple(v) if v else None
        elif k == 'wfe':
            cpu.is_wait_for_event = v
        elif k == 'wfi':
            cpu.is_wait_for_interrupt = v
        elif k.endswith(']'):
            name, idx = k[:-1].split('[')
            lst = getattr(regs, name)
            e = lst[int(idx)]
            if isinstance(e, AbstractRegister):
                e.value = v
            else:
                lst[int(idx)] = v
        else:
            cur = getattr(regs, k)
            if isinstance(cur, AbstractRegister):
                cur.value = v
            else:
                setattr(regs, k, v)


def poke(cpu, addr, data):
    """write bytes at a physical address into whichever device holds them (first match), byte by byte"""
    for i, b in enumerate(data):
        a = (addr + i) & 0xFFFFFFFF
        for mc in cpu.mem.memories:
            if mc.beginning <= a < mc.end:
                mem_fill(mc.mem, a - mc.beginning, bytes((b,)))
                break


def step(cpu):
    """one emulate_cycle(); returns None or the escaping exception object"""
    try:
        cpu.emulate_cycle()
        return None
    except RecursionError as e:
        return e
    except Exception as e:
        return e


def exc_site(e):
    """(type name, innermost armulator 'dir/module.function') for bucketing an escaping exception"""
    import traceback
    tb = traceback.extract_tb(e.__traceback__)
    site = '?'
    for fr in tb:
        if '/armulator/' in fr.filename:
            parts = fr.filename.split('/')
            site = parts[-2] + '/' + parts[-1][:-3] + '.' + fr.name
    return type(e).__name__, site


MOCK_SITES = {'armv6/arm_v6.' + n for n in (
    'tlb_lookup_came_from_cache_maintenance', 'remap_regs_have_reset_values', 'bkpt_instr_debug_event', 'hint_yield', 'send_event',
    'cpx_instr_decode', 'cp15_instr_decode', 'cp14_debug_instr_decode', 'cp14_trace_instr_decode', 'cp14_jazelle_instr_decode',
    'instr_is_pl0_undefined', 'coproc_get_word_to_store', 'coproc_done_storing', 'coproc_done_loading', 'coproc_send_loaded_word',
    'coproc_send_two_words', 'coproc_get_two_words', 'coproc_internal_operation', 'coproc_send_one_word', 'coproc_get_one_word',
    'hint_preload_data_for_write', 'hint_preload_data', 'data_synchronization_barrier', 'instruction_synchronization_barrier',
    'switch_to_jazelle_execution')} | {'armv6/memory_controller_hub.set_bits', 'abstract_opcodes/bxj.execute'}


def escape_ok(e):
    """is this escaping exception one of the documented 'not implemented' outcomes (DESIGN.md appendix A.7)?"""
    if not isinstance(e, NotImplementedError):
        return False
    _, site = exc_site(e)
    return site in MOCK_SITES or (site.startswith('decoders/') and site.endswith('.decode_instruction'))


# ---------------------------------------------------------------------------------------------- access budget
class HangDetected(BaseException):
    """raised when one step performs more hub accesses than any terminating instruction can (deterministic budget)"""


from armulator.armv6.memory_controller_hub import MemoryControllerHub  # noqa: E402


class BudgetHub(MemoryControllerHub):
    BUDGET = 4096

    def __init__(self, memories):
        super().__init__()
        self.memories = memories
        self.count = 0

    def __getitem__(self, k):
        self.count += 1
        if self.count > self.BUDGET:
            raise HangDetected('hub access budget exceeded')
        return super().__getitem__(k)

    def __setitem__(self, k, v):
        self.count += 1
        if self.count > self.BUDGET:
            raise HangDetected('hub access budget exceeded')
        return super().__setitem__(k, v)


class HookedHub(BudgetHub):
    def set_bits(self, memaddrdesc, size, ind, amount, bits):
        cur = MemoryControllerHub.__getitem__(self, (memaddrdesc, size))
        mask = ((1 << amount) - 1) << ind
        MemoryControllerHub.__setitem__(self, (memaddrdesc, size), (cur & ~mask) | ((bits << ind) & mask))


def budget_cpu(cpu, hooked=False):
    cpu.mem = (HookedHub if hooked else BudgetHub)(cpu.mem.memories)
    return cpu


def step_budget(cpu):
    cpu.mem.count = 0
    try:
        cpu.emulate_cycle()
        return None
    except HangDetected as e:
        return e
    except Exception as e:
        return e
