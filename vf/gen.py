"""Generators for machine states, configurations and memory layouts (seeded random.Random; the seed itself comes from
Hypothesis-drawn entropy or from the shard seed).  Every generated state satisfies DESIGN.md section 3.2 rule 5."""

M32 = 0xFFFFFFFF
CORNERS = [0, 1, 2, 3, 4, 0x7F, 0x80, 0xFF, 0x100, 0x7FFF, 0x8000, 0xFFFF, 0x10000, 0x7FFFFFFF, 0x80000000, 0xFFFFFFFE,
           0xFFFFFFFF, 0x7F7F7F7F, 0x80808080, 0x7FFF8000, 0x80007FFF, 0xFF00FF00, 0x00FF00FF, 0x55555555, 0xAAAAAAAA,
           31, 32, 33, 0xFFFFFFFC, 0xFFFFFFF8, 8, 0x40000000]

MODES = {'usr': 0b10000, 'fiq': 0b10001, 'irq': 0b10010, 'svc': 0b10011, 'mon': 0b10110, 'abt': 0b10111, 'hyp': 0b11010,
         'und': 0b11011, 'sys': 0b11111}
MODE_NAME = {v: k for k, v in MODES.items()}

CORE_KEYS = ['R.R%dusr' % i for i in range(13)] + ['R.R%dfiq' % i for i in range(8, 13)] + \
    ['R.SP' + m for m in ('usr', 'fiq', 'irq', 'svc', 'abt', 'und', 'mon', 'hyp')] + \
    ['R.LR' + m for m in ('usr', 'fiq', 'irq', 'svc', 'abt', 'und', 'mon')]
SPSR_KEYS = ['spsr_' + m for m in ('hyp', 'svc', 'abt', 'und', 'mon', 'irq', 'fiq')]


def valid_modes(cfg):
    ms = ['usr', 'fiq', 'irq', 'svc', 'abt', 'und', 'sys']
    if cfg.get('have_security_ext', True):
        ms.append('mon')
    if cfg.get('have_virt_ext', False):
        ms.append('hyp')
    return ms


def bank_key(n, mode):
    """snapshot key of core register n (0..14) as seen from mode (name)"""
    if n < 8:
        return 'R.R%dusr' % n
    if n < 13:
        return 'R.R%d%s' % (n, 'fiq' if mode == 'fiq' else 'usr')
    if n == 13:
        return 'R.SP' + ('usr' if mode in ('usr', 'sys') else mode)
    return 'R.LR' + ('usr' if mode in ('usr', 'sys', 'hyp') else mode)


def val32(rng, ptrs=()):
    r = rng.random()
    if r < 0.35:
        return rng.choice(CORNERS)
    if r < 0.55 and ptrs:
        return (rng.choice(ptrs) + rng.choice((0, 0, 0, 1, 2, 3, 4, -1, -2, -4, -8, 8, 16, 0x20, -0x20))) & M32
    return rng.getrandbits(32)


def it_states():
    """all ITSTATE values reachable after an IT instruction (any advance), incl. 0"""
    out = {0}
    for fc in range(15):
        for mask in range(1, 16):
            if fc == 14 and bin(mask).count('1') != 1:
                continue            # IT with AL and an 'else' is UNPREDICTABLE
            it = (fc << 4) | mask
            while it & 0xF:
                out.add(it)
                it = 0 if (it & 7) == 0 else (it & 0xE0) | ((it << 1) & 0x1F)
    return sorted(out)


IT_STATES = it_states()


def cpsr_value(nzcvq=0, ge=0, it=0, e=0, a=0, i=0, f=0, t=0, m=0b10011, j=0):
    return ((nzcvq & 31) << 27) | ((it & 3) << 25) | (j << 24) | ((ge & 15) << 16) | ((it >> 2) << 10) | (e << 9) | (a << 8) | \
        (i << 7) | (f << 6) | (t << 5) | m


def gen_cpsr(rng, cfg, thumb, mode=None, it=None, e=None):
    if mode is None or mode not in valid_modes(cfg):
        mode = rng.choice(valid_modes(cfg))          # (a requested mode the configuration does not have falls back to a random valid one)
    if it is None:
        it = rng.choice(IT_STATES) if (thumb and rng.random() < 0.4) else 0
    if not thumb:
        it = 0
    if e is None:
        e = 1 if rng.random() < 0.15 else 0
    return cpsr_value(rng.getrandbits(5), rng.getrandbits(4), it, e, rng.getrandbits(1), rng.getrandbits(1), rng.getrandbits(1),
                      1 if thumb else 0, MODES[mode])


def gen_spsr(rng, cfg):
    thumb = rng.getrandbits(1)
    return gen_cpsr(rng, cfg, thumb, mode=rng.choice(valid_modes(cfg)))


def gen_core(rng, ptrs=()):
    st = {k: val32(rng, ptrs) for k in CORE_KEYS}
    for k in st:
        if k.startswith('R.SP') and rng.random() < 0.8:
            st[k] &= ~3
    return st


def gen_mpu(rng, nregions, ptrs=()):
    """MPU region registers by construction (sizes 4 bytes .. 4 GiB, aligned bases, overlapping / nested)"""
    st = {}
    bases = list(ptrs) + [0, 0x80000000, 0xFFFF0000]
    for r in range(nregions):
        en = 1 if rng.random() < 0.7 else 0
        rsize = rng.choice((1, 2, 4, 7, 8, 9, 11, 15, 16, 19, 27, 30, 31))
        sd = rng.getrandbits(8) if rng.random() < 0.5 else 0
        size_bits = rsize + 1
        base = (rng.choice(bases) + rng.choice((0, 0, 1, -1)) * (1 << min(size_bits, 31))) & M32
        if size_bits < 32:
            base &= ~((1 << size_bits) - 1) & M32
        else:
            base = 0
        st['drsrs[%d]' % r] = (sd << 8) | (rsize << 1) | en
        st['drbars[%d]' % r] = base
        ap = rng.choice((0, 1, 2, 3, 3, 3, 5, 6))
        st['dracrs[%d]' % r] = (rng.getrandbits(1) << 12) | (ap << 8) | (rng.choice((0, 1, 2, 4, 5)) << 3) | rng.getrandbits(3)
    return st


def gen_sysregs(rng, cfg, thumb_entry=None):
    """system registers relevant to stepping on a PMSA/VMSA config; MPU/MMU off unless the caller turns them on"""
    st = {}
    sctlr = 0
    sctlr |= (rng.getrandbits(1) << 1)        # A
    arch = cfg.get('arch_version', 6)
    sctlr |= ((rng.getrandbits(1) if arch == 6 else (1 if arch >= 7 else 0)) << 22)       # U: v6 only; RAO on v7, absent before v6
    sctlr |= ((1 if rng.random() < 0.25 else 0) << 13)   # V
    te = rng.getrandbits(1) if thumb_entry is None else thumb_entry
    sctlr |= te << 30
    sctlr |= ((1 if rng.random() < 0.2 else 0) << 25)    # EE
    sctlr |= ((1 if rng.random() < 0.2 else 0) << 27)    # NMFI
    st['sctlr'] = sctlr
    if cfg.get('have_security_ext', True):
        st['scr'] = rng.getrandbits(6) & 0b111110 if rng.random() < 0.5 else 0      # NS=0 mostly handled by caller
        st['vbar'] = (rng.choice((0, 0x8000, 0x20000, 0xFFFF0000)) & ~31) & M32
        st['mvbar'] = (rng.choice((0, 0x8000, 0x20000)) & ~31) & M32
    return st


class Layout:
    """memory devices of a case: list of (begin, size)"""

    def __init__(self, devs):
        self.devs = list(devs)

    def ptrs(self):
        out = []
        for b, s in self.devs:
            out += [b, (b + s) & M32, (b + s // 2) & M32]
        return out


def std_layout(code_base, code_size=0x100, extra=()):
    devs = [(code_base, code_size)]
    if not (code_base <= 0 < code_base + code_size):
        devs.append((0, 0x80))                      # vectors (VBAR=0 / V=0)
    devs += list(extra)
    return Layout(devs)


# ---------------------------------------------------------------------------------------------- whole cases
CONFIGS = {
    'v6': {},
    'v7': {'arch_version': 7},
    'v5': {'arch_version': 5},
    'v4': {'arch_version': 4},
    'v6-nosec': {'have_security_ext': False},
    'v7r': {'arch_version': 7, 'is_armv7r_profile': True, 'have_security_ext': False},
    'v7-vmsa': {'arch_version': 7, 'memory_system_architecture': 'VMSA'},
    'v6-vmsa': {'memory_system_architecture': 'VMSA'},
    'v7-lpae': {'arch_version': 7, 'memory_system_architecture': 'VMSA', 'have_lpae': True},
    'v7-virt': {'arch_version': 7, 'memory_system_architecture': 'VMSA', 'have_lpae': True, 'have_virt_ext': True, 'have_mp_ext': True},
    'v7-tee': {'arch_version': 7, 'have_thumbee': True},
    # the other values of the IMPLEMENTATION DEFINED choices about HSR.CV / COND for trapped Thumb instructions
    'v7-virt-hsr': {'arch_version': 7, 'memory_system_architecture': 'VMSA', 'have_lpae': True, 'have_virt_ext': True, 'have_mp_ext': True,
                    'write_hsr_hsr_value_24': True, 'write_hsr_23_22_cond': False},
    'v7-virt-hsr2': {'arch_version': 7, 'memory_system_architecture': 'VMSA', 'have_lpae': True, 'have_virt_ext': True, 'write_hsr_hsr_value_24': True, 'write_hsr_23_22_cond': True,
                     'number_of_mpu_regions': 8, 'processor_id': 3, 'coproc_accepted_pl0_undefined': False},
    'v7-vfp': {'arch_version': 7, 'have_adv_simd_or_vfp': True},
    'v7-mp': {'arch_version': 7, 'have_mp_ext': True},
    'v7-jz': {'arch_version': 7, 'have_jazelle': True, 'jazelle_accepts_execution': True},
    'v6-jz': {'have_jazelle': True},
    # implementation-defined vectors at address 0 / an odd place (SCTLR.VE = 1 uses them for IRQ / FIQ; the reset vector when the configuration says so)
    # reset values given by the configuration file for registers the shipped file leaves at zero (the file format allows any register class): the CPSR
    # comes out of construction already naming a banked mode, SCR / TTBCR / DACR with bits set
    'v6-rst': {'reset_values': {'CPSR': '0x000001D3', 'SCR': '0x00000030', 'CPACR': '0x00F00000'}},
    'v7-rst': {'arch_version': 7, 'memory_system_architecture': 'VMSA', 'reset_values': {'CPSR': '0x000001D2', 'DACR': '0x55555555', 'TTBCR': '0x00000002'}},
    'v6-vec': {'impdef_irq_vector': 0, 'impdef_fiq_vector': 0, 'has_imp_def_reset_vector': True, 'impdef_reset_vector': 0x2000},
}
CODE_BASES = [0x8000, 0x8000, 0x8000, 0, 0xFFFF0000, 0xFFFFFF00, 0x7FFFFF80]
DATA = (0x20000, 0x100)
DATA2 = (0x20100, 0x40)


def force_stage2(rng, st):
    """HCR.VM = 1 with a valid VTCR / VTTBR (Non-secure PL1&0 accesses go through the stage-2 walk; its table is whatever the data device holds, so
    stage-2 faults - reported with the instruction syndrome of the executing load / store - are the usual outcome)"""
    st['hcr'] = (st.get('hcr', 0) | 1) & ~(1 << 27)
    sl0 = rng.getrandbits(1)
    t0sz = rng.randrange(-2, 8) if sl0 == 0 else rng.randrange(-8, 2)
    st['vtcr'] = (rng.getrandbits(6) << 8) | (sl0 << 6) | ((1 if t0sz < 0 else 0) << 4) | (t0sz & 15)
    st['vttbr'] = DATA[0] & ~0xFF
    st['scr'] = st.get('scr', 0) | 1


S2_TABLES = (0x50000, 0x3000)


def stage2_map(rng, case, extra_pages=(), keep_stage1=False):
    """a valid three-level stage-2 table (VTCR.SL0 = 1, T0SZ = 0: 32-bit IPA space) that identity-maps the pages holding the vectors and the code
    read/write and gives the data pages a generated fate - unmapped, no access, read-only, access flag clear, or read/write - so that the instruction
    is fetched and its own data access takes the stage-2 fault (reported to Hyp mode with the load/store instruction syndrome)"""
    st = case['state']
    base = S2_TABLES[0]
    case['mems'].append(list(S2_TABLES))
    ent = {}

    def page(pa, hap, af=1):
        return (pa & 0xFFFFF000) | (af << 10) | (3 << 8) | (hap << 6) | (0xF << 2) | 3
    ent[base] = (base + 0x1000) | 3                       # level 1, entry 0 -> level-2 table
    ent[base + 0x1000] = (base + 0x2000) | 3              # level 2, entry 0 -> level-3 table (first 2 MiB)
    code_page = (st['R.PC'] >> 12) & 0x1FF
    for pg in {0, code_page, (code_page + 1) & 0x1FF, base >> 12, (base >> 12) + 1, (base >> 12) + 2} | set(extra_pages):
        ent[base + 0x2000 + 8 * pg] = page(pg << 12, 3)
    fate = rng.choice(('invalid', 'noaccess', 'readonly', 'af0', 'rw', 'invalid', 'readonly'))
    for pg in (DATA[0] >> 12, (DATA[0] >> 12) + 1):
        if pg == code_page:
            continue
        if fate != 'invalid':
            ent[base + 0x2000 + 8 * pg] = page(pg << 12, {'noaccess': 0, 'readonly': 1, 'af0': 3, 'rw': 3}[fate], af=0 if fate == 'af0' else 1)
    big = (st.get('hsctlr', 0) >> 25) & 1                # stage-2 descriptors are read with the endianness HSCTLR.EE selects
    for a, d in sorted(ent.items()):
        case['poke'].append([a, d.to_bytes(8, 'big' if big else 'little').hex()])
    st['hcr'] = (st.get('hcr', 0) | 1) & ~(1 << 27)
    st['vtcr'] = (rng.getrandbits(6) << 8) | (1 << 6)
    st['vttbr'] = base
    st['scr'] = st.get('scr', 0) | 1
    if not keep_stage1:
        st['sctlr'] = st.get('sctlr', 0) & ~1             # stage 1 off: IPA = VA
    return fate


def step_case(rng, cfgname, thumb, code, mode=None, it=None, e=None, code_base=None, mpu=None, mmu=None, steps=1, hooked=False,
              pc_off=0, ns=None, pc_top=False):
    """a complete case: config, layout (code, vectors, data), random valid state, `code` bytes at PC"""
    from vf import e1
    cfg = CONFIGS[cfgname]
    if code_base is None:
        code_base = rng.choice(CODE_BASES)
    devs = [(code_base, 0x100)]
    if code_base != 0:
        devs.append((0, 0x80))
    if code_base != 0xFFFF0000 and code_base != 0xFFFFFF00:
        devs.append((0xFFFF0000, 0x40))
    # a second device abuts the data device: accesses that run off its end continue in another device. The boundary is not always at a multiple of 4 / 8:
    # devices of odd sizes are legal, and an aligned access can then straddle two devices
    d1 = DATA[1] + rng.choice((0, 0, 0, 0, 0, 1, 2, 3, 5, -1, -2, -3, 4, -4, -4))
    devs.append((DATA[0], d1))
    devs.append((DATA[0] + d1, DATA2[1]))
    if rng.random() < 0.04:
        # a large device (128 KiB and a bit) whose beginning is not a multiple of the access size: whatever granule an implementation stores it in,
        # aligned accesses inside it cross that granule's boundaries
        devs.append((0x30000 + rng.choice((1, 2, 3, 5, 6)), 0x20000 + rng.choice((0, 3, 0x100))))
    ptrs = [DATA[0], DATA[0] + DATA[1], DATA[0] + 0x80, code_base, code_base + 0x100, 0, 0xFFFFFFFC]
    st = gen_core(rng, ptrs)
    pc = (code_base + 0x40 + pc_off) & M32
    if pc_top and code_base == 0xFFFFFF00:
        # the instruction sits in the last bytes of the address space: PC + 8 / PC + 4 and the next-instruction address wrap through 2^32
        pc = (1 << 32) - (rng.choice((4, 8)) if not thumb else rng.choice((2, 4, 6, 8)))
    st['R.PC'] = pc
    st['cpsr'] = gen_cpsr(rng, cfg, thumb, mode, it, e)
    if cfg.get('have_thumbee') and thumb and rng.random() < 0.6:
        # ThumbEE state (J:T = 1:1): loads / stores null-check their base register and branch to the handler at TEEHBR - 4. Not modelled by the reference
        # (excluded from exact comparison); totality, the 32-bit range invariant and privilege confinement still apply
        st['cpsr'] |= 1 << 24
        st['teehbr'] = rng.choice((0, 0, 4, 0x8100, 0xFFFFFFFC, code_base + 0x80)) & ~3
    for k in SPSR_KEYS:
        st[k] = gen_spsr(rng, cfg)
    st['elr_hyp'] = val32(rng, ptrs)
    st.update(gen_sysregs(rng, cfg))
    pmsa = cfg.get('memory_system_architecture', 'PMSA') == 'PMSA'
    if cfg.get('have_security_ext', True):
        if ns is None:
            ns = rng.random() < 0.3
        if ns:
            st['scr'] = st.get('scr', 0) | 1
        if (st['cpsr'] & 31) == MODES['hyp']:
            st['scr'] = st.get('scr', 0) | 1        # Hyp mode exists only in Non-secure state
        st['nsacr'] = rng.getrandbits(14) | (rng.getrandbits(1) << 19)
    st['cpacr'] = rng.getrandbits(28)
    if pmsa:
        if mpu is None:
            mpu = rng.random() < 0.35
        nreg = DEFAULT_MPU_REGIONS
        st['mpuir'] = rng.choice((nreg, nreg, 4, 1, 0)) << 8
        st.update(gen_mpu(rng, nreg, ptrs))
        if mpu:
            st['sctlr'] |= 1 | (rng.getrandbits(1) << 17)
            if rng.random() < 0.7:      # a permissive top-priority region so most cases get past fetch
                st['drsrs[%d]' % (nreg - 1)] = (31 << 1) | 1
                st['drbars[%d]' % (nreg - 1)] = 0
                st['dracrs[%d]' % (nreg - 1)] = 3 << 8
                st['mpuir'] = nreg << 8
    else:
        if mmu is None:
            mmu = rng.random() < 0.35
        st['dacr'] = rng.getrandbits(32)
        st['ttbcr'] = rng.choice((0, 0, 1, 2, 7, 0x10, 0x20)) | ((1 << 31) if cfg.get('have_lpae') and rng.random() < 0.4 else 0)
        st['ttbr0_64'] = DATA[0] | rng.getrandbits(3)
        st['ttbr1_64'] = DATA[0] + 0x80
        st['fcseidr'] = (1 << 25) if rng.random() < 0.04 else 0
        if mmu:
            st['sctlr'] |= 1 | (rng.getrandbits(1) << 28) | (rng.getrandbits(1) << 29)
        if cfg.get('have_virt_ext'):
            st['hcr'] = rng.getrandbits(28) & ~1 if rng.random() < 0.5 else 0
            if rng.random() < 0.25:
                st['hcr'] |= 1                      # HCR.VM: stage 2 translation (reference: excluded; totality / confinement checks still apply)
                st['vttbr'] = DATA[0] | rng.getrandbits(3) << 3
                sl0 = rng.getrandbits(1)                 # valid combinations only: SL0=0 -> T0SZ in -2..7, SL0=1 -> T0SZ in -8..1 (else UNPREDICTABLE)
                t0sz = rng.randrange(-2, 8) if sl0 == 0 else rng.randrange(-8, 2)
                st['vtcr'] = (rng.getrandbits(6) << 8) | (sl0 << 6) | ((1 if t0sz < 0 else 0) << 4) | (t0sz & 15)
                st['vttbr'] = DATA[0] & ~0xFF
            st['hsctlr'] = (rng.getrandbits(1) << 30) | (rng.getrandbits(1) << 25) | (rng.getrandbits(1) << 1)
            if rng.random() < 0.3:
                # the Hyp-mode MMU on (PL2 stage-1 regime; long descriptors through HTTBR / HTCR): the reference does not model this regime, the
                # totality / confinement / determinism checks do run in it
                st['hsctlr'] |= 1
                st['httbr'] = DATA[0] | (rng.getrandbits(2) << 5)
                st['htcr'] = rng.choice((0, 0, 1, 2, 4, 7)) | (rng.getrandbits(6) << 8)
                st['hmair0'] = rng.getrandbits(32)
                st['hmair1'] = rng.getrandbits(32)
            st['hvbar'] = 0x8000
            st['hcptr'] = rng.getrandbits(14) | (rng.getrandbits(1) << 20) | (rng.getrandbits(1) << 31)      # TCP0..13, TTA, TCPAC
            st['hstr'] = rng.getrandbits(18)                                                               # T0..T15, TTEE, TJDBX
    if cfg.get('have_jazelle') and rng.random() < 0.6:
        st['jmcr'] = 1                          # JMCR.JE: Jazelle enabled by software after reset (BXJ then leaves for Jazelle state instead of acting as BX)
    if rng.random() < 0.25:
        st['event_register'] = True             # an event sent by another observer before this step (SEV elsewhere / send_event_local)
    poke = [(pc, code)]
    for b_, sz_ in devs:
        if sz_ >= 0x20000:
            for at in ((b_ + 0x10000) & ~0xFFFF, b_ + 0x10000, (b_ + 0x20000) & ~0xFFFF, (b_ + 0x1000) & ~0xFFF):
                poke.append((at - 0x10, bytes(rng.getrandbits(8) | 1 for _ in range(0x20))))
    # something recognisable in the data device and at the vectors
    poke.append((DATA[0], bytes((rng.getrandbits(8) for _ in range(DATA[1])))))
    case = e1.make_case(cfg, devs, st, poke, steps, hooked)
    if rng.random() < 0.03:
        # the data device is an instance of an embedder-defined RAM subclass that overrides read() / write(): the processor reaches it through those
        for m_ in case['mems']:
            if m_[0] == DATA[0]:
                m_.append('x')
    return case


DEFAULT_MPU_REGIONS = 12


def CONFIGS_FULL(overrides):
    """config overrides -> dict with the defaults that valid_modes() reads"""
    c = {'have_security_ext': True, 'have_virt_ext': False}
    c.update(overrides or {})
    return c
