"""C16 — memory hub: accesses touch exactly the mapped device bytes, never resize / spill / raise host errors.

Hypothesis RuleBasedStateMachine over MemoryControllerHub with a byte-array-per-device model and the first-match rule,
plus a deterministic edge sweep (every address around every device boundary x every size) that needs no library.
"""
import random
import hypothesis
from hypothesis import settings, strategies as st, HealthCheck, Phase
from hypothesis.stateful import RuleBasedStateMachine, rule, invariant, initialize, run_state_machine_as_test

from vf import target  # noqa: F401  (silences stdout, pins armulator import)
from vf.runner import Acc, h64

from armulator.armv6.address_descriptor import AddressDescriptor
from armulator.armv6.memory_controller_hub import MemoryControllerHub

SIZES = (1, 2, 4, 8)
# physical addresses are 40 bits wide (supersection / LPAE output addresses): devices below, across and above 4 GiB
ANCHORS = [0, 0x10, 0x40, 0x1000, 0x7FFFFFE0, 0xFFFFFFC0, 0xFFFFFFF0, 1 << 32, (1 << 32) + 0x40, 0xFF_FFFF_FFC0, 0x12_0000_0000]
PA_MASK = (1 << 40) - 1
# 1-5 devices anywhere, or (one layout in four) a longer map of 6-12 devices laid out from one anchor - implementations that switch lookup strategy with
# the number of controllers (sorted index, bisection) only show their corner cases on long maps
layout_st = st.one_of(
    st.lists(st.tuples(st.sampled_from(ANCHORS), st.integers(0, 0x24), st.integers(1, 70)), min_size=1, max_size=5),
    st.lists(st.tuples(st.sampled_from(ANCHORS), st.integers(0, 0x24), st.integers(1, 70)), min_size=1, max_size=5),
    st.lists(st.tuples(st.sampled_from(ANCHORS), st.integers(0, 0x24), st.integers(1, 70)), min_size=1, max_size=5),
    st.tuples(st.sampled_from(ANCHORS), st.integers(1, 0x40), st.lists(st.tuples(st.integers(1, 24), st.integers(0, 9)), min_size=6, max_size=12)).map(
        lambda t: _chain(*t)))


def _chain(anchor, first, parts):
    out, off = [], first
    for size, gap in parts:
        out.append((anchor, off, size))
        off += size + gap
    return out


class Violation(Exception):
    pass


class Model:
    """reference: list of (begin, end, bytearray); first match wins"""

    def __init__(self, lay):
        self.devs = []
        for anchor, off, size in lay:
            b = (anchor + off) & PA_MASK
            e = min(b + size, 1 << 40)
            self.devs.append((b, e, bytearray(e - b)))

    def find(self, a):
        for i, (b, e, m) in enumerate(self.devs):
            if b <= a < e:
                return i
        return None


def build_hub(model):
    hub = MemoryControllerHub()
    for b, e, _ in model.devs:
        hub.add_memory('RAM', b, e)
    return hub


def desc(a):
    d = AddressDescriptor()
    d.paddress.physicaladdress = a
    return d


def check_state(hub, model, allow=None):
    """sizes unchanged, every byte equals the model except `allow` = (dev index, lo, hi, alternative bytes)"""
    for i, (mc, (b, e, m)) in enumerate(zip(hub.memories, model.devs)):
        arr = mc.mem.memory_array
        if len(arr) != e - b:
            raise Violation('resized: device %d [%#x,%#x) now has %d bytes' % (i, b, e, len(arr)))
        if bytes(arr) != bytes(m):
            if allow and allow[0] == i:
                _, lo, hi, alt = allow
                m2 = bytearray(m)
                m2[lo:hi] = alt
                if bytes(arr) == bytes(m2):
                    m[lo:hi] = alt          # the in-device part of an overhanging write was performed: adopt
                    continue
            k = next(j for j in range(e - b) if arr[j] != m[j])
            raise Violation('device %d byte +%d is %#x, model %#x' % (i, k, arr[k], m[k]))


def do_op(hub, model, op):
    """apply op to hub and model; raises Violation on any disagreement. returns class label"""
    kind, a, size, value = op
    i = model.find(a)
    try:
        if kind == 'w':
            hub[desc(a), size] = value
        else:
            got = hub[desc(a), size]
    except Exception as ex:
        raise Violation('host error %s: %s on %s' % (type(ex).__name__, ex, op))
    label = 'unmapped' if i is None else 'inside'
    allow = None
    if i is None:
        if kind == 'r' and got != 0:
            raise Violation('unmapped read returned %#x' % got)
    else:
        b, e, m = model.devs[i]
        n = min(size, e - a)
        if n < size:
            label = 'overhang'
        raw = value.to_bytes(size, 'little') if kind == 'w' else None
        if kind == 'w':
            if n == size:
                m[a - b:a - b + n] = raw
            else:
                allow = (i, a - b, a - b + n, raw[:n])    # the property does not say whether the in-device part is written
        else:
            if not isinstance(got, int) or not (0 <= got < 1 << (8 * size)):
                raise Violation('read returned out-of-range %r' % (got,))
            # the bytes that exist in the device appear little-endian at the low end of the value, also when the access runs past the device end
            # (what the missing bytes read as is not specified by the property and not checked)
            if got.to_bytes(size, 'little')[:n] != bytes(m[a - b:a - b + n]):
                raise Violation('read %s returned %#x, model %s' % (op, got, bytes(m[a - b:a - b + n]).hex()))
    check_state(hub, model, allow)
    if i is not None and (e - a) <= 8:
        label += '+near-end'
    return label


CURRENT = {}


def make_machine(acc):
    class HubMachine(RuleBasedStateMachine):
        @initialize(lay=layout_st)
        def init(self, lay):
            self.lay = [list(x) for x in lay]
            self.model = Model(lay)
            self.hub = build_hub(self.model)
            self.hist = []
            self.labels = set()
            pts = set()
            for b, e, _ in self.model.devs:
                for d in range(-9, 3):
                    pts.add((b + d) & PA_MASK)
                    pts.add((e + d) & PA_MASK)
            pts |= {0, 0xFFFFFFFF, 0xFFFFFFF8, 1 << 32, (1 << 32) + 4, 0x80000000, PA_MASK, PA_MASK - 7}
            self.addrs = sorted(pts)
            CURRENT['case'] = {'layout': self.lay, 'ops': self.hist}

        def _addr(self, data):
            if data.draw(st.integers(0, 9)) == 0:
                return data.draw(st.integers(0, PA_MASK))
            return data.draw(st.sampled_from(self.addrs))

        @rule(data=st.data(), size=st.sampled_from(SIZES), value=st.integers(0, 2 ** 64 - 1).map(lambda x: (x * 0x9E3779B97F4A7C15 + 0x1234567) & (2 ** 64 - 1)))
        def write(self, data, size, value):
            a = self._addr(data)
            op = ('w', a, size, value & ((1 << (8 * size)) - 1))
            self.hist.append(list(op))
            self.labels.add(do_op(self.hub, self.model, op))

        @rule(data=st.data(), size=st.sampled_from(SIZES))
        def read(self, data, size):
            a = self._addr(data)
            op = ('r', a, size, 0)
            self.hist.append(list(op))
            self.labels.add(do_op(self.hub, self.model, op))

        def teardown(self):
            if not hasattr(self, 'hist'):
                return
            devs = self.model.devs
            multi = len(devs) >= 2 and any(devs[i][0] <= devs[j][1] and devs[j][0] <= devs[i][1]
                                           for i in range(len(devs)) for j in range(i))
            nontriv = any('near-end' in l or 'overhang' in l for l in self.labels) or multi
            for l in self.labels:
                acc.cls('history-with-' + l)
            acc.case(nontriv, ('h', self.lay, self.hist), cls='history',
                     sample={'layout(anchor,offset,size)': self.lay, 'ops(kind,addr,size,value)': self.hist[:12]})
            acc.extra['ops'] = acc.extra.get('ops', 0) + len(self.hist)
    return HubMachine


def shard_machine(seed, examples, steps, shrink):
    acc = Acc()
    M = make_machine(acc)
    phases = [Phase.generate, Phase.shrink] if shrink else [Phase.generate]
    try:
        run_state_machine_as_test(hypothesis.seed(seed)(M), settings=settings(
            max_examples=examples, stateful_step_count=steps, deadline=None, database=None, phases=phases,
            report_multiple_bugs=False, suppress_health_check=list(HealthCheck)))
    except Violation as v:
        case = CURRENT.get('case')
        case = minimise(case) if case else case
        acc.violation('C16:' + bucket_of(str(v)), case, str(v))
    return acc


def bucket_of(msg):
    for k in ('resized', 'host error', 'unmapped read', 'out-of-range', 'read ', 'device'):
        if msg.startswith(k):
            if k == 'host error':
                return 'host-error:' + msg.split()[2].rstrip(':')
            return k.strip()
    return 'other'


def run_case(case):
    """deterministic replay of a (layout, ops) history; returns None or violation text"""
    model = Model([tuple(x) for x in case['layout']])
    hub = build_hub(model)
    try:
        for op in case['ops']:
            do_op(hub, model, tuple(op))
    except Violation as v:
        return str(v)
    return None


def minimise(case):
    """ddmin-lite on the op list and the layout (no random choices)"""
    msg = run_case(case)
    if msg is None:
        return case
    b = bucket_of(msg)

    def fails(c):
        m = run_case(c)
        return m is not None and bucket_of(m) == b
    ops = list(case['ops'])
    lay = list(case['layout'])
    changed = True
    while changed:
        changed = False
        for i in range(len(ops) - 1, -1, -1):
            c = {'layout': lay, 'ops': ops[:i] + ops[i + 1:]}
            if fails(c):
                ops = c['ops']
                changed = True
        for i in range(len(lay) - 1, -1, -1):
            if len(lay) > 1:
                c = {'layout': lay[:i] + lay[i + 1:], 'ops': ops}
                if fails(c):
                    lay = c['layout']
                    changed = True
    return {'layout': lay, 'ops': ops}


def shard_sweep(idx):
    """deterministic: fixed layouts x every address in a window around every boundary x size x (read, write)"""
    acc = Acc()
    layouts = [
        [(0, 0, 1)], [(0, 0, 3)], [(0x10, 0, 7), (0x10, 7, 9)], [(0x40, 0, 16), (0x40, 8, 16)],
        [(0xFFFFFFF0, 0, 16)], [(0xFFFFFFF0, 3, 13)], [(0x1000, 0, 64), (0x1000, 70, 5), (0x1000, 0, 8)],
        [(0x7FFFFFE0, 1, 2), (0x7FFFFFE0, 3, 2), (0x7FFFFFE0, 5, 33)],
        [(0xFFFFFFF0, 0, 32)], [(1 << 32, 0, 16), (0x12_0000_0000, 3, 9)],            # straddling / above 4 GiB
        [(0x1000, 0x20 * k, 0x18) for k in range(9)],                                      # nine disjoint devices, nothing mapped below the first
        [(0x40, 0x10 * k, 0x10) for k in range(12)],                                       # twelve abutting devices
    ]
    lay = layouts[idx]
    model0 = Model(lay)
    pts = set()
    for b, e, _ in model0.devs:
        for d in range(-9, 10):
            pts.add((b + d) & PA_MASK)
            pts.add((e + d) & PA_MASK)
    for a in sorted(pts):
        for size in SIZES:
            for kind in ('r', 'w'):
                model = Model(lay)
                hub = build_hub(model)
                # pre-fill with a recognisable pattern through in-range single-byte writes
                ops = []
                for b, e, m in model.devs:
                    for k in range(b, e):
                        ops.append(('w', k, 1, (k * 7 + 3) & 0xFF))
                ops.append((kind, a, size, 0x8877665544332211 & ((1 << (8 * size)) - 1)))
                ops.append(('r', a, size, 0))
                case = {'layout': [list(x) for x in lay], 'ops': [list(o) for o in ops]}
                msg = run_case(case)
                i = model0.find(a)
                near = i is not None and model0.devs[i][1] - a <= 8
                acc.case(near or len(lay) > 1, ('s', idx, a, size, kind), cls='sweep',
                         sample={'layout': lay, 'op': [kind, a, size]})
                if msg:
                    acc.violation('C16:' + bucket_of(msg), minimise(case), msg)
    return acc


def shard_big(seed, count):
    """devices larger than any internal granule an implementation might use (128 KiB and more) that begin at addresses which are not multiples of the
    access size: accesses around every 4 KiB / 64 KiB multiple - counted from the beginning of the device and in absolute terms - and around both ends"""
    acc = Acc()
    rng = random.Random(seed)
    for _ in range(count):
        beg_off = rng.choice((0, 1, 2, 3, 5, 6, 7))
        size = 0x20000 + rng.choice((0, 1, 3, 0x100, 0x10000))
        lay = [[0x20000, beg_off, size]]
        if rng.random() < 0.4:
            lay.append([0x20000, beg_off + size, rng.choice((1, 7, 0x40))])      # a small device abutting it
        model = Model([tuple(x) for x in lay])
        b, e, _m = model.devs[0]
        pts = set()
        for base in [b + k * 0x10000 for k in range(0, 4)] + [(b + k * 0x10000) & ~0xFFFF for k in range(1, 4)] + [b + 0x1000, (b + 0x2000) & ~0xFFF, e]:
            for d in range(-9, 10):
                pts.add((base + d) & PA_MASK)
        pts = sorted(pts)
        ops = []
        for _w in range(rng.randrange(6, 16)):
            sz = rng.choice(SIZES)
            ops.append(['w', rng.choice(pts), sz, rng.getrandbits(8 * sz)])
            if rng.random() < 0.5:
                ops.append(['r', rng.choice(pts), rng.choice(SIZES), 0])
        touched = sorted({o[1] for o in ops})
        for a in touched[:12]:
            ops.append(['r', a, rng.choice(SIZES), 0])
            ops.append(['r', (a - rng.choice((1, 2, 4))) & PA_MASK, rng.choice(SIZES), 0])
        case = {'layout': lay, 'ops': ops}
        msg = run_case(case)
        acc.case(True, ('big', beg_off, size, repr(ops)), cls='big-device', sample={'layout': lay, 'ops': ops[:4]})
        if msg:
            acc.violation('C16:big-device:' + bucket_of(msg), minimise(case), msg)
    return acc


def mutate_case(lay, script):
    """a hub whose device list the embedder changes while it is in use (bank switching, remapping boot ROM and RAM, hot-plugging a device): accesses,
    then a device removed / appended / its window moved in place by assigning `beginning` and `end` / two windows swapped, then accesses again. The model
    is the same list manipulated the same way. returns None or violation text"""
    from armulator.armv6.memory_controller_hub import MemoryController
    from armulator.armv6.memory_types import RAM
    model = Model([tuple(x) for x in lay])
    hub = build_hub(model)
    try:
        for step in script:
            if step[0] in ('r', 'w'):
                do_op(hub, model, tuple(step))
            elif step[0] == 'pop':
                i = step[1] % len(model.devs)
                if len(model.devs) > 1:
                    model.devs.pop(i)
                    hub.memories.pop(i)
            elif step[0] == 'append':
                b, n = step[1], step[2]
                model.devs.append((b, b + n, bytearray(n)))
                hub.memories.append(MemoryController(RAM(n), b, b + n))
            elif step[0] == 'move':
                i = step[1] % len(model.devs)
                b, e, m = model.devs[i]
                nb = step[2]
                model.devs[i] = (nb, nb + (e - b), m)
                hub.memories[i].beginning = nb
                hub.memories[i].end = nb + (e - b)
            elif step[0] == 'swap':
                i, j = step[1] % len(model.devs), step[2] % len(model.devs)
                (b1, e1_, m1), (b2, e2_, m2) = model.devs[i], model.devs[j]
                if i != j and e1_ - b1 == e2_ - b2:
                    model.devs[i], model.devs[j] = (b2, e2_, m1), (b1, e1_, m2)
                    hub.memories[i].beginning, hub.memories[i].end = b2, e2_
                    hub.memories[j].beginning, hub.memories[j].end = b1, e1_
            check_state(hub, model)
    except Violation as v:
        return str(v)
    except Exception as ex:      # noqa: BLE001
        return 'host error %s: %s' % (type(ex).__name__, ex)
    return None


def shard_mutate(seed, count):
    acc = Acc()
    rng = random.Random(seed)
    for _ in range(count):
        n = rng.randrange(2, 5)
        size = rng.choice((0x1000, 0x2000, 0x1000, 0x1800))
        lay, at = [], 0x10000
        for _d in range(n):
            lay.append([at + rng.choice((0, 0, 1, 0x10)), 0, size])
            at += size + rng.choice((0, 0, 0x1000, 0x800))
        model = Model([tuple(x) for x in lay])
        pts = sorted({(b + d) & PA_MASK for b, e, _ in model.devs for d in (0, 1, 4, 0x800, 0xFF8, 0x1000 - 4)} | {(e + d) & PA_MASK for b, e, _ in model.devs for d in (-8, -4, -1, 0, 4)})

        def accesses(k):
            out = []
            for _a in range(k):
                sz = rng.choice(SIZES)
                out.append([rng.choice('rw'), rng.choice(pts), sz, rng.getrandbits(8 * sz)])
            return out
        script = accesses(rng.randrange(3, 9))
        for _m in range(rng.randrange(1, 4)):
            kind = rng.choice(('pop', 'pop', 'append', 'move', 'swap'))
            if kind == 'pop':
                script.append(['pop', rng.randrange(8)])
            elif kind == 'append':
                script.append(['append', at + rng.choice((0, 0x1000)), size])
            elif kind == 'move':
                script.append(['move', rng.randrange(8), rng.choice((0x8000, 0x30000, at + 0x4000, 0x10000))])
            else:
                script.append(['swap', rng.randrange(8), rng.randrange(8)])
            script += accesses(rng.randrange(3, 9))
        msg = mutate_case(lay, script)
        acc.case(True, ('mut', repr(lay), repr(script)), cls='device-list-changed', sample={'layout': lay, 'script': script[:6]})
        if msg:
            acc.violation('C16:device-list-changed:' + bucket_of(msg), {'kind': 'mutate', 'layout': lay, 'script': script}, msg)
    return acc


def sparse_case(begin, ops):
    """a controller window wider than 4 GiB in the 40-bit physical space, backed by an embedder-defined sparse MemoryType (a dictionary of bytes): the offset
    handed to the device is address - beginning, whatever its width"""
    from armulator.armv6.memory_controller_hub import MemoryController
    from armulator.armv6.memory_types import MemoryType

    class Sparse(MemoryType):
        def __init__(self, size):
            super().__init__(size)
            self.cells = {}

        def read(self, address, size):
            return bytearray(self.cells.get(address + i, 0) if address + i < self.size else 0 for i in range(size))

        def write(self, address, size, value):
            for i, x in enumerate(bytes(value)[:size]):
                if address + i < self.size:
                    self.cells[address + i] = x
    span = 3 << 32
    dev = Sparse(span)
    hub = MemoryControllerHub()
    hub.memories.append(MemoryController(dev, begin, begin + span))
    model = {}
    try:
        for kind, a, size, value in ops:
            if kind == 'w':
                hub[desc(a), size] = value
                for i, x in enumerate(value.to_bytes(size, 'little')):
                    if begin <= a < begin + span and a + i < begin + span:
                        model[a + i - begin] = x
            else:
                got = hub[desc(a), size]
                want = int.from_bytes(bytes(model.get(a + i - begin, 0) if begin <= a < begin + span and a + i < begin + span else 0 for i in range(size)), 'little')
                if got != want:
                    return 'read %s returned %#x, model %#x' % ([kind, a, size], got, want)
        if dev.cells != {k: v for k, v in model.items()} and {k: v for k, v in dev.cells.items() if v} != {k: v for k, v in model.items() if v}:
            bad = sorted(set(dev.cells) ^ set(model))[:4]
            return 'device cells differ from the model at offsets %s' % [hex(b) for b in bad]
    except Exception as ex:      # noqa: BLE001
        return 'host error %s: %s' % (type(ex).__name__, ex)
    return None


def shard_sparse(seed, count):
    acc = Acc()
    rng = random.Random(seed)
    for _ in range(count):
        begin = rng.choice((0, 1 << 32, 0x40_0000_0000, 0x1000, (1 << 32) + 0x10))
        span = 3 << 32
        pts = [begin + o + d for o in (0, 1 << 32, 2 << 32, (1 << 32) - 8, span - 8, 0x1000, (1 << 32) + 0x1000, (2 << 32) + 0x20) for d in (0, 1, 4, 7, -4)]
        pts = [a & PA_MASK for a in pts if 0 <= a < (1 << 40)]
        ops = []
        for _a in range(rng.randrange(6, 16)):
            sz = rng.choice(SIZES)
            ops.append(['w', rng.choice(pts), sz, rng.getrandbits(8 * sz)])
        for a in sorted({o[1] for o in ops})[:10]:
            ops.append(['r', a, rng.choice(SIZES), 0])
            ops.append(['r', (a - (1 << 32)) & PA_MASK, 4, 0])
            ops.append(['r', (a + (1 << 32)) & PA_MASK, 4, 0])
        msg = sparse_case(begin, ops)
        acc.case(True, ('sparse', begin, repr(ops)), cls='window-wider-than-4GiB', sample={'begin': begin, 'ops': ops[:4]})
        if msg:
            acc.violation('C16:wide-window:' + bucket_of(msg), {'kind': 'sparse', 'begin': begin, 'ops': ops}, msg)
    return acc


def from_list_case(lay, ops):
    """MemoryControllerHub.from_memory_list called twice with the SAME list / dict objects (how an embedder builds several cores from one memory map):
    each hub owns its devices - a write through one is invisible through the other, a later hub starts zero-filled, the caller's list is not modified"""
    import copy
    model = Model(lay)
    lst = [{'mem_type': 'RAM', 'beginning': b, 'end': e} for b, e, _ in model.devs]
    before = copy.deepcopy(lst)
    try:
        ha = MemoryControllerHub.from_memory_list(lst)
        for kind, a, size, value in ops:
            if kind == 'w':
                ha[desc(a), size] = value
        hb = MemoryControllerHub.from_memory_list(lst)
    except Exception as ex:
        return 'host error %s: %s' % (type(ex).__name__, ex)
    if lst != before:
        return 'from_memory_list modified the caller\'s memory list: %r' % (lst,)
    for i, mc in enumerate(hb.memories):
        if any(mc.mem.memory_array):
            return 'second hub built from the same list is not zero-filled (device %d): shares storage with the first' % i
    for ma, mb in zip(ha.memories, hb.memories):
        if ma.mem is mb.mem or ma.mem.memory_array is mb.mem.memory_array:
            return 'two hubs share a device object'
    return None


def shard_from_list(seed, count):
    import random
    acc = Acc()
    rng = random.Random(seed)
    for _ in range(count):
        lay = [[rng.choice(ANCHORS), rng.randrange(0, 0x24), rng.randrange(1, 70)] for _ in range(rng.randrange(1, 4))]
        model = Model(lay)
        ops = []
        for b, e, _ in model.devs:
            for _k in range(3):
                sz = rng.choice(SIZES)
                ops.append(['w', rng.randrange(b, e), sz, rng.getrandbits(8 * sz) | 1])
        msg = from_list_case(lay, ops)
        acc.case(True, ('fl', repr(lay), repr(ops)), cls='from-memory-list-twice', sample={'layout': lay, 'writes': ops[:3]})
        if msg:
            acc.violation('C16:from-list:' + bucket_of(msg), {'from_list': True, 'layout': lay, 'ops': ops}, msg)
    return acc


def edge_check(case):
    from vf import e1
    cpu = e1.build(case)
    pre = target.snapshot(cpu)
    for _s in range(2):
        e = target.step_budget(cpu)
        if e is not None and not target.escape_ok(e):
            return 'host error %s: %s' % (type(e).__name__, e)
    post = target.snapshot(cpu)
    for i, (b_, n_) in enumerate((m_[0], m_[1]) for m_ in case['mems']):
        if len(post['mem%d' % i]) != n_:
            return 'resized: device %d now %d bytes (was %d)' % (i, len(post['mem%d' % i]), n_)
    if post['mem1'] != pre['mem1'] and (post['cpsr'] & 31) == (pre['cpsr'] & 31):
        return 'device 1 (vectors) changed by an access aimed at the end of another device'
    return None


def shard_edge_steps(seed, count):
    """through emulate_cycle(): instruction fetch and data accesses at the last bytes of a device (incl. a 32-bit fetch with only two
    bytes left and accesses running past the end) never resize a device, never touch another device, never raise a host error"""
    import random
    from vf import gen, e1
    acc = Acc()
    rng = random.Random(seed)
    for _ in range(count):
        thumb = rng.random() < 0.5
        dev = (0x8000, rng.choice((0x42, 0x44, 0x46, 0x41, 0x43, 0x48)))          # code device; code placed so that it ends at / straddles the end
        data = (0x9000, rng.choice((5, 6, 7, 8, 9, 13)))
        off = dev[1] - rng.choice((2, 4, 2, 6, 1, 3))
        pc = (dev[0] + off) & (~1 if thumb else ~3)
        # LDR/STR/LDRD/LDM with the base at the last bytes of the data device
        base = data[0] + data[1] - rng.choice((1, 2, 3, 4, 5, 8))
        if thumb:
            code = rng.choice((b'\x08\x68', b'\x08\x60', b'\x08\x88', b'\xd1\xe9\x00\x23', b'\x91\xe8\x0c\x00', b'\xc1\xe9\x00\x23'))      # LDR/STR/LDRH r0,[r1]; LDRD/LDM/STRD
        else:
            code = e1.enc_arm(rng.choice((0xE5910000, 0xE5810000, 0xE1C120D0, 0xE891000C, 0xE1C120F0, 0xE1D100B0)))
        case = {'cfg': gen.CONFIGS[rng.choice(('v6', 'v7'))], 'hooked': False, 'mems': [list(dev), [0, 0x40], list(data)],
                'state': {'R.PC': pc, 'cpsr': gen.cpsr_value(m=0b10011, t=1 if thumb else 0, e=rng.getrandbits(1)), 'sctlr': rng.choice((0, 1 << 22, 2)),
                          'R.R1usr': base, 'R.R2usr': rng.getrandbits(32), 'R.R3usr': rng.getrandbits(32), 'R.R0usr': rng.getrandbits(32)},
                'poke': [[pc, code.hex()]], 'steps': 2}
        if rng.random() < 0.3:
            # the same instructions with the access completely inside the device, on the LPAE configuration (doubleword accesses are single 8-byte hub
            # accesses there) and either data endianness: the bytes the hub returns / stores are compared with the reference machine
            from vf import diff
            case['cfg'] = gen.CONFIGS[rng.choice(('v7-lpae', 'v7', 'v6'))]
            case['mems'][2] = [0x9000, 0x40]
            case['state']['R.R1usr'] = 0x9000 + 8 * rng.randrange(1, 6)
            case['state']['sctlr'] = 1 << 22
            case['poke'].append([0x9000, bytes(rng.getrandbits(8) for _ in range(0x40)).hex()])
            case['steps'] = 1
            res = diff.run(case)
            acc.case(True, ('edge-in', thumb, code, case['state']['cpsr'], case['state']['R.R1usr']), cls='edge-step-inside')
            if res.diffs and res.status not in ('unpred', 'skip'):
                from vf.props.e1prop import sig
                acc.violation('C16:edge-step:value:' + sig(res.diffs), {'edge_case': case, 'differential': True}, {'diffs(expected,observed)': e1.fmt_diff(res.diffs)})
            continue
        bad = edge_check(case)
        acc.case(True, ('edge', thumb, dev, data, off, base, code), cls='edge-step', sample={'thumb': thumb, 'code_device': dev, 'pc': '%#x' % pc,
                                                                                              'data_device': data, 'base': '%#x' % base, 'code': code.hex()})
        if bad:
            acc.violation('C16:edge-step:' + bucket_of(bad), {'edge_case': case}, bad)
    return acc


def run(ctx):
    ctx.rule = ('Hypothesis RuleBasedStateMachine: layout of 1-5 (a quarter of the histories: 6-12) RAM devices (sizes 1..70 incl. odd, adjacent/gapped/overlapping, up to '
                'the last bytes below 2^32, and above 4 GiB up to the top of the 40-bit physical space) then <=N reads/writes of size 1/2/4/8 at addresses drawn from device boundaries +-9, '
                'unmapped gaps, >2^32 and random; oracle = per-device byte arrays + first-match rule, checked after every step '
                '(device lengths, every byte, read values, no host exception). Plus a deterministic sweep of every address around '
                'every boundary of 12 fixed layouts (up to 12 devices), and emulate_cycle() steps whose fetch / data access lies at the last bytes of a device; two hubs built by from_memory_list from the same list objects own separate, zero-filled devices. Non-trivial history: contains an access within 8 bytes of a device end or >=2 '
                'touching/overlapping devices; distinct = distinct (layout, op sequence).')
    ctx.technique = 'stateful model-based property testing (Hypothesis rule-based machine) against an in-memory byte model'
    ctx.assumptions = ['RAM devices only (the only MemoryType shipped)', 'values written are in range for their size (all callers mask)']
    ex = ctx.n(250, 6000)
    steps = ctx.n(40, 60)
    tasks = [(shard_machine, (ctx.shard_seed(i), ex, steps, not ctx.quick)) for i in range(16)]
    tasks += [(shard_sweep, (i,)) for i in range(12)]
    tasks += [(shard_big, (ctx.shard_seed(600 + i), ctx.n(60, 1500))) for i in range(4)]
    tasks += [(shard_mutate, (ctx.shard_seed(700 + i), ctx.n(150, 3000))) for i in range(4)]
    tasks += [(shard_sparse, (ctx.shard_seed(800 + i), ctx.n(150, 3000))) for i in range(2)]
    tasks += [(shard_from_list, (ctx.shard_seed(80), ctx.n(300, 5000)))]
    tasks += [(shard_edge_steps, (ctx.shard_seed(50 + i), ctx.n(400, 8000))) for i in range(4)]
    ctx.pmap(_dispatch, tasks)


def _dispatch(fn, args):
    return fn(*args)


def replay(case, bucket=None):
    if case.get('kind') == 'mutate':
        msg = mutate_case(case['layout'], case['script'])
        return [msg] if msg else []
    if case.get('kind') == 'sparse':
        msg = sparse_case(case['begin'], case['ops'])
        return [msg] if msg else []
    if case.get('from_list'):
        msg = from_list_case(case['layout'], case['ops'])
        return [msg] if msg else []
    if case.get('differential'):
        from vf import diff
        res = diff.run(case['edge_case'])
        return ['value'] if (res.diffs and res.status not in ('unpred', 'skip')) else []
    if 'edge_case' in case:
        bad = edge_check(case['edge_case'])
        return [bad] if bad else []
    msg = run_case(case)
    return [msg] if msg else []
