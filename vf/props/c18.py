"""C18 — stepping is total: no instruction word or state makes emulate_cycle() fail with a host error."""
import random
import re
import glob

from vf import target, e1, gen
from vf.runner import Acc

IT_POS = {'outside': [0], 'first': [], 'middle': [], 'last': []}
for _it in gen.IT_STATES:
    if _it == 0:
        continue
    low = _it & 0xF
    if low == 0x8:
        IT_POS['last'].append(_it)
    elif (_it & 0x7) and bin(low).count('1') >= 1 and (low & 0x1):
        IT_POS['first'].append(_it)         # 4 slots remaining: can only be the first of a 4-block
    else:
        IT_POS['middle'].append(_it)


def bucket(e):
    t, site = target.exc_site(e)
    return 'C18:%s@%s' % (t, site)


def check_case(acc, case, label, key):
    cpu, pre, posts, excs = e1.run(case, with_mem=False)
    bad = None
    for e in excs:
        if e is not None and not target.escape_ok(e):
            bad = e
    post = posts[-1]
    undef = (post['cpsr'] & 31) == 0b11011 and (pre['cpsr'] & 31) != 0b11011
    acc.case(not undef, key, cls=label, sample=lambda: {'cfg': case['cfg'], 'word': case['poke'][0][1], 'cpsr': case['state']['cpsr'],
                                                       'pc': case['state']['R.PC'], 'outcome': outcome(pre, post, excs)})
    acc.cls('outcome:' + outcome(pre, post, excs))
    if bad is not None:
        acc.violation(bucket(bad), case, {'exception': repr(bad), 'label': label})
        return bad
    # a step or an injected exception entry that replaces a register object by a plain value has planted a host error for whoever touches it next
    replaced = sorted({k for p in posts for k, v in p.items() if isinstance(v, str) and v.startswith('TYPE-CHANGED')})
    if replaced:
        acc.violation('C18:register-object-replaced:' + '+'.join(replaced), case, {'attributes': replaced, 'label': label})
    return bad


def outcome(pre, post, excs):
    if excs and excs[-1] is not None:
        return 'not-implemented' if target.escape_ok(excs[-1]) else 'host-error'
    if (post['cpsr'] & 31) != (pre['cpsr'] & 31):
        return 'mode-change:' + gen.MODE_NAME.get(post['cpsr'] & 31, '?')
    return 'completed'


def shard_t16(cfgname, pos, lo, hi, seed):
    acc = Acc()
    rng = random.Random(seed)
    its = IT_POS[pos]
    for hw in range(lo, hi):
        it = rng.choice(its)
        if (hw >> 11) in (0b11101, 0b11110, 0b11111):
            code = e1.enc_thumb((hw << 16) | rng.getrandbits(16), True)
        else:
            code = e1.enc_thumb(hw, False) + b'\x00\xbf'
        case = gen.step_case(rng, cfgname, True, code, it=it)
        check_case(acc, case, 't16/' + pos, ('t16', cfgname, pos, hw, code))
    return acc


_CORPUS = []


def harvest_words():
    """instruction words used by the repository's own tests (seed corpus), split into ARM / Thumb by test name"""
    if _CORPUS:
        return _CORPUS[0]
    arm, thumb = set(), set()
    for f in glob.glob('/repo/tests/**/*.py', recursive=True):
        src = open(f).read()
        for block in re.split(r'\ndef ', src):
            name = block.split('(')[0]
            is_thumb = bool(re.search(r'_t[1-4](_|$)', name)) or 'thumb' in name or 'opcode_len = 16' in block
            params = re.findall(r'\(\s*(0b[01_]{16,32}|0x[0-9a-fA-F_]{4,8})\s*,', block)
            for m in re.findall(r'opcode\s*=\s*(0b[01_]+|0x[0-9a-fA-F_]+)', block) + params:
                v = int(m.replace('_', ''), 0)
                (thumb if is_thumb else arm).add(v)
    _CORPUS.append((sorted(arm), sorted(thumb)))
    return _CORPUS[0]


def shard_words(cfgname, kind, seed, count, hooked=False):
    """random 32-bit words (ARM / Thumb-32), test-suite words and their one-bit neighbours"""
    acc = Acc()
    rng = random.Random(seed)
    corpus_a, corpus_t = harvest_words()
    for i in range(count):
        r = rng.random()
        if kind == 'arm':
            if r < 0.25 and corpus_a:
                w = rng.choice(corpus_a) ^ (rng.choice((0, 0, 1 << rng.randrange(32))))
            elif r < 0.5:
                w = rng.getrandbits(32) | (0xE << 28)
            else:
                w = rng.getrandbits(32)
            code = e1.enc_arm(w & 0xFFFFFFFF)
            thumb = False
        else:
            if r < 0.25 and corpus_t:
                w = rng.choice(corpus_t) ^ (rng.choice((0, 0, 1 << rng.randrange(32))))
                w &= 0xFFFFFFFF
            else:
                w = (rng.choice((0b11101, 0b11110, 0b11111)) << 27) | rng.getrandbits(27)
            code = e1.enc_thumb(w) + b'\x00\xbf'
            thumb = True
        case = gen.step_case(rng, cfgname, thumb, code, hooked=hooked)
        check_case(acc, case, kind + ('/hooked' if hooked else ''), (kind, cfgname, w, case['state']['cpsr'], hooked))
    return acc


INJECT = ('take_physical_irq_exception', 'take_physical_fiq_exception', 'take_reset', 'send_event_local', 'take_physical_fiq_exception', 'take_physical_irq_exception')


def shard_programs(cfgname, seed, count):
    """multi-instruction programs of 2..20 steps continuing after exceptions (vectors hold random words too)"""
    acc = Acc()
    rng = random.Random(seed)
    corpus_a, corpus_t = harvest_words()
    for i in range(count):
        thumb = rng.random() < 0.5
        n = rng.randrange(2, 21)
        if thumb:
            code = b''.join(e1.enc_thumb(rng.choice(corpus_t) if corpus_t and rng.random() < 0.5 else rng.getrandbits(16))
                            for _ in range(24))
        else:
            code = b''.join(e1.enc_arm(rng.choice(corpus_a) if rng.random() < 0.6 else rng.getrandbits(32)) for _ in range(24))
        case = gen.step_case(rng, cfgname, thumb, code, steps=n, code_base=0x8000)
        case['poke'].append([0, bytes(rng.getrandbits(8) for _ in range(0x40)).hex()])
        if rng.random() < 0.5:
            # interrupts, resets and events arriving between instructions
            case['inject'] = {str(rng.randrange(0, n)): rng.choice(INJECT) for _ in range(rng.randrange(1, 4))}
        if rng.random() < 0.25:
            # the embedder re-arranges the memory map while the program runs: a larger device (two whole 4 KiB pages) plugged in behind the others is used by
            # loads / stores, then unplugged or its window moved, and the same addresses are used again (now unmapped: reads give zero, writes are dropped)
            n = case['steps'] = max(n, 8)
            case['mems'].append([0x40000, 0x2000])
            for r_ in range(8):
                case['state']['R.R%dusr' % r_] = 0x40000 + rng.choice((0xF00, 0x1000, 0xFF0, 0x80, 0x1F00)) + 4 * rng.randrange(8)
            words = []
            for k_ in range(24):
                t_, b_, im_ = rng.randrange(8), rng.randrange(8), rng.randrange(8)
                if rng.random() < 0.65:
                    ld = rng.random() < 0.5
                    words.append(e1.enc_thumb((0x6800 if ld else 0x6000) | (im_ << 6) | (b_ << 3) | t_) if thumb else
                                 e1.enc_arm((0xE5900000 if ld else 0xE5800000) | (b_ << 16) | (t_ << 12) | (im_ << 2)))
                else:
                    words.append(code[k_ * (2 if thumb else 4):][:2 if thumb else 4])
            code = b''.join(words)
            case['poke'][0][1] = code.hex()
            inj = dict(case.get('inject') or {})
            inj[str(rng.randrange(2, n - 2))] = rng.choice((['hub', 'pop'], ['hub', 'pop'], ['hub', 'move', len(case['mems']) - 1, rng.choice((0x100000, 0x41000, 0x3F000))],
                                                         ['hub', 'move', rng.randrange(len(case['mems']) - 1), 0x42000]))
            case['inject'] = inj
            acc.cls('program:memory-map-changed-while-running')
        check_case(acc, case, 'program', ('prog', cfgname, code, n, case['state']['cpsr'], tuple(sorted((case.get('inject') or {}).items()))))
    return acc


def shard_long(seed, nwords):
    """ONE instance steps through more distinct instruction words than any bounded per-instance table (a decode memo, a translation cache) can hold,
    with UNDEFINED and repeated words in between: `nwords` distinct ARM data-processing immediates (MOV / MVN / ADD / SUB x S x Rd x imm12), every
    1000th step an UNDEFINED word, every 997th a word seen before. Stepping must stay total and every MOV must still move."""
    acc = Acc()
    rng = random.Random(seed)
    case = gen.step_case(rng, 'v6', False, e1.enc_arm(0xE1A00000), mode='svc', code_base=0x8000, mpu=False)
    case['state']['sctlr'] &= ~((1 << 13) | (1 << 30))
    case['state']['vbar'] = 0
    cpu = e1.build(case)
    target.poke(cpu, 0x04, e1.enc_arm(0xE1B0F00E))                  # Undefined Instruction vector: MOVS PC, LR (return to the next word)
    pc = 0x8040
    codemem = [mc for mc in cpu.mem.memories if mc.beginning == 0x8000][0].mem
    seen = []
    done = 0
    k = 0
    while done < nwords:
        k += 1
        if k % 1000 == 0 or k in (3, 5):
            w, kind = (0xE320F005, 0xE7F000F0, 0xE320F0F7, 0xF7F0A000)[(k // 1000) & 3], 'undefined'          # unallocated hint / UDF / permanently UNDEFINED words, each of them again and again: the handler returns
        elif k % 997 == 0 and seen:
            w, kind = seen[rng.randrange(len(seen))], 'again'
        else:
            op = (0xE3A00000, 0xE3E00000, 0xE2800000, 0xE2400000)[done & 3]          # MOV / MVN / ADD / SUB (immediate), S from bit 2
            w = op | (((done >> 2) & 1) << 20) | (((done >> 3) & 7) << 12) | (((done >> 3) & 7) << 16) | ((done >> 6) & 0xFFF)
            kind = 'new'
            done += 1
            if rng.random() < 0.001:
                seen.append(w)
        target.mem_fill(codemem, pc - 0x8000, e1.enc_arm(w))
        cpu.registers.branch_to(pc)
        steps = 2 if kind == 'undefined' else 1
        for _ in range(steps):
            e = target.step_budget(cpu)
            if e is not None:
                break
        if kind != 'new' or k % 256 == 0:
            acc.case(True, ('long', seed, k), cls='long-run:' + kind)
        else:
            acc.evals += 1
        if e is not None and not target.escape_ok(e):
            acc.violation(bucket(e), {'kind': 'long-run', 'seed': seed, 'nwords': nwords, 'failed_at_step': k, 'word': w}, {'exception': repr(e), 'step': k, 'word': '%#x' % w})
            return acc
        if kind == 'new' and (w >> 21) & 0xF == 0xD and cpu.registers.get((w >> 12) & 15) != (((w & 0xFF) >> (2 * ((w >> 8) & 15))) | ((w & 0xFF) << (32 - 2 * ((w >> 8) & 15)))) & 0xFFFFFFFF:
            acc.violation('C18:long-run:MOV-did-not-move', {'kind': 'long-run', 'seed': seed, 'nwords': nwords, 'failed_at_step': k, 'word': w}, {'step': k, 'word': '%#x' % w})
            return acc
        if (cpu.registers.cpsr.value & 31) != 0b10011:
            cpu.registers.cpsr.value = (cpu.registers.cpsr.value & ~0x3F) | 0b10011
    return acc


def shard_witness(which, part, nparts, seed, members):
    """one word for every path of armulator's decoder joint with the reference table (plus solver-generated members of each region):
    the cube representatives of the 2^32 word space, each stepped in a generated state on a random configuration"""
    from vf.props import decode_common as dc
    if which == 'arm':
        from vf.props.c06 import SPEC as spec
    else:
        from vf.props.c07 import SPEC32 as spec
    acc = Acc()
    rng = random.Random(seed)
    n_arm, joint = spec.compute_joint()
    for j, (w, a, row, trace) in enumerate(joint):
        if j % nparts != part:
            continue
        for word in [w] + dc.members(w, trace, 32, rng, members):
            cfgname = rng.choice(ALL_CFG)
            code = e1.enc_arm(word) if which == 'arm' else e1.enc_thumb(word, True) + b'\x00\xbf'
            case = gen.step_case(rng, cfgname, which != 'arm', code, hooked=rng.random() < 0.3)
            check_case(acc, case, 'witness/' + which, ('wit', which, cfgname, word, case['state']['cpsr']))
            if row is not None and row.name.startswith(('LDR', 'STR', 'LDM', 'STM', 'PUSH', 'POP', 'SRS', 'RFE', 'LDC', 'STC', 'PLD', 'SWP')):
                # every load / store encoding once more under stage-2 translation: a stage-2 fault is reported to Hyp mode with the instruction
                # syndrome the executing opcode object supplies (a code path nothing else reaches)
                w2 = tame_registers(spec.table, row, word, rng)
                code2 = e1.enc_arm(w2) if which == 'arm' else e1.enc_thumb(w2, True) + b'\x00\xbf'
                for hooked in (False, True):
                    case = gen.step_case(rng, 'v7-virt', which != 'arm', code2, hooked=hooked, mode=rng.choice(('svc', 'usr', 'sys', 'irq')), ns=True, mmu=False, code_base=0x8000,
                                         it=0)
                    if rng.random() < 0.75 and (case['state']['R.PC'] >> 21) == 0:
                        gen.stage2_map(rng, case)
                    else:
                        gen.force_stage2(rng, case['state'])
                    check_case(acc, case, 'witness-stage2/' + which, ('wit2', which, word, hooked, case['state']['cpsr'], case['state']['vtcr']))
    return acc


def tame_registers(table, row, word, rng):
    """the same encoding with SP / PC in its register fields replaced by low registers (most UNPREDICTABLE combinations of load / store encodings are
    about those): the stage-2 pass wants the access to happen; falls back to the word itself if the row changes"""
    from vf.ref.enc import decode as table_decode
    f = dict(row.extract(word))
    changed = False
    used = set()
    for k in 'ntdmu':
        if k in row.fields and len(row.fields[k]) == 4 and (f[k] in (13, 15) or f[k] in used):
            f[k] = next(r for r in rng.sample(range(0, 8), 8) if r not in used)
            changed = True
        if k in f and isinstance(f[k], int):
            used.add(f[k])
    if not changed:
        return word
    f.pop('x', None)
    try:
        w2 = (row.build(**{k: f[k] for k in row.fields}) & ~row.sbo) | (word & row.sbo) if False else row.build(**{k: f[k] for k in row.fields})
    except Exception:
        return word
    w2 = (w2 & ~(row.sbz | row.sbo)) | (word & (row.sbz | row.sbo))
    r2, _ = table_decode(table, w2)
    return w2 if r2 is row else word


def shard_stage2_arm(part, nparts, seed, members):
    """ARM load / store encodings under stage-2 translation (quick tier: paths of armulator's ARM decoder alone, 0.2 s to enumerate)"""
    from vf.props import e1prop, decode_common as dc
    from vf.ref.enc import decode as table_decode
    acc = Acc()
    rng = random.Random(seed)
    for j, (w0, trace) in enumerate(e1prop.decoder_regions()['arm']):
        if j % nparts != part:
            continue
        for word in [w0] + dc.members(w0, trace, 32, rng, members):
            row, _ = table_decode(e1prop.TABLES['arm'], word)
            if row is None or not row.name.startswith(('LDR', 'STR', 'LDM', 'STM', 'PUSH', 'POP', 'SRS', 'RFE', 'LDC', 'STC', 'PLD', 'SWP')):
                continue
            if (word >> 28) < 14:
                word = (word & 0x0FFFFFFF) | (0xE << 28)
            word = tame_registers(e1prop.TABLES['arm'], row, word, rng)
            case = gen.step_case(rng, 'v7-virt', False, e1.enc_arm(word), hooked=rng.random() < 0.6, mode=rng.choice(('svc', 'usr', 'sys', 'irq')), ns=True, mmu=False, code_base=0x8000)
            if rng.random() < 0.75 and (case['state']['R.PC'] >> 21) == 0:
                gen.stage2_map(rng, case)
            else:
                gen.force_stage2(rng, case['state'])
            check_case(acc, case, 'witness-stage2/arm', ('wit2', 'arm', word, case['state']['cpsr'], case['state']['vtcr']))
    return acc


def shard_coproc(seed, count):
    """every coprocessor encoding (MCR/MRC/MCRR/MRRC/CDP/LDC/STC, conditional and unconditional, ARM and Thumb) x every coprocessor number p0..p15 x
    field corners, in Non-secure PL1 / Hyp / Secure modes of the configuration with Security + Virtualization Extensions, with every trap control
    (HCPTR incl. TCPAC / TTA, HSTR incl. TTEE / TJDBX, HCR, CPACR, NSACR) random: the acceptance logic has a decision for each of them"""
    from vf.props import e1prop
    acc = Acc()
    rng = random.Random(seed)
    rows = [n for n in e1prop.ROWS if n.startswith(('MCR', 'MRC', 'MCRR', 'MRRC', 'CDP', 'LDC', 'STC')) and 'p' in e1prop.ROWS[n][1].fields]
    for _ in range(count):
        name = rows[rng.randrange(len(rows))]
        tn, row = e1prop.ROWS[name]
        f = {k: rng.getrandbits(len(p)) for k, p in row.fields.items()}
        for k in f:
            if k not in 'pc' and rng.random() < 0.4:
                f[k] = rng.choice((0, 1, (1 << len(row.fields[k])) - 1, 13 % (1 << len(row.fields[k])), 15 % (1 << len(row.fields[k]))))
        f['p'] = rng.choice((15, 15, 15, 14, 14, 10, 11, rng.randrange(16)))
        if 'c' in f:
            f['c'] = 14
        w = row.build(**f)
        thumb = tn != 'arm'
        code = e1.enc_arm(w) if not thumb else e1.enc_thumb(w, True) + b'\x00\xbf'
        case = gen.step_case(rng, rng.choice(('v7-virt', 'v7-virt', 'v7-vmsa', 'v6')), thumb, code, hooked=rng.random() < 0.5, it=0, mmu=False, mpu=False,
                             mode=rng.choice(('svc', 'usr', 'hyp', 'sys', 'mon', 'irq')), ns=rng.random() < 0.7)
        st_ = case['state']
        if 'hcr' in st_ or case['cfg'].get('have_virt_ext'):
            st_['hcr'] = rng.getrandbits(32) & ~1
            st_['hstr'] = rng.getrandbits(18)
            st_['hcptr'] = rng.getrandbits(14) | (rng.getrandbits(1) << 20) | (rng.getrandbits(1) << 31)
        st_['cpacr'] = rng.getrandbits(28) | (rng.getrandbits(2) << 30)
        check_case(acc, case, 'coprocessor/' + name, ('cp', w, st_['cpsr'], st_.get('hstr'), st_.get('hcptr')))
    return acc


ALL_CFG = [c for c in gen.CONFIGS if c not in ('v6-vec', 'v7-vfp')]


def run(ctx):
    ctx.rule = ('emulate_cycle() on: every 16-bit Thumb halfword (32-bit starters paired with a generated second halfword) in each IT '
                'position {outside, first, middle, last}; one witness + solver-generated members for every joint decoder region of the 32-bit Thumb '
                'space (and of the ARM space in the thorough tier); random / test-suite-derived ARM and 32-bit Thumb words; every load / store path of both decoders once more under stage-2 translation (HCR.VM = 1, Non-secure PL1/PL0); every coprocessor encoding x p0..p15 under random trap controls; random 2-20 step programs, half of them with IRQ / FIQ / reset / event injections between steps; '
                'each in a generated valid state (every mode, MPU/MMU on and off, registers pointing into / next to / away from memory, '
                'code at 0, mid-space, high vectors and the last bytes below 2^32) on configurations ' + ', '.join(ALL_CFG) + '. '
                'Oracle: validity predicate - the call returns (completed or architectural exception taken) or raises NotImplementedError '
                'from a documented mock hook / unimplemented-extension decoder; anything else escaping is a violation bucketed by '
                '(exception type, innermost armulator function); a deterministic hub-access budget turns a hang into a failure. '
                'Non-trivial: the step did not simply end in the Undefined Instruction exception; distinct = (word, IT/mode bits, config).')
    ctx.technique = 'exhaustive enumeration of 16-bit encodings + random/corpus-seeded fuzzing of words and programs with a validity oracle'
    ctx.assumptions = ['valid states only (DESIGN.md 3.2 rule 5)', 'NotImplementedError is accepted only at the sites of appendix A.7']
    tasks = []
    k = 0
    cfgs16 = ['v6', 'v7'] if ctx.quick else ['v6', 'v7', 'v5', 'v6-nosec', 'v7-vmsa', 'v7-virt']
    for c in cfgs16:
        for pos in IT_POS:
            for lo in range(0, 65536, 8192):
                tasks.append((shard_t16, (c, pos, lo, lo + 8192, ctx.shard_seed(k))))
                k += 1
    nw = ctx.n(2500, 40000)
    for c in ALL_CFG:
        for kind in ('arm', 't32'):
            tasks.append((shard_words, (c, kind, ctx.shard_seed(k), nw)))
            k += 1
            tasks.append((shard_words, (c, kind, ctx.shard_seed(k), nw // 2, True)))
            k += 1
        tasks.append((shard_programs, (c, ctx.shard_seed(k), ctx.n(400, 8000))))
        k += 1
    from vf.props import c07
    c07.SPEC32.compute_joint()
    tasks += [(shard_witness, ('t32', i, 8, ctx.shard_seed(k + i), ctx.n(6, 40))) for i in range(8)]
    tasks += [(shard_coproc, (ctx.shard_seed(k + 40 + i), ctx.n(3000, 40000))) for i in range(4)]
    tasks.insert(0, (shard_long, (ctx.shard_seed(k + 90), ctx.n(140000, 600000))))        # (first: it is the longest single task)
    tasks += [(shard_stage2_arm, (i, 4, ctx.shard_seed(k + 30 + i), ctx.n(4, 40))) for i in range(4)]
    if not ctx.quick:
        from vf.props import c06
        c06.SPEC.compute_joint()
        tasks += [(shard_witness, ('arm', i, 16, ctx.shard_seed(k + 50 + i), 40)) for i in range(16)]
    ctx.pmap(_dispatch, tasks)
    ctx.acc.extra['t16_exhaustive_configs'] = cfgs16


def _dispatch(fn, args):
    return fn(*args)


def replay(case, bucket_=None):
    if case.get('kind') == 'long-run':
        return sorted(shard_long(case['seed'], case['nwords']).viol)
    acc = Acc()
    check_case(acc, case, 'replay', 'replay')
    return sorted(acc.viol)
