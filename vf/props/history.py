"""History shard shared by the E1 properties: ONE long-lived processor instance executes a short program in which the plan's instruction X occurs
several times (the same word again, and other words of the plan's rows) between instructions that change rarely observed state behind its back -
PSR writes by every route (MSR by field mask, CPS, SETEND, exception entry and the handler's return), GE setters and SEL, exclusive-monitor traffic,
block transfers in handlers, mode changes, wait / event hints, coprocessor traps, IT blocks, interrupts injected between steps, an interworking branch
followed by the same 32-bit word in the other instruction set. Every step is compared with the reference machine, which is memoryless across steps by
construction: whatever an implementation remembers from an earlier step (decoded operands, a cached field view, a queue, a flag it forgot to consume)
shows as a difference at the step that uses it."""
import random

import hypothesis
from hypothesis import given, settings, strategies as st, HealthCheck, Phase

from vf import gen, e1, diff, target, known
from vf.runner import Acc
from vf.ref.enc import decode as table_decode

M32 = 0xFFFFFFFF
LEGAL_IT = [(fc, mask) for fc in range(15) for mask in range(1, 16) if not (fc == 14 and bin(mask).count('1') != 1)]


def _rows():
    from vf.props import e1prop
    return e1prop.ROWS, e1prop.TABLES


def enc(name, **f):
    ROWS, _ = _rows()
    row = ROWS[name][1]
    if 'c' in row.fields and len(row.fields['c']) == 4:
        f.setdefault('c', 14)
    for k in row.fields:
        f.setdefault(k, 0)
    return row.build(**f)


def lo(rng):
    return rng.randrange(6)


def mask_lo(rng, least=2):
    while True:
        m = rng.getrandbits(6)
        if bin(m).count('1') >= least:
            return m


def valid_mode_number(rng, cfg):
    return gen.MODES[rng.choice([m for m in gen.valid_modes(gen.CONFIGS_FULL(cfg)) if m not in ('hyp', 'mon')])]


_DUMMY = {}


def predictable(cfgname, thumb, w, nbits):
    """does the reference decode this word (outside an IT block, Supervisor mode) without calling it UNPREDICTABLE / UNDEFINED / unimplemented?
    Used to keep a history from ending at its first instruction; words that fail are still generated one time in four."""
    from vf.ref import step as rstep
    from vf.ref.machine import Machine, Unpred, Undef, NotImpl, Skip
    key = (cfgname, thumb)
    M = _DUMMY.get(key)
    if M is None:
        cpu = target.new_cpu(gen.CONFIGS[cfgname], False, [(0, 0x10)])
        snap = target.snapshot(cpu, False)
        snap['cpsr'] = gen.cpsr_value(t=1 if thumb else 0, m=gen.MODES['svc'])
        M = _DUMMY[key] = Machine(snap, [(0, 0x10)], diff.full_cfg(gen.CONFIGS[cfgname]))
    try:
        rstep.decode(M, w, nbits)
        return True
    except (Unpred, Undef, NotImpl, Skip):
        return False
    except Exception:      # noqa: BLE001 - an operand decode that needs more state than the dummy has: let the real run decide
        return True


# ------------------------------------------------------------------------------------------------ interference pools
def pool_arm(rng, cfg):
    """one ARM instruction word that leaves R6 (data pointer), R7 (fault pointer) and the PC alone"""
    k = rng.randrange(30)
    d, n, m = lo(rng), lo(rng), lo(rng)
    if k == 0:
        return enc('MSR_imm_A1_app', m=rng.randrange(1, 4), i=rng.getrandbits(12))
    if k == 1:
        return enc('MSR_reg_A1_sys', r=0, m=rng.randrange(1, 16), n=5)            # R5 holds a plausible PSR value
    if k == 2:
        return enc('MSR_reg_A1_sys', r=rng.getrandbits(1), m=rng.choice((8, 4, 12, 2, 6)), n=rng.choice((5, d)))
    if k == 3:
        return enc('SEL_A1', n=n, d=d, m=m)
    if k == 4:
        return enc(rng.choice(('UADD8_A1', 'SSUB16_A1', 'SADD8_A1', 'USUB16_A1', 'UASX_A1', 'SSAX_A1')), n=n, d=d, m=m)
    if k == 5:
        return enc(rng.choice(('LDREX_A1', 'LDREXB_A1', 'LDREXH_A1')), n=rng.choice((6, 6, 7)), t=d)
    if k == 6:
        t = lo(rng)
        dd = (t + 1 + rng.randrange(4)) % 6
        return enc(rng.choice(('STREX_A1', 'STREX_A1', 'STREXB_A1', 'STREXH_A1')), n=6, d=dd, t=t)
    if k == 7:
        return enc('CLREX_A1')
    if k == 8:
        return enc('LDM_A1', W=0, n=rng.choice((6, 6, 7)), r=mask_lo(rng))
    if k == 9:
        return enc('STM_A1', W=0, n=6, r=mask_lo(rng))
    if k == 10:
        return enc('PUSH_A1', r=mask_lo(rng))
    if k == 11:
        return enc('POP_A1', r=mask_lo(rng))
    if k == 12:
        return enc('SETEND_A1', E=rng.getrandbits(1))
    if k == 13:
        M = rng.getrandbits(1)
        return enc('CPS_A1', i=rng.choice((2, 3)) if not M or rng.random() < 0.7 else 0, M=M, A=rng.getrandbits(1), I=rng.getrandbits(1), F=rng.getrandbits(1),
                   m=valid_mode_number(rng, cfg) if M else 0)
    if k == 14:
        return enc('SVC_A1', i=rng.getrandbits(24))
    if k == 15:
        return enc('UDF_A1', i=rng.getrandbits(16))
    if k == 16:
        return enc(rng.choice(('LDR_imm_A1', 'LDRB_imm_A1')), P=1, U=1, W=0, n=rng.choice((6, 6, 6, 7)), t=d, i=rng.choice((0, 4, 8, 0x3C)))
    if k == 17:
        return enc('STR_imm_A1', P=1, U=1, W=0, n=rng.choice((6, 6, 6, 7)), t=d, i=rng.choice((0, 4, 8, 0x3C)))
    if k == 18:
        return enc('MOV_imm_A1', S=rng.getrandbits(1), d=d, i=rng.getrandbits(12))
    if k == 19:
        return enc('ADD_imm_A1', S=rng.getrandbits(1), n=n, d=d, i=rng.getrandbits(8))
    if k == 20:
        return enc('CMP_imm_A1', n=n, i=rng.choice((0, 1, 0x80, 0xFF)))
    if k == 21:
        return enc('MOVW_A2', d=d, i=rng.getrandbits(16)) if cfg.get('arch_version', 6) >= 7 else enc('MOV_imm_A1', S=0, d=d, i=rng.getrandbits(12))
    if k == 22:
        return enc(rng.choice(('WFI_A1', 'WFE_A1', 'SEV_A1', 'NOP_A1', 'YIELD_A1')))
    if k == 23:
        return enc(rng.choice(('MUL_A1', 'QADD_A1')), n=n, d=d, m=m)
    if k == 24:
        return enc('LDM_user_A1', P=rng.getrandbits(1), U=rng.getrandbits(1), n=6, r=mask_lo(rng, 1) | (rng.getrandbits(2) << 13))
    if k == 25:
        return enc('STM_user_A1', P=rng.getrandbits(1), U=rng.getrandbits(1), n=6, r=mask_lo(rng, 1) | (rng.getrandbits(2) << 13))
    if k == 26:
        return enc('SRS_A1', P=rng.getrandbits(1), U=rng.getrandbits(1), W=rng.getrandbits(1), m=valid_mode_number(rng, cfg))
    if k == 27:
        return enc('LDRD_imm_A1', P=1, U=1, W=0, n=6, t=rng.choice((0, 2, 4)), i=rng.choice((0, 4, 8)))
    if k == 28:
        return enc('SMC_A1', i=rng.getrandbits(4))
    return enc('ADD_reg_A1', S=rng.getrandbits(1), n=n, d=d, m=m, i=rng.choice((0, 0, 1, 31)), t=rng.randrange(4))


def pool_thumb(rng, cfg):
    """(word, is32) for Thumb state"""
    k = rng.randrange(30)
    d, n, m = lo(rng), lo(rng), lo(rng)
    if k == 0:
        return enc('MSR_reg_T1_app', n=rng.choice((5, d)), m=rng.randrange(1, 4)), True
    if k == 1:
        return enc('MSR_reg_T1_sys', r=0, n=5, m=rng.randrange(1, 16)), True
    if k == 2:
        return enc('MSR_reg_T1_sys', r=rng.getrandbits(1), n=rng.choice((5, d)), m=rng.choice((8, 4, 12, 2, 6))), True
    if k == 3:
        return enc('SEL_T1', n=n, d=d, m=m), True
    if k == 4:
        return enc(rng.choice(('UADD8_T1', 'SSUB16_T1', 'SADD8_T1', 'USUB16_T1', 'UASX_T1', 'SSAX_T1')), n=n, d=d, m=m), True
    if k == 5:
        return enc('LDREX_T1', n=rng.choice((6, 6, 7)), t=d, i=rng.choice((0, 0, 1, 2))), True
    if k == 6:
        t = lo(rng)
        dd = (t + 1 + rng.randrange(4)) % 6
        return enc('STREX_T1', n=6, t=t, d=dd, i=rng.choice((0, 0, 1, 2))), True
    if k == 7:
        return enc('CLREX_T1'), True
    if k == 8:
        return enc('LDM_T2', W=0, n=rng.choice((6, 6, 7)), P=0, M=0, r=mask_lo(rng)), True
    if k == 9:
        return enc('STM_T2', W=0, n=6, M=0, r=mask_lo(rng)), True
    if k == 10:
        return enc('PUSH_T1', M=0, r=mask_lo(rng, 1)), False
    if k == 11:
        return enc('POP_T1', P=0, r=mask_lo(rng, 1)), False
    if k == 12:
        return enc('SETEND_T1', E=rng.getrandbits(1)), False
    if k == 13:
        if rng.random() < 0.5:
            return enc('CPS_T1', m=rng.getrandbits(1), A=rng.getrandbits(1), I=rng.getrandbits(1), F=rng.getrandbits(1)), False
        M = rng.getrandbits(1)
        return enc('CPS_T2', i=rng.choice((2, 3)) if not M or rng.random() < 0.7 else 0, M=M, A=rng.getrandbits(1), I=rng.getrandbits(1), F=rng.getrandbits(1),
                   m=valid_mode_number(rng, cfg) if M else 0), True
    if k == 14:
        return enc('SVC_T1', i=rng.getrandbits(8)), False
    if k == 15:
        return enc('UDF_T1', i=rng.getrandbits(8)), False
    if k == 16:
        return enc('LDR_imm_T1', i=rng.choice((0, 1, 2, 15)), n=rng.choice((6, 6, 6, 7)), t=d), False
    if k == 17:
        return enc('STR_imm_T1', i=rng.choice((0, 1, 2, 15)), n=rng.choice((6, 6, 6, 7)), t=d), False
    if k == 18:
        return enc('MOV_imm_T1', d=d, i=rng.getrandbits(8)), False
    if k == 19:
        return enc('ADD_imm_T2', d=d, i=rng.getrandbits(8)), False
    if k == 20:
        return enc('CMP_imm_T1', n=n, i=rng.choice((0, 1, 0x80, 0xFF))), False
    if k == 21:
        return enc('MOV_imm_T1', d=d, i=rng.getrandbits(8)), False
    if k == 22:
        return enc(rng.choice(('WFI_T1', 'WFE_T1', 'SEV_T1', 'NOP_T1', 'YIELD_T1'))), False
    if k == 23:
        return enc(rng.choice(('MUL_T2', 'QADD_T1')), n=n, d=d, m=m), True
    if k == 24:
        return enc('MOV_imm_T2', i=rng.getrandbits(12), S=rng.getrandbits(1), d=d), True
    if k == 25:
        return enc('ADD_imm_T3', S=rng.getrandbits(1), n=n, d=d, i=rng.getrandbits(8)), True
    if k == 26:
        return enc('SRS_T2' if rng.getrandbits(1) else 'SRS_T1', W=rng.getrandbits(1), m=valid_mode_number(rng, cfg)), True
    if k == 27:
        return enc('LDRD_imm_T1', P=1, U=1, W=0, n=6, t=rng.choice((0, 2)), u=rng.choice((1, 3, 4)), i=rng.choice((0, 1, 2))), True
    if k == 28:
        return enc('LDM_T1', n=rng.choice((6, 6, 7)), r=mask_lo(rng, 1)), False
    return enc('ADD_reg_T2', D=0, m=m, d=d), False


SIMPLE16 = ('MOV_imm_T1', 'ADD_imm_T2', 'CMP_imm_T1', 'LSL_imm_T1', 'AND_T1_dp', 'ADC_T1_dp', 'MVN_T1_dp')


def it_block(rng, xs):
    """IT + its 1..4 slots: simple 16-bit instructions, or - when given - the plan's Thumb instruction in one of the slots"""
    fc, mask = LEGAL_IT[rng.randrange(len(LEGAL_IT))]
    n = 4 - ((mask & -mask).bit_length() - 1)
    out = [(enc('IT_T1', f=fc, m=mask), False)]
    ROWS, _ = _rows()
    for i in range(n):
        if xs and rng.random() < 0.4:
            out.append(xs[rng.randrange(len(xs))])
        else:
            row = ROWS[rng.choice(SIMPLE16)][1]
            f = {k: rng.getrandbits(len(p)) & (7 if k in 'dnm' else M32) for k, p in row.fields.items()}
            for k in f:
                if k in 'dnm' and f[k] > 5:
                    f[k] -= 3
            out.append((row.build(**f), False))
    return out


# ------------------------------------------------------------------------------------------------ handlers at the vectors
def handlers(rng, te, cfg):
    """code for the device at 0 (VBAR = 0, low vectors): every vector branches to a stub that may execute one more instruction and then returns with the
    standard return instruction of that exception (skipping an aborted instruction). returns [(address, bytes)]"""
    out = []
    stubs = {0x04: ('undef', 0x20), 0x08: ('svc', 0x30), 0x10: ('dabt', 0x40), 0x18: ('irq', 0x50), 0x0C: ('pabt', 0x60)}
    for vec, (kind, stub) in stubs.items():
        off = {'undef': 0, 'svc': 0, 'dabt': 4, 'irq': 4, 'pabt': 4}[kind]
        if not te:
            out.append((vec, e1.enc_arm(0xEA000000 | (((stub - (vec + 8)) >> 2) & 0xFFFFFF))))
            body = b''
            if rng.random() < 0.6:
                k = rng.randrange(6)
                w = (enc('POP_A1', r=mask_lo(rng)), enc('LDM_A1', W=rng.getrandbits(1), n=6, r=mask_lo(rng)), enc('CLREX_A1'),
                     enc('MSR_imm_A1_app', m=rng.randrange(1, 4), i=rng.getrandbits(12)), enc('SEL_A1', n=lo(rng), d=lo(rng), m=lo(rng)),
                     enc('PUSH_A1', r=mask_lo(rng)))[k]
                body += e1.enc_arm(w)
            body += e1.enc_arm(0xE1B0F00E if off == 0 else 0xE25EF000 | off)
            out.append((stub, body))
        else:
            out.append((vec, e1.enc_thumb(0xE000 | (((stub - (vec + 4)) >> 1) & 0x7FF)) + b'\x00\xbf'))
            body = b''
            if rng.random() < 0.6:
                k = rng.randrange(8)
                w, is32 = ((enc('POP_T1', P=0, r=mask_lo(rng, 1)), False), (enc('LDM_T2', W=0, n=6, P=0, M=0, r=mask_lo(rng)), True), (enc('CLREX_T1'), True),
                           (enc('SEL_T1', n=lo(rng), d=lo(rng), m=lo(rng)), True), (enc('PUSH_T1', M=0, r=mask_lo(rng, 1)), False),
                           # 16-bit ALU forms: whether they set the flags is decided by the IT position the handler runs with (none: the entry cleared it)
                           (enc('ADD_imm_T2', d=lo(rng), i=rng.getrandbits(8)), False), (enc('MOV_imm_T1', d=lo(rng), i=rng.getrandbits(8)), False),
                           (enc('ADD_imm_T2', d=lo(rng), i=1), False))[k]
                body += e1.enc_thumb(w, is32)
            body += e1.enc_thumb(0xF3DE8F00 | off, True)
            out.append((stub, body))
    # FIQ handler sits at its vector
    out.append((0x1C, e1.enc_arm(0xE25EF004) if not te else e1.enc_thumb(0xF3DE8F04, True)))
    return out


INJECT = ('take_physical_irq_exception', 'take_physical_fiq_exception', 'send_event_local')
SCENARIOS = ('mix', 'mix', 'rwr', 'rwr', 'rwr', 'residue', 'monitor', 'trap', 'interwork', 'return', 'embedder', 'embedder', 'notimpl', 'monitor')


class Asm:
    """phrase builders for one instruction set; an instruction is (word, is32 or None for ARM, label or None)"""

    def __init__(self, thumb, rng, cfg):
        self.t, self.rng, self.cfg = thumb, rng, cfg

    def one(self, arm, thumb, is32=True):
        return [(enc(*arm[:1], **arm[1]), None, None)] if not self.t else [(enc(*thumb[:1], **thumb[1]), is32, None)]

    def pool(self):
        if self.t:
            w, is32 = pool_thumb(self.rng, self.cfg)
            return [(w, is32, None)]
        return [(pool_arm(self.rng, self.cfg), None, None)]

    # readers of a view of the PSR
    def reader(self, view):
        rng = self.rng
        d, n, m = lo(rng), lo(rng), lo(rng)
        if view == 'ge':
            return self.one(('SEL_A1', dict(n=n, d=d, m=m)), ('SEL_T1', dict(n=n, d=d, m=m)))
        if view == 'nzcv':
            if not self.t:
                return [(enc(rng.choice(('ADC_imm_A1', 'ADD_imm_A1', 'MOV_imm_A1')), c=rng.randrange(14), d=d, n=n, i=rng.getrandbits(8), S=0), None, None)]
            return [(enc('ADC_T1_dp', d=d, m=m), False, None)] if rng.random() < 0.5 else self.it_then(rng.randrange(14), [(enc('MOV_imm_T1', d=d, i=rng.getrandbits(8)), False, None)])
        if view == 'it':
            if not self.t:
                return self.reader('nzcv')
            return [(enc(rng.choice(('MOV_imm_T1', 'ADD_imm_T2')), d=d, i=rng.getrandbits(8)), False, None)]      # sets flags exactly when outside an IT block; conditional inside
        if view == 'e':
            return self.one(('LDR_imm_A1', dict(P=1, U=1, W=0, n=6, t=d, i=rng.choice((0, 4, 8)))), ('LDR_imm_T1', dict(i=rng.choice((0, 1, 2)), n=6, t=d)), False)
        if view == 'bank':
            if not self.t:
                return [(enc('MOV_reg_A1', S=0, d=d, m=rng.choice((13, 14, 8, 12))), None, None)]
            return [(enc('MOV_reg_T1', D=0, d=d, m=rng.choice((13, 14, 8, 12))), False, None)]
        raise KeyError(view)

    def translation_op(self):
        """an embedder write that changes how the data window is translated / protected"""
        rng = self.rng
        if self.cfg.get('memory_system_architecture', 'PMSA') == 'PMSA':
            return rng.choice((['xor', 'dracrs[1]', 3 << 8], ['xor', 'dracrs[1]', 2 << 8], ['xor', 'dracrs[1]', 1 << 8], ['toggle', 'drsrs[1]', 0], ['toggle', 'sctlr', 0],
                               ['xor', 'dracrs[1]', 7 << 8]))
        return rng.choice((['xor', 'dacr', 1], ['xor', 'dacr', 3], ['toggle', 'sctlr', 0], ['xor', 'fcseidr', 1 << 25], ['xor', 'dacr', rng.choice((1, 2, 3)) << (2 * rng.randrange(16))],
                           ['toggle', 'sctlr', 29]))

    def embedder_op(self):
        """something the embedder does through the Python API between two instructions: swaps the register file for a deep copy of itself, delivers an
        asynchronous abort, or writes a system register (the markers ['toggle', key, bit] / ['xor', key, mask] are resolved against the case's state)"""
        rng = self.rng
        r = rng.random()
        if r < 0.12:
            return 'swap_registers'
        if r < 0.2:
            return 'swap_cpsr'
        if r < 0.3:
            return 'take_data_abort'
        if r < 0.42:
            return ['hub', rng.choice(('swap', 'move', 'move', 'pop'))]        # resolved against the case's device list
        cands = [['toggle', 'sctlr', 13], ['toggle', 'sctlr', 13], ['toggle', 'sctlr', 1], ['toggle', 'sctlr', 25], ['toggle', 'sctlr', 30], ['toggle', 'sctlr', 27],
                 ['xor', 'vbar', rng.choice((0x80, 0x40, 0x20, 0x8000))], ['xor', 'vbar', 0x80], ['xor', 'cpacr', rng.getrandbits(28)], ['toggle', 'sctlr', 0]]
        if self.cfg.get('memory_system_architecture', 'PMSA') == 'PMSA':
            cands += [['xor', 'dracrs[1]', rng.choice((1, 2, 3, 4, 7)) << 8], ['toggle', 'drsrs[1]', 0], ['toggle', 'sctlr', 17], ['xor', 'dracrs[0]', 3 << 8]]
        else:
            cands += [['xor', 'dacr', rng.choice((1, 2, 3)) << (2 * rng.randrange(16))], ['toggle', 'sctlr', 28], ['toggle', 'sctlr', 29], ['xor', 'fcseidr', 1 << 25]]
        if self.cfg.get('have_security_ext', True):
            cands += [['toggle', 'scr', rng.randrange(1, 6)], ['xor', 'mvbar', 0x40]]
        if self.cfg.get('have_virt_ext'):
            cands += [['toggle', 'hcr', rng.choice((27, 13, 14, 19, 20, 3, 4, 5))], ['xor', 'hstr', rng.getrandbits(16)], ['xor', 'hvbar', 0x40]]
        return rng.choice(cands)

    def it_then(self, cond, instrs):
        return [(enc('IT_T1', f=cond, m=8), False, None)] + instrs

    # routes by which the PSR changes
    def route(self, kind):
        rng = self.rng
        d, n, m = lo(rng), lo(rng), lo(rng)
        if kind == 'msr_app':
            return self.one(('MSR_reg_A1_app', dict(m=rng.randrange(1, 4), n=5)), ('MSR_reg_T1_app', dict(m=rng.randrange(1, 4), n=5)))
        if kind == 'msr_sys':
            mask = rng.choice((6, 14, 15, 9, 5, 3, 2, 1, 7, 10, 4, 8, 12))
            return self.one(('MSR_reg_A1_sys', dict(r=0, m=mask, n=5)), ('MSR_reg_T1_sys', dict(r=0, m=mask, n=5)))
        if kind == 'msr_imm':
            if self.t:
                return self.route('msr_sys')
            return [(enc('MSR_imm_A1_sys', r=0, m=rng.choice((4, 8, 12, 2)), i=rng.getrandbits(12)), None, None)]
        if kind == 'ge_setter':
            nm = rng.choice(('UADD8', 'SSUB16', 'SADD8', 'USUB16', 'UASX', 'SSAX'))
            return self.one((nm + '_A1', dict(n=n, d=d, m=m)), (nm + '_T1', dict(n=n, d=d, m=m)))
        if kind == 'flag_setter':
            return self.one(('CMP_imm_A1', dict(n=n, i=rng.choice((0, 1, 0x80)))), ('CMP_imm_T1', dict(n=n, i=rng.choice((0, 1, 0x80)))), False)
        if kind == 'setend':
            e = rng.getrandbits(1)
            return self.one(('SETEND_A1', dict(E=e)), ('SETEND_T1', dict(E=e)), False)
        if kind == 'cps':
            M = rng.getrandbits(1)
            f = dict(i=rng.choice((2, 3)), M=M, A=rng.getrandbits(1), I=rng.getrandbits(1), F=rng.getrandbits(1), m=valid_mode_number(rng, self.cfg) if M else 0)
            return self.one(('CPS_A1', f), ('CPS_T2', f))
        if kind == 'svc':
            return self.one(('SVC_A1', dict(i=rng.getrandbits(24))), ('SVC_T1', dict(i=rng.getrandbits(8))), False)
        if kind == 'udf':
            return self.one(('UDF_A1', dict(i=rng.getrandbits(16))), ('UDF_T1', dict(i=rng.getrandbits(8))), False)
        if kind == 'abort':
            # R7 points just below a protected / unaligned place: a later word of the transfer aborts
            return self.one(('LDM_A1', dict(W=rng.getrandbits(1), n=7, r=mask_lo(rng, 3))), ('LDM_T2', dict(W=rng.getrandbits(1), n=7, P=0, M=0, r=mask_lo(rng, 3))))
        if kind == 'return':
            # the standard return instruction executed directly: LR (every bank) holds the address of the next instruction, the SPSRs a PSR that differs
            # from the current one in a few bits
            if not self.t:
                return [(rng.choice((0xE1B0F00E, 0xE25EF000)), None, 'RETURN')]
            return [(0xF3DE8F00, True, 'RETURN')]
        if kind == 'cp':
            f = dict(k=rng.randrange(8), n=rng.randrange(16), t=d, p=15, q=rng.randrange(8), m=rng.randrange(16))
            nm = rng.choice(('MCR', 'MRC'))
            return self.one((nm + '_A1', f), (nm + '_T1', f))
        if kind == 'wfx':
            nm = rng.choice(('WFI', 'WFE'))
            return self.one((nm + '_A1', {}), (nm + '_T1', {}), False)
        if kind == 'inject':
            return [('INJECT', None, rng.choice(INJECT[:2]))]
        if kind == 'embedder':
            return [('INJECT', None, self.embedder_op())]
        raise KeyError(kind)


VIEWS = ('ge', 'nzcv', 'it', 'e', 'bank')
AIMED = {'ge': ('msr_sys', 'msr_sys', 'msr_app', 'ge_setter', 'return', 'msr_imm'), 'nzcv': ('flag_setter', 'msr_sys', 'msr_app', 'return', 'msr_imm'),
         'it': ('return', 'return', 'svc', 'udf', 'inject', 'abort'), 'e': ('setend', 'msr_sys', 'return', 'svc', 'inject'),
         'bank': ('cps', 'msr_sys', 'return', 'svc', 'inject', 'udf')}
ROUTES = ('msr_app', 'msr_sys', 'msr_sys', 'msr_imm', 'ge_setter', 'flag_setter', 'setend', 'cps', 'svc', 'udf', 'abort', 'return', 'return', 'inject', 'wfx', 'cp', 'embedder', 'embedder')


def shard_history(plan_ref, seed, examples):
    import importlib
    from vf.props import e1prop
    mod, attr = plan_ref.split(':')
    plan = getattr(importlib.import_module(mod), attr)
    ROWS, TABLES = e1prop.ROWS, e1prop.TABLES
    acc = Acc()
    arm_rows = [r for r in plan.rows if ROWS[r][0] == 'arm']
    th_rows = [r for r in plan.rows if ROWS[r][0] != 'arm']
    t32_alias = [r for r in th_rows if ROWS[r][0] == 't32' and (ROWS[r][1].value >> 24) in (0xE8, 0xE9, 0xEE)]
    strat = st.tuples(st.integers(0, 2 ** 32 - 1), st.integers(0, 2 ** 64 - 1), st.integers(0, len(plan.cfgs) - 1))

    @hypothesis.seed(seed)
    @settings(max_examples=examples, deadline=None, database=None, phases=[Phase.generate], report_multiple_bugs=False,
              suppress_health_check=list(HealthCheck))
    @given(strat)
    def body(ex):
        mx = e1prop.mixed(ex)
        entropy, ci = mx.getrandbits(64), mx.randrange(len(plan.cfgs))
        rng = random.Random(entropy)
        cfgname = plan.cfgs[ci]
        cfg = gen.CONFIGS[cfgname]
        arch = cfg.get('arch_version', 6)
        scen = SCENARIOS[rng.randrange(len(SCENARIOS))]
        if scen == 'interwork' and not (t32_alias and arch >= 6):
            scen = 'rwr'
        if arm_rows and th_rows:
            thumb = rng.random() < 0.5
        else:
            thumb = not arm_rows
        if arch < 6 and arm_rows:
            thumb = False
        if scen == 'interwork':
            thumb = True
        names = th_rows if thumb else arm_rows

        def new_x(pool_names=None):
            for _try in range(8):
                nm = (pool_names or names)[rng.randrange(len(pool_names or names))]
                tn, row = ROWS[nm]
                w = e1prop.field_corner(row, e1prop.build_word(row, rng.getrandbits(32), rng.getrandbits(31)), rng.getrandbits(64))
                if plan.tweak_word:
                    w = plan.tweak_word(row, w, rng.getrandbits(64))
                if _try == 7 or predictable(cfgname, thumb, w, row.n) or rng.random() < 0.1:
                    break
            return nm, row, w, tn
        xs = [new_x(t32_alias if scen == 'interwork' else None)]
        if rng.random() < 0.4:
            xs.append(new_x())

        def X():
            x = xs[0] if rng.random() < 0.7 else xs[rng.randrange(len(xs))]
            return [(x[2], (x[3] == 't32') if thumb else None, x[0])]
        asm = Asm(thumb, rng, cfg)
        prog = []
        hooked = plan.hooked[rng.randrange(len(plan.hooked))]
        if scen == 'mix':
            for _ in range(rng.randrange(4, 9)):
                r = rng.random()
                if r < 0.4:
                    prog += X()
                elif thumb and r < 0.5:
                    prog += [(w, i32, None) for w, i32 in it_block(rng, [(x[2], x[3] == 't32') for x in xs if not x[0].startswith(('IT_', 'B_T1', 'CBZ'))])]
                else:
                    prog += asm.pool()
        elif scen == 'rwr':
            # read a view, change it by some route behind the reader's back, read it again; the plan's instruction before, between and after
            view = VIEWS[rng.randrange(len(VIEWS))]
            for _ in range(rng.randrange(1, 3)):
                if rng.random() < 0.6:
                    prog += X()
                prog += asm.reader(view)
                for _r in range(rng.randrange(1, 3)):
                    # mostly a route that can change this very view, sometimes any route
                    prog += asm.route(rng.choice(AIMED[view]) if rng.random() < 0.7 else ROUTES[rng.randrange(len(ROUTES))])
                if rng.random() < 0.4:
                    prog += X()
                prog += asm.reader(view)
            prog += X()
        elif scen == 'residue':
            # an instruction that dies half-way (abort on a later word / SVC / UDF), the handler transfers registers itself and returns, then the plan's instruction
            prog += X() if rng.random() < 0.5 else []
            prog += asm.route(rng.choice(('abort', 'abort', 'abort', 'svc', 'udf')))
            prog += asm.one(('POP_A1', dict(r=mask_lo(rng))), ('POP_T1', dict(P=0, r=mask_lo(rng, 1))), False) if rng.random() < 0.5 else asm.pool()
            prog += X()
            prog += asm.one(('LDM_A1', dict(W=0, n=6, r=mask_lo(rng))), ('LDM_T2', dict(W=0, n=6, P=0, M=0, r=mask_lo(rng))))
            prog += X() if rng.random() < 0.5 else asm.pool()
        elif scen == 'monitor':
            hooked = rng.random() < 0.5
            ldx = rng.choice(('LDREX', 'LDREX', 'LDREXB', 'LDREXH'))
            prog += asm.one((ldx + '_A1', dict(n=6, t=lo(rng))), (ldx + '_T1', dict(n=6, t=lo(rng), **({'i': 0} if ldx == 'LDREX' else {}))))
            for _ in range(rng.randrange(0, 3)):
                prog += X() if rng.random() < 0.5 else asm.pool()
            t = lo(rng)
            prog += asm.one(('STR_imm_A1', dict(P=1, U=1, W=0, n=6, t=t, i=rng.choice((4, 1, 2, 12, 0)))), ('STR_imm_T1', dict(i=rng.choice((1, 3, 0)), n=6, t=t)), False)
            prog += X()
            dd = (t + 1 + rng.randrange(4)) % 6
            prog += asm.one(('STREX_A1', dict(n=6, d=dd, t=t)), ('STREX_T1', dict(n=6, t=t, d=dd, i=0)))
            if rng.random() < 0.6:
                # the translation regime changes behind the store-exclusive (which fails on the stock flavour and mostly here): the next plain store to
                # the same address is translated and checked on its own
                prog += [('INJECT', None, asm.translation_op() if rng.random() < 0.8 else asm.embedder_op())]
                prog += asm.one(('STR_imm_A1', dict(P=1, U=1, W=0, n=6, t=t, i=0)), ('STR_imm_T1', dict(i=0, n=6, t=t)), False)
            prog += asm.reader('e')
        elif scen == 'trap':
            # an instruction that is trapped / takes an exception, then whatever the handler holds, then the program again
            prog += X() if rng.random() < 0.5 else []
            prog += asm.route(rng.choice(('cp', 'cp', 'cp', 'cp', 'wfx', 'wfx', 'svc', 'udf')))
            for _ in range(rng.randrange(2, 5)):
                prog += X() if rng.random() < 0.5 else asm.pool()
        elif scen == 'return' and thumb and rng.random() < 0.3:
            # the return is the last instruction of an IT block of the handler and restores exactly the state the handler runs in (SPSR = CPSR: same
            # mode, flags, masks - and the ITSTATE of that last slot): it changes nothing, but it is a return, the restored ITSTATE is not advanced
            same_fc = rng.randrange(14)
            prog += [(enc('IT_T1', f=same_fc, m=8), False, None), (0xF3DE8F00, True, 'RETURN_SAME')]
            for _r in range(rng.randrange(2, 5)):
                prog += X() if rng.random() < 0.4 else asm.reader(VIEWS[rng.randrange(len(VIEWS))])
        elif scen == 'return':
            for _ in range(rng.randrange(1, 3)):
                prog += X() if rng.random() < 0.5 else asm.reader(VIEWS[rng.randrange(len(VIEWS))])
                prog += asm.route('return')
                for _r in range(rng.randrange(1, 4)):
                    prog += X() if rng.random() < 0.4 else asm.reader(VIEWS[rng.randrange(len(VIEWS))])
        elif scen == 'embedder':
            # exceptions, transfers and the plan's instruction around things the embedder does through the Python API: a system register written between
            # two exceptions (vector base, high vectors, endianness / instruction set of handlers, MPU region attributes, domain access ...), the register
            # file saved and restored (replaced by a deep copy of itself), an asynchronous abort delivered between two instructions
            for _ in range(rng.randrange(2, 4)):
                prog += X() if rng.random() < 0.6 else asm.pool()
                if rng.random() < 0.35:
                    prog += [('INJECT', None, rng.choice(('take_data_abort', 'take_data_abort', 'swap_registers', INJECT[0], INJECT[1])))]      # right behind the plan's instruction
                    prog += asm.reader('bank') + asm.pool()
                prog += asm.route(rng.choice(('svc', 'udf', 'abort', 'inject', 'svc')))
                prog += asm.route('embedder')
                if rng.random() < 0.5:
                    prog += asm.one(('STR_imm_A1', dict(P=1, U=1, W=0, n=6, t=lo(rng), i=4)), ('STR_imm_T1', dict(i=1, n=6, t=lo(rng))), False)
                prog += asm.reader(VIEWS[rng.randrange(len(VIEWS))])
            prog += X()
        elif scen == 'notimpl':
            # an instruction that ends in the documented NotImplementedError of a mock hook (hint / barrier on the stock flavour) inside or outside an IT block;
            # the embedder catches the error and delivers an interrupt; the handler's first instruction must be decoded with the state the entry left
            hooked = False
            if thumb and rng.random() < 0.7:
                prog += [(enc('IT_T1', f=rng.randrange(14), m=rng.choice((8, 4, 12, 6))), False, None)]
            prog += asm.one((rng.choice(('YIELD_A1', 'SEV_A1', 'DSB_A1', 'ISB_A1')), {}), (rng.choice(('YIELD_T1', 'SEV_T1')), {}), False)
            prog += [('INJECT', None, rng.choice(INJECT[:2]))]
            for _ in range(rng.randrange(1, 4)):
                prog += asm.reader(rng.choice(('it', 'nzcv', 'ge')))
            prog += X()
        elif scen == 'interwork':
            if rng.random() < 0.6:
                prog += [(enc('IT_T1', f=rng.randrange(14), m=8), False, None)]
            prog += X()
            prog += asm.pool()
        # injections are markers in the program: they become case['inject'] entries for the step at which the next instruction executes
        inject = {}
        flat = []
        for ins in prog:
            if ins[0] == 'INJECT':
                inject[str(len(flat) + (2 if scen == 'interwork' else 0))] = ins[2]
            else:
                flat.append(ins)
        prog = flat
        if not prog:
            prog = X()
        code = b''
        offs = []
        for w, is32, _nm in prog:
            offs.append(len(code))
            code += e1.enc_arm(w) if is32 is None else e1.enc_thumb(w, is32)
        offs.append(len(code))
        code += (b'\x00\xbf' * 8) if thumb else e1.enc_arm(0xE1A00000) * 4
        nsteps = min(len(prog) + 8, 20)
        x0 = xs[0]
        kw = plan.case_kw(rng, x0[1])
        kw.pop('it', None)
        kw.pop('pc_off', None)
        kw.pop('pc_top', None)
        kw['code_base'] = 0x8000
        if scen in ('return',) and kw.get('mode') in (None, 'usr', 'sys', 'hyp'):
            kw['mode'] = rng.choice(('svc', 'irq', 'abt', 'und', 'fiq'))
        if scen == 'trap' and cfg.get('have_virt_ext') and rng.random() < 0.7:
            kw['ns'] = True
            kw['mode'] = rng.choice(('svc', 'usr', 'irq', 'sys'))
        pre = b''
        if scen == 'interwork':
            # ARM prologue: the identical 32-bit word as an ARM instruction, then BX R4 to the Thumb program
            pre = e1.enc_arm(x0[2]) + e1.enc_arm(enc('BX_A1', m=4)) + b'\x00' * 8
            case = gen.step_case(rng, cfgname, False, pre + code, steps=nsteps, hooked=hooked, it=0, **kw)
        else:
            case = gen.step_case(rng, cfgname, thumb, code, steps=nsteps, hooked=hooked, it=0, **kw)
        st_ = case['state']
        pc0 = st_['R.PC'] + len(pre)
        te = rng.getrandbits(1)
        st_['sctlr'] = (st_['sctlr'] & ~((1 << 30) | (1 << 13) | (1 << 24))) | (te << 30)
        if 'vbar' in st_:
            st_['vbar'] = 0
        st_['R.R6usr'] = gen.DATA[0] + 0x40
        st_['R.R7usr'] = rng.choice((gen.DATA[0] + 0x41, gen.DATA[0] + 0xF8, 0x60000000, gen.DATA[0] + 0x82, 0xFFFFFFFC, gen.DATA[0] + 0x20))
        for j, mname in enumerate(('usr', 'fiq', 'irq', 'svc', 'abt', 'und', 'mon', 'hyp')):
            st_['R.SP' + mname] = gen.DATA[0] + 0x48 + 0x10 * j
        # R5: a PSR value for MSR - the current one with a few bits changed (a view cached under a key that misses one bit shows only then), or any plausible one
        if rng.random() < 0.5:
            st_['R.R5usr'] = st_['cpsr'] ^ (1 << rng.randrange(32)) ^ ((1 << rng.randrange(32)) if rng.random() < 0.3 else 0)
        else:
            st_['R.R5usr'] = gen.gen_cpsr(rng, gen.CONFIGS_FULL(cfg), thumb)
        if scen == 'interwork':
            st_['R.R4usr'] = pc0 | 1
            st_['cpsr'] &= ~((1 << 5) | 0x0600FC00)
        if scen == 'trap' and cfg.get('have_virt_ext'):
            # trap controls mostly armed: HSTR.Tn for half of the CP15 primary registers or all of them, HCR.TIDCP / TWI / TWE / TSC at random
            st_['hstr'] = rng.choice((0xFFFF, 0xFFFF, rng.getrandbits(16), 0))
            st_['hcr'] = (st_.get('hcr', 0) & ~((1 << 27) | 1 | (1 << 12))) | (rng.getrandbits(1) << 20) | (rng.getrandbits(2) << 13) | (rng.getrandbits(1) << 19)
        if plan.tweak_case:
            plan.tweak_case(rng, x0[1], x0[2], case)
        same_rets = [i for i, ins in enumerate(prog) if ins[2] == 'RETURN_SAME']
        if same_rets:
            from vf.props.c05 import passing_flags
            nxt = (pc0 + offs[same_rets[0] + 1]) & M32
            for k in list(st_):
                if k.startswith('R.LR'):
                    st_[k] = nxt
            st_['cpsr'] = (st_['cpsr'] & 0x0FFFFFFF) | (passing_flags(rng, same_fc) << 28)
            it_ = (same_fc << 4) | 8
            v = (st_['cpsr'] & ~0x0600FC00) | ((it_ & 3) << 25) | ((it_ >> 2) << 10)
            for k in gen.SPSR_KEYS:
                st_[k] = v
        rets = [i for i, ins in enumerate(prog) if ins[2] == 'RETURN']
        if rets:
            # every LR bank returns to the instruction after the (first) return instruction; every SPSR restores the current PSR with 1-2 bits flipped
            # (execution state bits kept consistent with the program: same instruction set, no Jazelle)
            nxt = (pc0 + offs[rets[0] + 1]) & M32
            for k in list(st_):
                if k.startswith('R.LR'):
                    st_[k] = nxt
            flip = 1 << rng.choice((26, 25, 10, 11, 12, 13, 14, 15, 16, 17, 18, 19, 9, 8, 7, 6, 27, 28, 29, 30, 31, 0, 1, 2, 3))
            v = st_['cpsr'] ^ flip ^ ((1 << rng.randrange(32)) if rng.random() < 0.3 else 0)
            if rng.random() < 0.15:
                v = st_['cpsr']                # the SPSR equals the CPSR: a return that changes nothing is still a return
            v = (v & ~((1 << 24) | (1 << 5))) | ((1 if thumb else 0) << 5)
            if not thumb:
                v &= ~0x0600FC00
            if (v & 31) not in [gen.MODES[m_] for m_ in gen.valid_modes(gen.CONFIGS_FULL(cfg)) if m_ not in ('hyp', 'mon')]:
                v = (v & ~31) | (st_['cpsr'] & 31)
            for k in gen.SPSR_KEYS:
                st_[k] = v
        pmsa = cfg.get('memory_system_architecture', 'PMSA') == 'PMSA'
        if scen == 'residue' and pmsa and not (st_['sctlr'] & 1):
            # MPU: everything read/write except the upper half of the data device - a transfer that starts just below it dies on a later word
            nreg = gen.DEFAULT_MPU_REGIONS
            for r_ in range(nreg):
                st_['drsrs[%d]' % r_] = 0
            st_['mpuir'] = nreg << 8
            st_['drsrs[0]'], st_['drbars[0]'], st_['dracrs[0]'] = (31 << 1) | 1, 0, 3 << 8
            st_['drsrs[1]'], st_['drbars[1]'], st_['dracrs[1]'] = (6 << 1) | 1, gen.DATA[0] + 0x80, 0
            st_['sctlr'] |= 1
            st_['R.R7usr'] = gen.DATA[0] + 0x80 - 4 * rng.randrange(1, 3)
        for a, b in handlers(rng, te, cfg):
            case['poke'].append([a, b.hex()])
        if scen == 'mix' and rng.random() < 0.35:
            inject = {str(rng.randrange(1, max(2, len(prog)))): rng.choice(INJECT) for _ in range(rng.randrange(1, 3))}
        if scen in ('mix', 'rwr', 'residue') and rng.random() < 0.15:
            inject.setdefault(str(rng.randrange(1, max(2, len(prog)))), rng.choice(('swap_registers', 'swap_cpsr')))
        if scen in ('monitor', 'embedder') and pmsa and not (st_['sctlr'] & 1) and rng.random() < 0.7:
            # MPU on: everything read/write, region 1 over the data device (its attributes are what the embedder changes)
            nreg = gen.DEFAULT_MPU_REGIONS
            for r_ in range(nreg):
                st_['drsrs[%d]' % r_] = 0
            st_['mpuir'] = nreg << 8
            st_['drsrs[0]'], st_['drbars[0]'], st_['dracrs[0]'] = (31 << 1) | 1, 0, 3 << 8
            st_['drsrs[1]'], st_['drbars[1]'], st_['dracrs[1]'] = (8 << 1) | 1, gen.DATA[0] & ~0x1FF, 3 << 8
            st_['sctlr'] |= 1
        # system-register writes by the embedder: resolve the relative markers against the values the registers have in this case (a later write to the
        # same register builds on the earlier one)
        cur = {}
        nmem = len(case['mems'])
        for k_ in sorted(inject, key=int):
            op = inject[k_]
            if isinstance(op, list) and op[0] == 'hub' and len(op) == 2:
                # the embedder re-arranges the memory map between two instructions: two equally sized windows exchanged in place, one window moved to a free
                # range, the last device unplugged. Everything after it is judged against the new map (unmapped addresses read as zero, writes are dropped)
                ms_ = case['mems']
                pairs = [(i_, j_) for i_ in range(nmem) for j_ in range(i_ + 1, nmem) if ms_[i_][1] == ms_[j_][1]]
                if op[1] == 'swap' and pairs:
                    inject[k_] = ['hub', 'swap'] + list(rng.choice(pairs))
                elif op[1] == 'pop' and nmem > 3:
                    if rng.random() < 0.7 and not any(m_[0] == 0x40000 for m_ in ms_):
                        # the device that is unplugged is a larger one plugged in behind the others (two whole 4 KiB pages), and the program's data pointers
                        # point into it: it is used before it goes away, and the same addresses are used again afterwards
                        ms_.append([0x40000, 0x2000])
                        for rk, rv in list(st_.items()):
                            if rk.startswith('R.') and isinstance(rv, int) and 0x20000 <= rv < 0x20140:
                                st_[rk] = rv + 0x20F00
                        for pa_, hx_ in list(case['poke']):
                            if 0x20000 <= pa_ < 0x20140:
                                case['poke'].append([pa_ + 0x20F00, hx_])
                    else:
                        nmem -= 1
                    inject[k_] = ['hub', 'pop']
                else:
                    inject[k_] = ['hub', 'move', rng.randrange(nmem), rng.choice((0x30000, 0x28000, 0x8100, 0x20200, 0x100000))]
                continue
            if isinstance(op, list) and op[0] in ('toggle', 'xor'):
                base_v = cur.get(op[1], st_.get(op[1], 0))
                nv = base_v ^ ((1 << op[2]) if op[0] == 'toggle' else op[2])
                cur[op[1]] = nv
                inject[k_] = ['set', op[1], nv & M32] if op[1] in st_ or op[1] in ('vbar', 'mvbar', 'hvbar', 'cpacr', 'dacr', 'fcseidr', 'hstr', 'hcr', 'scr') else 'swap_registers'
        if inject:
            case['inject'] = inject
        res = diff.run(case)
        compared = res.step + (0 if (res.diffs or res.status in ('unpred', 'skip', 'notimpl', 'host-error')) else 1)
        acc.case(compared >= 3 and res.status not in ('unpred', 'skip'), ('hist', cfgname, code, case['state']['cpsr'], hooked, tuple(sorted((case.get('inject') or {}).items()))),
                 cls='history:%s:steps-compared:%s' % (scen, '0-2' if compared < 3 else '3-5' if compared < 6 else '6+'),
                 sample=lambda: {'scenario': scen, 'program': [('%#x' % w) + (':' + nm if nm else '') for w, _i, nm in prog], 'thumb': thumb, 'cfg': cfgname, 'steps_compared': compared,
                                 'inject': case.get('inject'), 'status': res.status})
        acc.cls('history:ended:' + res.status)
        for op_ in (case.get('inject') or {}).values():
            if isinstance(op_, list) and op_[0] == 'hub':
                acc.cls('history:map-changed:' + op_[1])
        if res.status in ('unpred', 'skip'):
            acc.excluded += 1
            if res.exc is not None and not target.escape_ok(res.exc):
                acc.violation('%s:history:host-error:%s' % (plan.prop, type(res.exc).__name__), case, {'exc': repr(res.exc), 'step': res.step})
            elif res.range_bad:
                acc.violation('%s:history:out-of-range' % plan.prop, case, {'keys': res.range_bad, 'step': res.step})
            return
        if res.status == 'notimpl' and not res.diffs:
            return
        if res.diffs:
            if any(True for _k in known.match(plan.prop, res, case)) or any(True for _k in known.match_elsewhere(plan.prop, res, case)):
                acc.excluded += 1
                acc.cls('excluded:known-finding-inside-a-history')
                return
            acc.violation('%s:history:%s:%s:step%d:%s' % (plan.prop, scen, res.row, res.step, e1prop.sig(res.diffs)), case,
                          {'diffs(expected,observed)': e1.fmt_diff(res.diffs), 'ref_status': res.status, 'ref_detail': res.detail, 'step': res.step, 'scenario': scen,
                           'program': [('%#x' % w) + (':' + nm if nm else '') for w, _i, nm in prog]})
    body()
    return acc
