"""C10 — register file integrity: banking across modes (Hypothesis rule-based machine against a bank-table model) and the
32-bit range invariant after every instruction (E1 runs concentrated on wrap-around arithmetic)."""
import random

import hypothesis
from hypothesis import settings, strategies as st, HealthCheck, Phase
from hypothesis.stateful import RuleBasedStateMachine, rule, initialize, invariant, precondition, run_state_machine_as_test

from vf import gen, target, diff, e1
from vf.runner import Acc
from vf.props import e1prop
from vf.ref import step  # noqa: F401
from vf.ref.core import REG
from vf.ref.machine import Machine, Unpred, Abort, cpsr_write_by_instr, M32

from armulator.armv6.arm_exceptions import DataAbortException
from armulator.armv6.enums import DAbort


class Mismatch(Exception):
    pass


CURRENT = {}
CFGS = ['v6', 'v7', 'v6-nosec', 'v7-virt', 'v6-rst']
# Hypothesis favours small integers (see e1prop.mixed): a bijective scramble keeps shrinking / replay and gives high bits the same chance
val = st.one_of(st.sampled_from(gen.CORNERS), st.integers(0, M32), st.integers(0, M32).map(lambda x: (x * 0x9E3779B1 + 0x7F4A7C15) & M32))


DUMPED = []          # configurations on which an earlier example of this process performed a register dump (process history, part of a replay)
DUMP_MODES = (0b10000, 0b10001, 0b10010, 0b10011, 0b10110, 0b10111, 0b11010, 0b11011, 0b11111)


def dump_banks(cpu):
    for mode in DUMP_MODES:
        for n in (13, 14):
            try:
                cpu.registers.get_rmode(n, mode)
            except Exception:       # noqa: BLE001 - reads of a mode the configuration lacks may be refused
                pass


def make_machine(acc):
    class RegMachine(RuleBasedStateMachine):
        @initialize(ci=st.integers(0, len(CFGS) - 1), seed=st.integers(0, 2 ** 32 - 1), thumb=st.booleans())
        def init(self, ci, seed, thumb):
            self.cfgname = CFGS[ci]
            self.cfg = diff.full_cfg(gen.CONFIGS[self.cfgname])
            rng = random.Random(seed)
            self.cpu = target.new_cpu(gen.CONFIGS[self.cfgname], False, [(0, 0x40)])
            stt = gen.gen_core(rng)
            stt['R.PC'] = 0x8000
            stt['cpsr'] = gen.gen_cpsr(rng, self.cfg, thumb, mode='svc', e=0)
            for k in gen.SPSR_KEYS:
                stt[k] = gen.gen_spsr(rng, self.cfg)
            stt['scr'] = 0
            stt['sctlr'] = rng.getrandbits(1) << 30
            target.apply_state(self.cpu, stt)
            self.M = Machine(target.snapshot(self.cpu, False), [], self.cfg)
            self.hist = [('init', self.cfgname, seed, thumb)]
            self.switches = 0
            self.cross_reads = 0
            CURRENT['hist'] = self.hist
            self.modes = [gen.MODES[m] for m in gen.valid_modes(self.cfg)]

        def _sync_thumb(self):
            self.M.thumb = bool((self.M.s['cpsr'] >> 5) & 1)

        @rule(n=st.integers(0, 14), v=val)
        def set_current(self, n, v):
            self.hist.append(('set', n, v))
            self.cpu.registers.set(n, v)
            self.M.setR(n, v)

        @rule(n=st.integers(0, 14), mi=st.integers(0, 8), v=val)
        def set_rmode(self, n, mi, v):
            mode = self.modes[mi % len(self.modes)]
            self.hist.append(('set_rmode', n, mode, v))
            self.cpu.registers.set_rmode(n, mode, v)
            self.M.setRmode(n, mode, v)
            if mode != self.M.mode:
                self.cross_reads += 1

        @rule()
        def dump_all_banks(self):
            # what a debugger's register dump does: SP and LR of every architected mode number are read through the explicit-mode accessor, whether or
            # not this configuration has the mode (what such a read returns is UNPREDICTABLE and ignored). It must leave this instance - and, the
            # examples of a shard sharing one process, every instance of any other configuration created afterwards - banked as specified
            self.hist.append(('dump',))
            dump_banks(self.cpu)
            if self.cfgname not in DUMPED:
                DUMPED.append(self.cfgname)

        @rule(mi=st.integers(0, 8))
        def switch_direct(self, mi):
            mode = self.modes[mi % len(self.modes)]
            if mode == gen.MODES['hyp'] or self.M.mode == gen.MODES['hyp']:
                self.cpu.registers.scr.ns = 1
                self.M.setbit('scr', 0, 1)
            self.hist.append(('mode', mode))
            self.cpu.registers.cpsr.m = mode
            self.M.setfield('cpsr', 4, 0, mode)
            self.switches += 1

        @rule(v=val, mask=st.integers(0, 15), ret=st.booleans())
        def cpsr_write(self, v, mask, ret):
            v &= ~(1 << 24)      # J=0: no Jazelle / ThumbEE in these configurations
            m2 = Machine(dict(self.M.s), [], self.cfg)
            try:
                cpsr_write_by_instr(m2, v, mask, ret)
            except Unpred:
                return
            self.hist.append(('cpsr_write_by_instr', v, mask, ret))
            self.cpu.registers.cpsr_write_by_instr(v, mask, ret)
            cpsr_write_by_instr(self.M, v, mask, ret)
            self.switches += 1

        @precondition(lambda self: hasattr(self, 'M') and self.M.mode not in (gen.MODES['usr'], gen.MODES['sys']))
        @rule(v=val)
        def set_spsr(self, v):
            self.hist.append(('set_spsr', v))
            self.cpu.registers.set_spsr(v)
            self.M.set_spsr(v)

        @rule(kind=st.sampled_from(['svc', 'undef', 'irq', 'fiq', 'dabort', 'smc', 'hyptrap']), pc=st.sampled_from([0x8000, 0, 2, 4, 0xFFFFFFFC, 0xFFFFFFFE, 0x1000]))
        def take_exception(self, kind, pc):
            if kind == 'smc' and not self.cfg['have_security_ext']:
                return
            if kind == 'hyptrap' and not self.cfg['have_virt_ext']:
                return
            if kind == 'hyptrap' and (self.M.is_secure() or self.M.is_hyp()):
                return
            if not self.M.thumb:
                pc &= ~3
            self.hist.append(('take', kind, pc))
            self.cpu.registers._R[target.RNAMES['PC']] = pc
            self.M.s['R.PC'] = pc
            r = self.cpu.registers
            if kind == 'svc':
                r.take_svc_exception()
                self.M.take_svc()
            elif kind == 'undef':
                r.take_undef_instr_exception()
                self.M.take_undef()
            elif kind == 'irq':
                r.take_physical_irq_exception()
                self.M.take_irq()
            elif kind == 'fiq':
                r.take_physical_fiq_exception()
                self.M.take_fiq()
            elif kind == 'dabort':
                r.take_data_abort_exception(DataAbortException(DAbort.PERMISSION, False))
                self.M.take_data_abort(Abort('permission', 0, False))
            elif kind == 'smc':
                r.take_smc_exception()
                self.M.take_smc()
            else:
                r.take_hyp_trap_exception()
                self.M.take_hyp_trap()
            self.switches += 1

        @invariant()
        def banks_agree(self):
            if not hasattr(self, 'M'):
                return
            snap = target.snapshot(self.cpu, False)
            bad = {}
            for k, v in self.M.s.items():
                if k in self.M.unknown:
                    continue
                if snap.get(k) != v:
                    ub = self.M.unknown_bits.get(k, 0)
                    if isinstance(v, int) and isinstance(snap.get(k), int) and not ((snap[k] ^ v) & ~ub):
                        continue
                    bad[k] = (v, snap.get(k))
            self.M.unknown.clear()
            if bad:
                raise Mismatch('state differs after %r: %r' % (self.hist[-1], bad))
            # explicit banked reads from every valid mode
            for n in range(15):
                for mode in self.modes:
                    got = self.cpu.registers.get_rmode(n, mode)
                    want = self.M.Rmode(n, mode)
                    if got != want:
                        raise Mismatch('get_rmode(%d, %#x) = %#x, model %#x after %r' % (n, mode, got, want, self.hist[-1]))
                if self.cpu.registers.get(n) != self.M.R(n):
                    raise Mismatch('get(%d) differs after %r' % (n, self.hist[-1]))
            rb = e1.in_range(snap)
            if rb:
                raise Mismatch('out of range %r after %r' % (rb, self.hist[-1]))

        def teardown(self):
            if not hasattr(self, 'hist'):
                return
            acc.case(self.switches >= 2 and self.cross_reads >= 1, ('h', tuple(map(str, self.hist))), cls='history',
                     sample={'history': [list(map(str, h)) for h in self.hist[:14]], 'mode_switches': self.switches})
            acc.extra['rules_executed'] = acc.extra.get('rules_executed', 0) + len(self.hist)
    return RegMachine


def shard_machine(seed, examples, steps):
    acc = Acc()
    Mch = make_machine(acc)
    try:
        run_state_machine_as_test(hypothesis.seed(seed)(Mch), settings=settings(
            max_examples=examples, stateful_step_count=steps, deadline=None, database=None, phases=[Phase.generate, Phase.shrink],
            report_multiple_bugs=False, suppress_health_check=list(HealthCheck)))
    except Mismatch as m:
        msg = str(m)
        kind = 'out-of-range' if msg.startswith('out of range') else ('banking' if 'get' in msg.split(' after ')[0] else 'state')
        last = CURRENT.get('hist', [('?',)])[-1]
        acc.violation('C10:history:%s:%s' % (kind, last[0] if last[0] != 'take' else 'take-' + last[1]),
                      {'history': [list(h) for h in CURRENT.get('hist', [])], 'earlier_dumps_in_this_process': list(DUMPED)}, msg[:1500])
    return acc


def replay_history(hist):
    """deterministic replay of a recorded history without Hypothesis; returns None or the mismatch text"""
    acc = Acc()
    Mch = make_machine(acc)
    m = Mch.__new__(Mch)
    RuleBasedStateMachine.__init__(m)
    try:
        for h in hist:
            op = h[0]
            if op == 'init':
                Mch.init.__wrapped__(m, CFGS.index(h[1]), h[2], h[3]) if hasattr(Mch.init, '__wrapped__') else m.init(CFGS.index(h[1]), h[2], h[3])
            elif op == 'set':
                m.set_current(h[1], h[2])
            elif op == 'set_rmode':
                m.set_rmode(h[1], m.modes.index(h[2]), h[3])
            elif op == 'mode':
                m.switch_direct(m.modes.index(h[1]))
            elif op == 'cpsr_write_by_instr':
                m.cpsr_write(h[1], h[2], h[3])
            elif op == 'set_spsr':
                m.set_spsr(h[1])
            elif op == 'dump':
                m.dump_all_banks()
            elif op == 'take':
                m.take_exception(h[1], h[2])
            m.banks_agree()
    except Mismatch as e:
        return str(e)
    return None


# ------------------------------------------------------------------------------------------------ range half (E1)
WRAP_ROWS = sorted(n for n, (d, x) in REG.items() if x.__module__ in ('vf.ref.sem_ls', 'vf.ref.sem_lsm', 'vf.ref.sem_br') and n in e1prop.ROWS) + \
    ['ADR_A1', 'ADR_A2', 'ADR_T1', 'ADR_T2', 'ADR_T3', 'SVC_A1', 'SVC_T1', 'UDF_A1', 'UDF_T1', 'SMC_A1']
# rows with a listed known finding under C04 / C03 are excluded here by construction (they do not concern the range invariant)
WRAP_ROWS = [r for r in WRAP_ROWS if r not in ('CBZ_T1', 'PUSH_T2')]
EDGE = [0, 1, 2, 3, 4, 8, 0x10, 0x3C, M32, M32 - 1, M32 - 3, M32 - 7, 0xFFFFFFF0, 0xFFFFFFC0, 0x80000000, 0x7FFFFFFC]


RETURN_ROWS = ('RFE_A1', 'RFE_T1', 'RFE_T2', 'LDM_eret_A1', 'SRS_A1', 'SRS_T1', 'SRS_T2', 'LDM_user_A1', 'STM_user_A1')


def _shape(row, w, entropy):
    from vf.props import c03
    return c03.shape_list(row, w, entropy)          # register lists: single / base only / base lowest / everything ... (banked bases in the user-bank forms)


def wrap_tweak(rng, row, w, case):
    if row.name in RETURN_ROWS and rng.random() < 0.8:
        # banking across an exception return: plausible stacked PSR / SPSR, base in mapped memory (see C12's generator)
        from vf.props import c12, c03
        c03.tweak(rng, row, w, case)
        c12.tweak(rng, row, w, case)
        return
    f = row.extract(w)
    st_ = case['state']
    mode = gen.MODE_NAME[st_['cpsr'] & 31]
    for fld in ('n', 'm'):
        v = f.get(fld)
        if isinstance(v, int) and v <= 14 and rng.random() < 0.8:
            st_[gen.bank_key(v, mode)] = rng.choice(EDGE)
    for k in list(st_):
        if k.startswith('R.SP') and rng.random() < 0.5:
            st_[k] = rng.choice(EDGE) & ~3
    if rng.random() < 0.3:
        st_['vbar'] = 0
        st_['sctlr'] = st_['sctlr'] | (1 << 13) if rng.random() < 0.5 else st_['sctlr']


def classify(res, case):
    out = []
    if res.status in ('ok', 'abort', 'undef', 'svc', 'smc') and res.cond_passed:
        M, pre = res.M, res.pre
        wrapped = any(k.startswith('R.') and isinstance(v, int) and pre.get(k) is not None and abs(v - pre[k]) > 0x80000000 for k, v in M.s.items())
        if wrapped:
            out.append('wrapped')
    return out


def nontrivial(res):
    if res.row in RETURN_ROWS and res.status == 'ok' and res.cond_passed:
        return True
    return bool(classify(res, None))


PLAN = e1prop.Plan('C10', WRAP_ROWS, cfgs=('v6', 'v7', 'v5', 'v7-tee', 'v7-virt', 'v6-rst', 'v7-rst'), classify=classify, nontrivial=nontrivial, tweak_case=wrap_tweak, tweak_word=_shape,
                   case_kw=lambda rng, row: dict({'mpu': False, 'mmu': False, 'e': 1 if rng.random() < 0.25 else 0, 'code_base': rng.choice((0, 0xFFFFFF00, 0xFFFF0000, 0x8000, 0x7FFFFF80))},
                                                **({'mode': rng.choice(('svc', 'irq', 'fiq', 'abt', 'und')), 'code_base': 0x8000} if row.name in RETURN_ROWS else {})))


# every other row with reference semantics: the range invariant holds after *every* instruction; operands at the 2^32 / 2^31 edges, multiplies
# with C09's generator (accumulate results of exactly / beyond 2^64), flag-setting forms included (a flag written as 2 widens CPSR)
OTHER_ROWS = sorted(n for n in REG if n in e1prop.ROWS and n not in WRAP_ROWS and n not in ('CBZ_T1', 'PUSH_T2', 'BFI_A1', 'BFI_T1', 'MRS_A1_app', 'MRS_T1_app'))
EDGE2 = EDGE + [0x7FFFFFFF, 0x80000001, 0xFFFF0000, 0x0000FFFF, 0x80008000, 0x7FFF7FFF]


def edge_tweak(rng, row, w, case):
    if REG[row.name][1].__module__ == 'vf.ref.sem_mul' and rng.random() < 0.8:
        from vf.props import c09
        c09.tweak(rng, row, w, case)
        return
    f = row.extract(w)
    st_ = case['state']
    mode = gen.MODE_NAME[st_['cpsr'] & 31]
    for fld in ('n', 'm', 'a', 's', 'h', 'l', 'd', 't'):
        v = f.get(fld)
        if isinstance(v, int) and v <= 14 and rng.random() < 0.7:
            st_[gen.bank_key(v, mode)] = rng.choice(EDGE2)


def classify_all(res, case):
    out = []
    if res.status in ('ok', 'undef', 'svc', 'smc') and res.cond_passed:
        M, pre = res.M, res.pre
        if (pre['cpsr'] ^ M.s['cpsr']) & 0xF80F0000:
            out.append('flags-written')
        if any(k.startswith('R.') and k != 'R.PC' and pre.get(k) != v for k, v in M.s.items()):
            out.append('register-written')
    return out


PLAN_ALL = e1prop.Plan('C10', OTHER_ROWS, cfgs=('v6', 'v7', 'v7r', 'v5', 'v7-tee', 'v7-virt', 'v6-rst'), classify=classify_all, nontrivial=lambda res: bool(classify_all(res, None)),
                       tweak_case=edge_tweak, case_kw=lambda rng, row: {'mpu': False, 'mmu': False, 'e': 1 if rng.random() < 0.25 else 0})


def run(ctx):
    ctx.rule = ('History half: Hypothesis RuleBasedStateMachine over a real Registers object (configs with/without security and virtualization): '
                'rules set(n,v), set_rmode(n,mode,v), direct mode switch, cpsr_write_by_instr (legal writes), set_spsr, every take_*_exception at PC values '
                'incl. 0/2/4/2^32-4/2^32-2; model = state dictionary keyed by physical bank (table A.1 of DESIGN.md) with the reference entry rules; after '
                'every rule the complete snapshot, every (n, mode) read and the 0..2^32-1 range are checked. Non-trivial history: >=2 mode switches and a '
                'banked write from another mode. Range half: load/store/block/branch/exception encodings with bases, SPs and instruction addresses at '
                '0 / 2^32 / 0x80000000 edges compared with the reference; non-trivial = a register moved across the 2^32 boundary (wrap). Plus every other encoding row '
                '(data-processing, multiply/SIMD, system) with operands at the 2^31 / 2^32 edges and exact-2^64 accumulates: complete comparison and the range invariant '
                '(registers, CPSR, SPSRs, ELR_hyp in 0..2^32-1) after every instruction; non-trivial = flags or a register written.')
    ctx.technique = 'stateful model-based property testing (Hypothesis rule-based machine) + differential stepping focused on wrap-around'
    ctx.assumptions = ['vf/ref bank table and exception-entry rules are faithful readings of DDI 0406C B1.3 / B1.9']
    tasks = [(shard_machine, (ctx.shard_seed(i), ctx.n(60, 2500), ctx.n(40, 50))) for i in range(16)]
    ctx.pmap(_dispatch, tasks)
    e1prop.run_plan(ctx, 'vf.props.c10:PLAN', PLAN, shards=16, quick=500, thorough=9000)
    e1prop.run_plan(ctx, 'vf.props.c10:PLAN_ALL', PLAN_ALL, shards=16, quick=500, thorough=9000)


def _dispatch(fn, args):
    return fn(*args)


def replay(case, bucket=None):
    if 'history' in case:
        hist = [tuple(h) for h in case['history']]
        for cn in case.get('earlier_dumps_in_this_process', []):
            dump_banks(target.new_cpu(gen.CONFIGS[cn], False, [(0, 0x40)]))
        msg = replay_history(hist)
        return [msg] if msg else []
    return e1prop.replay(PLAN, case) or e1prop.replay(PLAN_ALL, case)
