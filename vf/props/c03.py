"""C03 — block transfers and stack operations (E1 differential vs vf/ref/sem_lsm.py + PUSH;POP / STM;LDM round trips)."""
from vf import gen
from vf.props import e1prop
from vf.props.c02 import aim_base, classify
from vf.ref import step  # noqa: F401
from vf.ref.core import REG

ROWS = sorted(n for n, (d, x) in REG.items() if x.__module__ == 'vf.ref.sem_lsm') + ['PUSH_A2', 'POP_A2', 'PUSH_T3', 'POP_T3']
M32 = 0xFFFFFFFF


def tweak(rng, row, w, case):
    f = row.extract(w)
    st = case['state']
    mode = gen.MODE_NAME[st['cpsr'] & 31]
    if 'n' in f:
        aim_base(rng, row, w, case)
        k = gen.bank_key(f['n'], mode) if f['n'] <= 14 else None
    else:
        k = gen.bank_key(13, mode)
        if row.name.startswith('SRS'):
            tm = f.get('m', 0)
            if tm in gen.MODE_NAME:
                k = gen.bank_key(13, gen.MODE_NAME[tm])
    if k and rng.random() < 0.9:
        r = rng.random()
        if r < 0.75:
            p = gen.DATA[0] + 0x40 + 4 * rng.randrange(0, 0x20)
        elif r < 0.9:
            p = rng.choice((0, 4, 8, 0x40, M32 - 3, 0xFFFFFFF0, 0xFFFFFFC0, gen.DATA[0], gen.DATA[0] + gen.DATA[1]))
        else:
            p = gen.DATA[0] + 0x40 + rng.randrange(0, 0x80)
        st[k] = p & M32


def case_kw(rng, row):
    kw = {'mpu': False, 'mmu': False, 'e': rng.choice((0, 0, 0, 1))}
    if row.name in ('RFE_A1', 'RFE_T1', 'RFE_T2', 'LDM_eret_A1', 'LDM_user_A1', 'STM_user_A1', 'SRS_A1', 'SRS_T1', 'SRS_T2') and rng.random() < 0.85:
        kw['mode'] = rng.choice(('svc', 'irq', 'fiq', 'abt', 'und', 'svc', 'mon'))          # ('mon' falls back to a random mode where the configuration has none)
    return kw


def shape_list(row, w, entropy):
    """register lists a uniform 16-bit draw almost never produces: single register, two registers, everything, only / also the base, only / also
    PC or LR or SP, and the empty list (UNPREDICTABLE: totality only)"""
    if 'r' not in row.fields:
        return w
    import random
    rng = random.Random(entropy ^ 0x5EED)
    if row.name.startswith(('STM_user', 'LDM_user')) and 'n' in row.fields and rng.random() < 0.3:
        # user-bank forms: the base is a register that is banked in the (exception) mode executing the instruction, it is in the list, and it is the
        # first register transferred - the word stored / loaded for it belongs to the User bank, the address comes from the current bank
        nb_ = len(row.fields['r'])
        b = rng.choice((13, 14, 13, 14, 8, 10, 12))
        if b < nb_:
            v = (1 << b) | ((rng.getrandbits(nb_) >> (b + 1)) << (b + 1))
            for k_, val in (('n', b), ('r', v)):
                for j, p_ in enumerate(reversed(row.fields[k_])):
                    w = (w & ~(1 << p_)) | (((val >> j) & 1) << p_)
            return w
    if rng.random() >= 0.4:
        return w
    poss = row.fields['r']
    nb = len(poss)
    f = row.extract(w)
    base = f.get('n')
    kind = rng.randrange(9)
    if kind == 0:
        v = 1 << rng.randrange(nb)
    elif kind == 1:
        v = (1 << rng.randrange(nb)) | (1 << rng.randrange(nb))
    elif kind == 2:
        v = (1 << nb) - 1
    elif kind == 3 and isinstance(base, int) and base < nb:
        v = 1 << base
    elif kind == 4 and isinstance(base, int) and base < nb:
        v = (1 << base) | (1 << rng.randrange(nb))
    elif kind == 5:
        v = (1 << (nb - 1)) | (rng.getrandbits(nb) if rng.random() < 0.5 else 0)
    elif kind == 6:
        v = rng.getrandbits(nb) & rng.getrandbits(nb) & rng.getrandbits(nb)         # sparse (may be empty)
    elif kind == 8 and isinstance(base, int) and base < nb:
        v = (1 << base) | ((rng.getrandbits(nb) >> (base + 1)) << (base + 1))         # the base is the lowest register of the list (the first word transferred)
    else:
        v = ((1 << nb) - 1) ^ (1 << rng.randrange(nb))
    for j, p_ in enumerate(reversed(poss)):
        w = (w & ~(1 << p_)) | (((v >> j) & 1) << p_)
    if kind in (0, 3, 5) and rng.random() < 0.5:
        for hi in ('P', 'M'):                  # the separate PC / LR bits of the 16-bit and T2 encodings
            if hi in row.fields and len(row.fields[hi]) == 1:
                w = (w & ~(1 << row.fields[hi][0])) | (rng.getrandbits(1) << row.fields[hi][0])
    return w


PLAN = e1prop.Plan('C03', ROWS, cfgs=('v6', 'v7', 'v5', 'v7-virt'), classify=classify, case_kw=case_kw, tweak_case=tweak, tweak_word=shape_list)


PAIRS = [  # (store row, load row, base: 13 or None (random Rn), thumb, list mask)
    ('PUSH_A1', 'POP_A1', 13, False, 0x5FFF), ('PUSH_T1', 'POP_T1', 13, True, 0xFF), ('PUSH_T2', 'POP_T2', 13, True, 0x1FFF),
    ('STMDB_A1', 'LDM_A1', None, False, 0x5FFF), ('STM_A1', 'LDMDB_A1', None, False, 0x5FFF), ('STMDA_A1', 'LDMIB_A1', None, False, 0x5FFF),
    ('STMIB_A1', 'LDMDA_A1', None, False, 0x5FFF), ('STMDB_T1', 'LDM_T2', None, True, 0x1FFF), ('STM_T2', 'LDMDB_T1', None, True, 0x1FFF),
]


def shard_roundtrip(seed, count):
    """metamorphic, no reference model: store-multiple ; clobber listed registers ; matching load-multiple restores them and the base"""
    import random
    from vf import e1, target
    from vf.runner import Acc
    acc = Acc()
    rng = random.Random(seed)
    for _ in range(count):
        srow, lrow, base, thumb, mask = PAIRS[rng.randrange(len(PAIRS))]
        regs = rng.getrandbits(16) & mask
        if rng.random() < 0.3:
            regs = (1 << rng.randrange(13)) | (1 << rng.randrange(13))
        n = base if base is not None else rng.randrange(13)
        regs &= ~(1 << n) & 0xFFFF
        if bin(regs).count('1') < 2:
            regs |= 0b11 if n > 1 else 0b1100
        tn, rs = e1prop.ROWS[srow]
        tn, rl = e1prop.ROWS[lrow]
        if thumb:
            regs &= 0xFF if rs.n == 16 else 0x5FFF
            regs &= ~(1 << n) & 0xFFFF
            if bin(regs).count('1') < 2:
                regs |= 0b11 if n > 1 else 0b1100

        def build(row):
            f = {k: 0 for k in row.fields}
            if 'c' in f:
                f['c'] = 14
            if 'n' in f:
                f['n'] = n
            if 'W' in f:
                f['W'] = 1
            f['r'] = regs & ((1 << len(row.fields['r'])) - 1)
            if 'M' in f:
                f['M'] = (regs >> 14) & 1
            if 'P' in f:
                f['P'] = 0
            return row.build(**f)
        ws, wl = build(rs), build(rl)
        if thumb:
            code = e1.enc_thumb(ws, rs.n == 32) + e1.enc_thumb(wl, rl.n == 32)
        else:
            code = e1.enc_arm(ws) + e1.enc_arm(wl)
        mode = rng.choice(('usr', 'svc', 'irq', 'fiq', 'sys', 'abt'))
        case = gen.step_case(rng, rng.choice(('v6', 'v7')), thumb, code, mode=mode, it=0, e=rng.choice((0, 0, 1)), mpu=False, code_base=0x8000)
        k = gen.bank_key(n, mode)
        case['state'][k] = (gen.DATA[0] + 0x50 + 4 * rng.randrange(0, 0x18)) if rng.random() < 0.9 else 0x40
        cpu = e1.build(case)
        pre = target.snapshot(cpu, False)
        e = target.step_budget(cpu)
        listed = [gen.bank_key(i, mode) for i in range(15) if (regs >> i) & 1]
        mid = target.snapshot(cpu, False)
        target.apply_state(cpu, {kk: (mid[kk] ^ 0xA5A5A5A5) & 0xFFFFFFFF for kk in listed})
        e2 = target.step_budget(cpu) if e is None else None
        post = target.snapshot(cpu, False)
        taken = (mid['cpsr'] & 31) != (pre['cpsr'] & 31) or (post['cpsr'] & 31) != (pre['cpsr'] & 31)
        acc.case(not taken, ('rt', ws, wl, case['state']['cpsr'], case['state'][k]), cls='roundtrip:' + srow,
                 sample={'store': '%#x' % ws, 'load': '%#x' % wl, 'base_reg': n, 'registers': '%#06x' % regs, 'mode': mode})
        if e is not None or e2 is not None:
            acc.violation('C03:roundtrip:host-error:' + srow, case, {'exc': repr(e or e2)})
            continue
        if taken:
            continue        # an abort was taken (e.g. wrap into unmapped space is fine, alignment): not a round trip
        bad = {kk: (pre[kk], post[kk]) for kk in listed + [k] if pre[kk] != post[kk]}
        if bad:
            acc.violation('C03:roundtrip:%s;%s' % (srow, lrow), case, {'not_restored(pre,post)': bad, 'registers': regs, 'base': n})
    return acc


def run(ctx):
    ctx.rule = ('Hypothesis draws (LDM/STM IA/IB/DA/DB, PUSH/POP incl. single-register forms, user-bank and exception-return LDM/STM, SRS, RFE; '
                'register list bits, W, base register, entropy, arch 5/6/7); the base / banked SP is aimed into mapped memory, at device edges '
                'and at 0 / 2^32 (wrap-around); every privileged mode for the banked forms; emulate_cycle() is compared with the reference '
                'machine on the complete snapshot (every bank, CPSR, every memory byte; UNKNOWN masks for base-in-list). Non-trivial: '
                'condition passed and state other than PC changed; distinct = (word, CPSR, registers). Plus a reference-free metamorphic round trip: '
                'store-multiple; harness clobbers the listed registers; the matching load-multiple (PUSH/POP, STMDB/LDMIA, STMIA/LDMDB, STMDA/LDMIB, '
                'STMIB/LDMDA, ARM and Thumb) must restore every listed register and the base.')
    ctx.technique = 'property-based differential testing against an independent reference interpreter (Hypothesis-driven generation)'
    ctx.assumptions = ['vf/ref (tables + sem_lsm.py + machine.py) is a faithful reading of DDI 0406C', 'MPU/MMU off here (C14/C15)']
    e1prop.run_plan(ctx, 'vf.props.c03:PLAN', PLAN, shards=32, quick=500, thorough=9000)
    ctx.pmap(_rt, [(ctx.shard_seed(1000 + i), ctx.n(1500, 30000)) for i in range(16)])


def _rt(seed, count):
    return shard_roundtrip(seed, count)


def replay(case, bucket=None):
    return e1prop.replay(PLAN, case)
