"""C17 — bit-vector primitives and register field views vs the ARM ARM pseudocode (bit-list oracle + field table)."""
import itertools
import random

from vf import target
from vf.runner import Acc
from vf.ref import bits as rb
from vf.ref.fields import FIELDS, INDEXED

from armulator.armv6 import bits_ops as bo
from armulator.armv6 import shift as sh

SR = {rb.LSL: sh.SRType.LSL, rb.LSR: sh.SRType.LSR, rb.ASR: sh.SRType.ASR, rb.ROR: sh.SRType.ROR, rb.RRX: sh.SRType.RRX}
SRN = {v: k for k, v in SR.items()}
CORNERS32 = [0, 1, 2, 3, 0x7F, 0x80, 0xFF, 0x100, 0x7FFF, 0x8000, 0xFFFF, 0x10000, 0x7FFFFFFF, 0x80000000, 0xFFFFFFFE,
             0xFFFFFFFF, 0x55555555, 0xAAAAAAAA, 0x80000001, 0x40000000]


def _call(acc, name, args, fn, expect, nontrivial=True):
    """run armulator fn(*args) and compare with expect (value or callable)"""
    try:
        got = fn(*args)
    except Exception as e:  # a host error on in-domain input is a failure of the property
        got = ('EXC', type(e).__name__)
    want = expect() if callable(expect) else expect
    acc.case(nontrivial, (name, args), cls=name, sample={'fn': name, 'args': list(args), 'result': _j(got)})
    if _norm(got) != _norm(want):
        acc.violation('C17:' + name, {'fn': name, 'args': list(args)}, {'expected': _j(want), 'observed': _j(got)})


def _norm(v):
    if isinstance(v, tuple):
        return tuple(_norm(x) for x in v)
    if isinstance(v, bool):
        return int(v)
    if isinstance(v, sh.SRType):
        return SRN[v]
    return v


def _j(v):
    v = _norm(v)
    return list(v) if isinstance(v, tuple) else v


# ------------------------------------------------------------------------------------------------ oracle adapters
def o_shift(kind, x, n, s, cin=0):
    b = rb.B(x, n)
    if kind == 'lsl_c':
        r, c = rb.lsl_c(b, s)
    elif kind == 'lsr_c':
        r, c = rb.lsr_c(b, s)
    elif kind == 'asr_c':
        r, c = rb.asr_c(b, s)
    elif kind == 'ror_c':
        r, c = rb.ror_c(b, s)
    elif kind == 'rrx_c':
        r, c = rb.rrx_c(b, cin)
    return rb.U(r), c


def expected(name, args):
    """independent expected value for armulator function `name` on `args`"""
    if name in ('lsl_c', 'lsr_c', 'asr_c', 'ror_c'):
        x, n, s = args
        return o_shift(name, x, n, s)
    if name in ('lsl', 'lsr', 'asr', 'ror'):
        x, n, s = args
        return x if s == 0 else o_shift(name + '_c', x, n, s)[0]
    if name == 'rrx_c':
        x, n, c = args
        return o_shift('rrx_c', x, n, 1, c)
    if name == 'rrx':
        x, n, c = args
        return o_shift('rrx_c', x, n, 1, c)[0]
    if name in ('shift_c', 'shift'):
        x, n, t, amt, cin = args
        r, c = rb.shift_c(rb.B(x, n), SRN[t], amt, cin)
        return (rb.U(r), c) if name == 'shift_c' else rb.U(r)
    if name == 'add_with_carry':
        x, y, c, n = args
        r, co, ov = rb.add_with_carry(rb.B(x, n), rb.B(y, n), c)
        return rb.U(r), co, ov
    if name == 'sign_extend':
        x, a, b = args
        return rb.U(rb.sign_extend(rb.B(x, a), b))
    if name == 'to_signed':
        return rb.S(rb.B(args[0], args[1]))
    if name == 'to_unsigned':
        return rb.U(rb.B(args[0], args[1]))
    if name == 'lower_chunk':
        return rb.U(rb.B(args[0], 80)[0:args[1]])
    if name == 'add':
        return rb.U(rb.add_with_carry(rb.B(args[0], args[2]), rb.B(args[1], args[2]), 0)[0])
    if name == 'sub':
        n = args[2]
        return rb.U(rb.add_with_carry(rb.B(args[0], n), [1 - v for v in rb.B(args[1], n)], 1)[0])
    if name == 'signed_sat_q':
        r, s = rb.signed_sat_q(*args)
        return rb.U(r), s
    if name == 'unsigned_sat_q':
        r, s = rb.unsigned_sat_q(*args)
        return rb.U(r), s
    if name == 'signed_sat':
        return rb.U(rb.signed_sat_q(*args)[0])
    if name == 'unsigned_sat':
        return rb.U(rb.unsigned_sat_q(*args)[0])
    if name == 'sat_q':
        i, n, u = args
        r, s = (rb.unsigned_sat_q if u else rb.signed_sat_q)(i, n)
        return rb.U(r), s
    if name == 'sat':
        i, n, u = args
        return rb.U((rb.unsigned_sat_q if u else rb.signed_sat_q)(i, n)[0])
    if name == 'substring':
        x, m, l = args
        return rb.U(rb.B(x, 80)[l:m + 1])
    if name == 'bit_at':
        return rb.B(args[0], 80)[args[1]]
    if name == 'set_substring':
        x, m, l, v = args
        b = rb.B(x, 80)
        b[l:m + 1] = rb.B(v, m + 1 - l)
        return rb.U(b)
    if name == 'set_bit_at':
        x, i, v = args
        b = rb.B(x, 80)
        b[i] = 1 if v else 0
        return rb.U(b)
    if name == 'chain':
        hi, lo, ln = args
        return rb.U(rb.cat(rb.B(hi, 40), rb.B(lo, ln)))
    if name == 'bit_count':
        x, bit, ln = args
        ones = rb.bit_count(rb.B(x, ln))
        return ones if bit else ln - ones
    if name == 'is_ones':
        x, ln = args
        return all(rb.B(x, ln)) if ln else True
    if name == 'lowest_set_bit_ref':
        return rb.lowest_set_bit(rb.B(args[0], args[1]))
    if name == 'align':
        return rb.align(*args)
    if name == 'bit_not':
        return rb.U([1 - v for v in rb.B(args[0], args[1])])
    if name == 'big_endian_reverse':
        x, n = args
        return rb.U(rb.big_endian_reverse(rb.B(x, 8 * n), n))
    if name == 'decode_imm_shift':
        return rb.decode_imm_shift(*args)
    if name == 'decode_reg_shift':
        return rb.decode_reg_shift(*args)
    if name == 'arm_expand_imm_c':
        r, c = rb.arm_expand_imm_c(*args)
        return rb.U(r), c
    if name == 'arm_expand_imm':
        return rb.U(rb.arm_expand_imm_c(args[0], 0)[0])
    raise KeyError(name)


FN = {n: getattr(bo, n) for n in ('add', 'sub', 'sign_extend', 'to_signed', 'to_unsigned', 'lower_chunk', 'add_with_carry',
                                  'signed_sat_q', 'unsigned_sat_q', 'signed_sat', 'unsigned_sat', 'sat_q', 'sat', 'align',
                                  'lowest_set_bit_ref', 'substring', 'bit_not', 'set_substring', 'bit_at', 'set_bit_at',
                                  'chain', 'bit_count', 'big_endian_reverse', 'is_ones')}
FN.update({n: getattr(sh, n) for n in ('decode_imm_shift', 'decode_reg_shift', 'lsl_c', 'lsl', 'lsr_c', 'lsr', 'asr_c', 'asr',
                                       'ror_c', 'ror', 'rrx_c', 'rrx', 'shift_c', 'shift', 'arm_expand_imm_c',
                                       'arm_expand_imm', 'thumb_expand_imm_c', 'thumb_expand_imm')})


def chk(acc, name, args, nontrivial=True):
    _call(acc, name, args, FN[name], lambda: expected(name, args), nontrivial)


# ------------------------------------------------------------------------------------------------ shards
def shard_small(n):
    """all arguments at width n"""
    acc = Acc()
    vals = range(2 ** n)
    maxs = 2 * n + 1
    for x in vals:
        for s in range(0, maxs + 1):
            for f in ('lsl', 'lsr', 'asr', 'ror'):
                if s > 0:
                    chk(acc, f + '_c', (x, n, s))
                chk(acc, f, (x, n, s))
            for t in (rb.LSL, rb.LSR, rb.ASR, rb.ROR):
                for cin in (0, 1):
                    chk(acc, 'shift_c', (x, n, SR[t], s, cin))
            chk(acc, 'shift', (x, n, SR[rb.ROR], s, 1))
        for cin in (0, 1):
            chk(acc, 'rrx_c', (x, n, cin))
            chk(acc, 'rrx', (x, n, cin))
            chk(acc, 'shift_c', (x, n, SR[rb.RRX], 1, cin))
        for y in vals:
            for cin in (0, 1):
                chk(acc, 'add_with_carry', (x, y, cin, n))
            chk(acc, 'add', (x, y, n))
            chk(acc, 'sub', (x, y, n))
        chk(acc, 'to_signed', (x, n))
        chk(acc, 'bit_not', (x, n))
        chk(acc, 'lowest_set_bit_ref', (x, n))
        chk(acc, 'is_ones', (x, n))
        for bit in (0, 1):
            chk(acc, 'bit_count', (x, bit, n))
        for d in range(n, n + 10):
            chk(acc, 'sign_extend', (x, n, d))
        for m in range(n):
            for l in range(m + 1):
                chk(acc, 'substring', (x, m, l))
                for v in range(2 ** (m + 1 - l)):
                    chk(acc, 'set_substring', (x, m, l, v))
            chk(acc, 'bit_at', (x, m))
            for v in (0, 1):
                chk(acc, 'set_bit_at', (x, m, v))
        for k in range(0, n + 3):
            chk(acc, 'lower_chunk', (x, k))
        for hi in range(0, 9):
            chk(acc, 'chain', (hi, x, n))
    for i in range(-(2 ** n) - 3, 2 ** n + 4):
        for w in range(1, n + 1):
            for f in ('signed_sat_q', 'unsigned_sat_q', 'signed_sat', 'unsigned_sat'):
                chk(acc, f, (i, w))
            for u in (False, True):
                chk(acc, 'sat_q', (i, w, u))
                chk(acc, 'sat', (i, w, u))
        chk(acc, 'to_unsigned', (i, n))
    for x in range(0, 2 ** n + 2):
        for y in (1, 2, 4, 8):
            chk(acc, 'align', (x, y))
    acc.exhaustive = True
    return acc


def shard_imm(part):
    acc = Acc()
    if part == 'arm':
        for imm in range(4096):
            for c in (0, 1):
                chk(acc, 'arm_expand_imm_c', (imm, c))
            chk(acc, 'arm_expand_imm', (imm,))
    elif part == 'thumb':
        for imm in range(4096):
            for c in (0, 1):
                r, co, unp = rb.thumb_expand_imm_c(imm, c)
                want = (rb.U(r), co)
                if unp:   # UNPREDICTABLE: any value, but no host error
                    _call(acc, 'thumb_expand_imm_c', (imm, c), lambda a, b: 0 * sh.thumb_expand_imm_c(a, b)[0], 0, False)
                    acc.excluded += 1
                else:
                    _call(acc, 'thumb_expand_imm_c', (imm, c), sh.thumb_expand_imm_c, want)
            r, co, unp = rb.thumb_expand_imm_c(imm, 0)
            if not unp:
                _call(acc, 'thumb_expand_imm', (imm,), sh.thumb_expand_imm, rb.U(r))
    else:
        for t in range(4):
            for i in range(32):
                chk(acc, 'decode_imm_shift', (t, i))
            chk(acc, 'decode_reg_shift', (t,))
        for n in (1, 2, 4, 8):
            pats = [sum(((i * 17 + 1 + k) & 0xFF) << (8 * i) for i in range(n)) for k in range(40)] + [0, 2 ** (8 * n) - 1]
            for p in pats:
                chk(acc, 'big_endian_reverse', (p, n))
    acc.exhaustive = True
    return acc


def shard_wide(seed, count):
    """32/64-bit operands: corners + random, every shift amount 0..255"""
    acc = Acc()
    rng = random.Random(seed)

    def val(n):
        if rng.random() < 0.5:
            return rng.choice(CORNERS32) & (2 ** n - 1) if n <= 32 else (rng.choice(CORNERS32) << rng.choice((0, 16, 32))) & (2 ** n - 1)
        return rng.getrandbits(n)
    for _ in range(count):
        n = rng.choice((32, 32, 32, 64, 16))
        x, y = val(n), val(n)
        s = rng.randrange(256) if rng.random() < 0.8 else rng.choice((256, 257, 288, 511, 512, 1023, 256 + rng.randrange(256), rng.randrange(256, 5000)))      # (amounts come from Rs<7:0> in instructions, but the helpers are defined for any amount)
        cin = rng.getrandbits(1)
        nt = s >= 1
        for f in ('lsl', 'lsr', 'asr', 'ror'):
            if s > 0:
                chk(acc, f + '_c', (x, n, s), nt)
            chk(acc, f, (x, n, s), nt)
        t = rng.choice((rb.LSL, rb.LSR, rb.ASR, rb.ROR))
        chk(acc, 'shift_c', (x, n, SR[t], s, cin), nt)
        chk(acc, 'shift_c', (x, n, SR[rb.RRX], 1, cin))
        chk(acc, 'add_with_carry', (x, y, cin, n))
        chk(acc, 'add', (x, y, n))
        chk(acc, 'sub', (x, y, n))
        a = rng.randrange(1, n + 1)
        chk(acc, 'sign_extend', (x & (2 ** a - 1), a, n))
        chk(acc, 'to_signed', (x, n))
        i = rb.S(rb.B(x, n)) * rng.choice((1, 2, 3, -1)) + rng.choice((0, 1, -1))
        w = rng.randrange(1, 33)
        chk(acc, 'signed_sat_q', (i, w))
        chk(acc, 'unsigned_sat_q', (i, w))
        m = rng.randrange(n)
        l = rng.randrange(m + 1)
        chk(acc, 'substring', (x, m, l))
        chk(acc, 'set_substring', (x, m, l, y & (2 ** (m + 1 - l) - 1)))
        chk(acc, 'bit_count', (x, 1, n))
        chk(acc, 'lowest_set_bit_ref', (x, n))
        chk(acc, 'big_endian_reverse', (x & (2 ** 64 - 1) if n == 64 else x & 0xFFFFFFFF, 8 if n == 64 else 4))
    return acc


def shard_fields(seed):
    """every register class x field x every in-range value x background images"""
    acc = Acc()
    rng = random.Random(seed)
    target.load_config()
    import importlib
    for (modname, clsname, ctor), flds in sorted(FIELDS.items()):
        mod = importlib.import_module('armulator.armv6.all_registers.' + modname)
        cls = getattr(mod, clsname)

        def mk():
            return cls(*ctor)
        for (fname, bitpos) in flds:
            # bitpos: list of (msb, lsb) runs, most significant run first (composite fields have several)
            width = sum(m - l + 1 for m, l in bitpos)
            vals = range(2 ** width) if width <= 8 else sorted({0, 1, 2 ** width - 1, 2 ** (width - 1)} | {rng.getrandbits(width) for _ in range(40)} | {1 << k for k in range(width)})
            for bg in (0, 0xFFFFFFFF, rng.getrandbits(32), rng.getrandbits(32)):
                for v in vals:
                    reg = mk()
                    reg.value = bg
                    # expected getter on bg
                    want_get = 0
                    for m, l in bitpos:
                        want_get = (want_get << (m - l + 1)) | ((bg >> l) & (2 ** (m - l + 1) - 1))
                    want_val = bg
                    rem = width
                    for m, l in bitpos:
                        w = m - l + 1
                        rem -= w
                        part = (v >> rem) & (2 ** w - 1)
                        want_val = (want_val & ~((2 ** w - 1) << l)) | (part << l)
                    case = {'cls': clsname, 'field': fname, 'bg': bg, 'v': v}
                    try:
                        if isinstance(fname, tuple):    # indexed accessor ('get_x_n', 'set_x_n', n)
                            g = getattr(reg, fname[0])(fname[2])
                            getattr(reg, fname[1])(fname[2], v)
                            after = reg.value
                            g2 = getattr(reg, fname[0])(fname[2])
                        else:
                            g = getattr(reg, fname)
                            setattr(reg, fname, v)
                            after = reg.value
                            g2 = getattr(reg, fname)
                    except Exception as e:
                        acc.violation('C17:field:%s.%s:exception' % (clsname, fname), case, repr(e))
                        acc.case(True, ('f', clsname, fname, bg, v), cls='field')
                        continue
                    acc.case(True, ('f', clsname, str(fname), bg, v), cls='field',
                             sample={'register': clsname, 'field': str(fname), 'bits': bitpos, 'background': bg, 'write': v, 'after': after})
                    if int(g) != want_get:
                        acc.violation('C17:field:%s.%s:get' % (clsname, fname), case, {'expected': want_get, 'observed': int(g)})
                    elif after != want_val:
                        acc.violation('C17:field:%s.%s:set' % (clsname, fname), case, {'expected': want_val, 'observed': after})
                    elif int(g2) != v:
                        acc.violation('C17:field:%s.%s:get-after-set' % (clsname, fname), case, {'expected': v, 'observed': int(g2)})
    # generic sweep over every property object on every register class: a write touches only the bits all-ones touches
    import pkgutil
    import armulator.armv6.all_registers as ar
    seen = 0
    for mi in pkgutil.iter_modules(ar.__path__):
        mod = importlib.import_module('armulator.armv6.all_registers.' + mi.name)
        for cname, cls in vars(mod).items():
            if not (isinstance(cls, type) and issubclass(cls, target.AbstractRegister) and cls is not target.AbstractRegister
                    and cls.__module__ == mod.__name__):
                continue
            for pname, p in vars(cls).items():
                if not isinstance(p, property) or p.fset is None:
                    continue
                try:
                    reg = cls(12) if cname == 'RGNR' else cls()
                except Exception:
                    continue
                reg.value = 0
                # discover the footprint by writing increasing all-ones values until the getter saturates
                foot = 0
                width = 0
                for w in range(1, 33):
                    reg.value = 0
                    try:
                        setattr(reg, pname, 2 ** w - 1)
                    except Exception:
                        break
                    if reg.value == foot and w > 1:
                        break
                    if bin(reg.value).count('1') != w:
                        break
                    foot = reg.value
                    width = w
                if not width:
                    continue
                for _ in range(6):
                    bg = rng.getrandbits(32)
                    v = rng.getrandbits(width)
                    reg.value = bg
                    setattr(reg, pname, v)
                    seen += 1
                    acc.case(True, ('g', cname, pname, bg, v), cls='generic-footprint')
                    if (reg.value ^ bg) & ~foot:
                        acc.violation('C17:field:%s.%s:footprint' % (cname, pname), {'cls': cname, 'field': pname, 'bg': bg, 'v': v},
                                      {'footprint': foot, 'after': reg.value})
    acc.extra['generic_footprint_cells'] = seen
    # RGNR: its REGION field is as wide as the number of MPU regions requires (B6.1.81: bits [N-1:0], N = Log2(regions) rounded up): for every region
    # count, every valid region number must survive set_region / get_region, and no bit above the field may change
    from armulator.armv6.all_registers.rgnr import RGNR
    for nreg in range(1, 65):
        top = max(nreg.bit_length(), 1)
        for r in range(nreg):
            for bg in (0, 0xFFFFFFFF, rng.getrandbits(32)):
                reg = RGNR(nreg)
                reg.value = bg
                reg.set_region(r)
                back = reg.get_region()
                acc.case(True, ('rgnr', nreg, r, bg), cls='field')
                if back != r or (reg.value ^ bg) >> top:
                    acc.violation('C17:field:RGNR.region', {'cls': 'RGNR', 'field': 'region', 'regions': nreg, 'v': r, 'bg': bg},
                                  {'written': r, 'reads_back': back, 'value_after': reg.value})
    return acc


def shard_reset_values(seed, rounds):
    """the configuration file may give a reset value to ANY register class (`reset_values` is keyed by class name): a register constructed under such a
    configuration holds exactly that value, and every named field reads its bits of it"""
    import importlib
    import pkgutil
    import armulator.armv6.all_registers as ar
    acc = Acc()
    rng = random.Random(seed)
    classes = []
    for mi in pkgutil.iter_modules(ar.__path__):
        mod = importlib.import_module('armulator.armv6.all_registers.' + mi.name)
        for cname, cls in vars(mod).items():
            if isinstance(cls, type) and issubclass(cls, target.AbstractRegister) and cls is not target.AbstractRegister and cls.__module__ == mod.__name__:
                classes.append((mi.name, cname, cls))
    fields = {(mn, cn): fl for (mn, cn, ct), fl in FIELDS.items()}
    try:
        for _ in range(rounds):
            values = {cname: rng.choice((0xFFFFFFFF, rng.getrandbits(32), rng.getrandbits(32), 1 << rng.randrange(32))) for _mn, cname, _c in classes}
            fmt = rng.choice(('0x%08x', '0b{:032b}', '%d'))
            target.load_config({'reset_values': {k: (fmt % v if '%' in fmt else fmt.format(v)) for k, v in values.items()}})
            for mn, cname, cls in classes:
                try:
                    reg = cls(12) if cname == 'RGNR' else cls()
                except Exception as e:      # noqa: BLE001
                    acc.violation('C17:reset-value:%s:exception' % cname, {'kind': 'reset-value', 'cls': cname, 'modname': mn, 'value': values[cname], 'fmt': fmt}, repr(e))
                    continue
                acc.case(True, ('rv', cname, values[cname]), cls='reset-value')
                if reg.value != values[cname]:
                    acc.violation('C17:reset-value:%s' % cname, {'kind': 'reset-value', 'cls': cname, 'modname': mn, 'value': values[cname], 'fmt': fmt},
                                  {'configured': values[cname], 'constructed_with': reg.value})
                    continue
                for fname, bp in fields.get((mn, cname), ()):
                    w = 0
                    for m, l in bp:
                        w = (w << (m - l + 1)) | ((values[cname] >> l) & (2 ** (m - l + 1) - 1))
                    g = int(getattr(reg, fname[0])(fname[2]) if isinstance(fname, tuple) else getattr(reg, fname))
                    if g != w:
                        acc.violation('C17:reset-value:%s.%s' % (cname, fname), {'kind': 'reset-value', 'cls': cname, 'modname': mn, 'value': values[cname], 'fmt': fmt},
                                      {'field': str(fname), 'expected': w, 'observed': g})
                        break
    finally:
        target.load_config()
    return acc


def shard_field_history(seed, rounds):
    """one long-lived register object per class: named-field reads, named-field writes, whole-register writes (`.value = w`, what MCR handlers and
    exception entry do) and slice writes (`reg[msb:lsb] = v`) interleaved at random; after every operation every named field must read the bits of the
    register's current value and the value must be what the model says. A field view that is cached and invalidated on only some of the write routes
    shows here, not on a freshly constructed register"""
    import importlib
    acc = Acc()
    rng = random.Random(seed)
    target.load_config()
    for (modname, clsname, ctor), flds in sorted(FIELDS.items()):
        mod = importlib.import_module('armulator.armv6.all_registers.' + modname)
        cls = getattr(mod, clsname)
        flds = [(fn, bp) for fn, bp in flds]
        if not flds:
            continue

        def want(fieldbits, val):
            g = 0
            for m, l in fieldbits:
                g = (g << (m - l + 1)) | ((val >> l) & (2 ** (m - l + 1) - 1))
            return g

        def read(reg, fname):
            return int(getattr(reg, fname[0])(fname[2]) if isinstance(fname, tuple) else getattr(reg, fname))
        for _round in range(rounds):
            reg = cls(*ctor)
            model = reg.value
            log = []
            for step in range(24):
                op = rng.randrange(5)
                if op == 0:
                    model = rng.choice((0, 0xFFFFFFFF, rng.getrandbits(32), model ^ (1 << rng.randrange(32))))
                    reg.value = model
                    log.append(['value=', model])
                elif op == 1:
                    fname, bp = flds[rng.randrange(len(flds))]
                    width = sum(m - l + 1 for m, l in bp)
                    v = rng.getrandbits(width)
                    try:
                        if isinstance(fname, tuple):
                            getattr(reg, fname[1])(fname[2], v)
                        else:
                            setattr(reg, fname, v)
                    except Exception as e:      # noqa: BLE001
                        acc.violation('C17:field-history:%s:exception' % clsname, {'kind': 'field-history', 'cls': clsname, 'log': log + [['set', str(fname), v]]}, repr(e))
                        break
                    rem = width
                    for m, l in bp:
                        w_ = m - l + 1
                        rem -= w_
                        model = (model & ~((2 ** w_ - 1) << l)) | (((v >> rem) & (2 ** w_ - 1)) << l)
                    log.append(['set', str(fname), v])
                elif op == 2:
                    hi = rng.randrange(32)
                    lo_ = rng.randrange(hi + 1)
                    v = rng.getrandbits(hi - lo_ + 1)
                    try:
                        reg[hi:lo_] = v
                    except Exception:           # noqa: BLE001 - a register class without slice writes
                        continue
                    model = (model & ~((2 ** (hi - lo_ + 1) - 1) << lo_)) | (v << lo_)
                    log.append(['slice', hi, lo_, v])
                else:
                    log.append(['read'])
                # after every operation: the whole value and (a sample of) the field views
                acc.case(len(log) >= 3, ('fh', clsname, seed, _round, step), cls='field-history')
                bad = None
                if reg.value != model:
                    bad = ('value', model, reg.value)
                else:
                    for fname, bp in (flds if len(flds) <= 6 else rng.sample(flds, 6)):
                        try:
                            g = read(reg, fname)
                        except Exception as e:  # noqa: BLE001
                            bad = (str(fname), 'exception', repr(e))
                            break
                        if g != want(bp, model):
                            bad = (str(fname), want(bp, model), g)
                            break
                if bad:
                    acc.violation('C17:field-history:%s.%s' % (clsname, bad[0]), {'kind': 'field-history', 'cls': clsname, 'modname': modname, 'ctor': list(ctor), 'log': log},
                                  {'field': bad[0], 'expected': bad[1], 'observed': bad[2], 'register_value': model})
                    break
    return acc


def run(ctx):
    ctx.rule = ('Every armulator bit primitive is called on every argument tuple at widths 1..N (N=7 quick, 9 thorough; shift '
                'amounts 0..2N+1), all 2^12x2 modified-immediate inputs, all (type,imm5); 16/32/64-bit corner+random operands with '
                'every shift amount 0..255; every (register class, field, in-range value, background image) cell of the field table; RGNR.REGION for every region count 1..64 and every valid region number. '
                'Oracle: ARM ARM pseudocode on bit lists (vf/ref/bits.py) and the field table vf/ref/fields.py. A case is distinct '
                'by (function, arguments); all enumerated cells are non-trivial, wide cases with shift amount 0 are not.')
    ctx.technique = 'exhaustive small-width enumeration + random differential testing against a bit-list reference model'
    ctx.assumptions = ['vf/ref/bits.py and vf/ref/fields.py are faithful readings of DDI 0406C']
    nmax = ctx.n(7, 9)
    tasks = [(shard_small, (n,)) for n in range(nmax, 0, -1)]
    tasks += [(shard_imm, (p,)) for p in ('arm', 'thumb', 'misc')]
    tasks += [(shard_wide, (ctx.shard_seed(i), ctx.n(6000, 60000))) for i in range(12)]
    tasks += [(shard_fields, (ctx.shard_seed(100),))]
    tasks += [(shard_field_history, (ctx.shard_seed(200 + i), ctx.n(6, 120))) for i in range(4)]
    tasks += [(shard_reset_values, (ctx.shard_seed(300), ctx.n(6, 100)))]
    ctx.pmap(_dispatch, tasks)
    ctx.acc.exhaustive = True
    ctx.acc.extra['exhaustive_parts'] = 'widths 1..%d primitives; expand-imm; imm-shift; field cells of fields<=8 bits' % nmax


def _dispatch(fn, args):
    return fn(*args)


def replay(case, bucket=None):
    acc = Acc()
    if 'fn' in case:
        args = tuple(SR[a] if isinstance(a, str) and a in SR else a for a in case['args'])
        name = case['fn']
        if name.startswith('thumb_expand_imm'):
            r, co, unp = rb.thumb_expand_imm_c(args[0], args[1] if len(args) > 1 else 0)
            want = (rb.U(r), co) if name.endswith('_c') else rb.U(r)
            _call(acc, name, args, FN[name], want)
        else:
            chk(acc, name, args)
    elif case.get('kind') == 'reset-value':
        import importlib
        fmt = case['fmt']
        v = case['value']
        target.load_config({'reset_values': {case['cls']: (fmt % v if '%' in fmt else fmt.format(v))}})
        try:
            cls = getattr(importlib.import_module('armulator.armv6.all_registers.' + case['modname']), case['cls'])
            reg = cls(12) if case['cls'] == 'RGNR' else cls()
            out = [] if reg.value == v else ['constructed with %#x' % reg.value]
            for (mn, cn, ct), fl in FIELDS.items():
                if cn == case['cls'] and mn == case['modname'] and not out:
                    for fn, bp in fl:
                        w = 0
                        for m, l in bp:
                            w = (w << (m - l + 1)) | ((v >> l) & (2 ** (m - l + 1) - 1))
                        g = int(getattr(reg, fn[0])(fn[2]) if isinstance(fn, tuple) else getattr(reg, fn))
                        if g != w:
                            out.append(str(fn))
        finally:
            target.load_config()
        return out
    elif case.get('kind') == 'field-history':
        # replay the logged operations on a fresh register object and compare every named field with the bits of the modelled value
        import importlib
        target.load_config()
        cls = getattr(importlib.import_module('armulator.armv6.all_registers.' + case['modname']), case['cls'])
        flds = [(fn, bp) for (mn, cn, ct), fl in FIELDS.items() if cn == case['cls'] and mn == case['modname'] for fn, bp in fl]
        reg = cls(*case.get('ctor', []))
        model = reg.value
        out = []
        for op in case['log']:
            if op[0] == 'value=':
                model = op[1]
                reg.value = model
            elif op[0] == 'slice':
                reg[op[1]:op[2]] = op[3]
                model = (model & ~((2 ** (op[1] - op[2] + 1) - 1) << op[2])) | (op[3] << op[2])
            elif op[0] == 'set':
                for fn, bp in flds:
                    if str(fn) == op[1]:
                        if isinstance(fn, tuple):
                            getattr(reg, fn[1])(fn[2], op[2])
                        else:
                            setattr(reg, fn, op[2])
                        width = sum(m - l + 1 for m, l in bp)
                        rem = width
                        for m, l in bp:
                            w_ = m - l + 1
                            rem -= w_
                            model = (model & ~((2 ** w_ - 1) << l)) | (((op[2] >> rem) & (2 ** w_ - 1)) << l)
                        break
            if reg.value != model:
                out.append('value')
                break
            for fn, bp in flds:
                g = int(getattr(reg, fn[0])(fn[2]) if isinstance(fn, tuple) else getattr(reg, fn))
                w = 0
                for m, l in bp:
                    w = (w << (m - l + 1)) | ((model >> l) & (2 ** (m - l + 1) - 1))
                if g != w:
                    out.append(str(fn))
            if out:
                break
        return out
    else:
        a = shard_fields(1)
        acc.viol = {b: v for b, v in a.viol.items() if bucket is None or b == bucket}
    return sorted(acc.viol)
