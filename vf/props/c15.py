"""C15 — VMSA translation: page-table walks yield the right physical address or fault.
(a) translate_address() on page tables built by construction (+ arbitrary descriptor words) vs vf/ref/mmu.py;
(b) loads/stores executed with the MMU on, end to end (data really comes from / goes to the translated address)."""
import random

from vf import gen, e1, target, diff
from vf.runner import Acc
from vf.props import e1prop
from vf.ref import step, mmu  # noqa: F401
from vf.ref.core import REG
from vf.ref.machine import Machine, Abort, Unpred, Skip, NotImpl, M32

from armulator.armv6.arm_exceptions import DataAbortException

TABLES = (0x40000, 0x10000)        # device holding the translation tables
L1_1, L1_0, L2_POOL = 0x40000, 0x44000, 0x48000
CFGS = {
    'v7-vmsa': gen.CONFIGS['v7-vmsa'], 'v6-vmsa': gen.CONFIGS['v6-vmsa'], 'v7-lpae': gen.CONFIGS['v7-lpae'],
    'v7-vmsa-nosec': {'arch_version': 7, 'memory_system_architecture': 'VMSA', 'have_security_ext': False},
    # Secure accesses on a core that also has the Virtualization Extensions: Monitor mode with SCR.NS = 1 is still Secure - one stage, whatever HCR.VM says
    'v7-virt-secure': gen.CONFIGS['v7-virt'],
    # a Non-secure guest (PL1&0 regime) under stage-2 translation: its stage-1 descriptor fetches and its output addresses are IPAs
    'v7-virt-ns': gen.CONFIGS['v7-virt'],
}
S2DEV = (0x60000, 0x4000)          # device holding the stage-2 tables of the Non-secure guest cells


def s2_tables(rng, big, ipas):
    """stage-2 tables by construction for a set of intermediate physical addresses: VTCR/VTTBR + the table image. Two layouts: a 32-bit IPA space walked
    from level 1 (SL0 = 1, T0SZ = 0) and a 25-bit one walked from level 2 (SL0 = 0, T0SZ = 7). The first 2 MiB get a level-3 table (4 KiB pages with
    generated fates), the rest 2 MiB / 1 GiB blocks, further tables or nothing. Descriptors are written in HSCTLR.EE endianness."""
    img = bytearray(S2DEV[1])
    base = S2DEV[0]

    def put(addr, d):
        off = addr - base
        if 0 <= off <= S2DEV[1] - 8:
            img[off:off + 8] = d.to_bytes(8, 'big' if big else 'little')

    def attrs(walk):
        mem = rng.choice((15, 15, 15, 15, 5, 7, 0, 1, 13, 2 if rng.random() < 0.2 else 15)) if not walk or rng.random() < 0.2 else 15
        hap = rng.choice((3, 3, 3, 1, 2, 0)) if not walk or rng.random() < 0.25 else 3
        af = 0 if rng.random() < (0.1 if not walk else 0.04) else 1
        return (mem << 2) | (hap << 6) | (rng.getrandbits(2) << 8) | (af << 10) | (rng.getrandbits(1) << 54)

    def leaf(pa, level, walk=False):
        shift_ = {1: 30, 2: 21, 3: 12}[level]
        valid = 0 if rng.random() < (0.12 if not walk else 0.05) else 1
        return valid | (2 if level == 3 else 0) | attrs(walk) | ((pa >> shift_ << shift_) & ((1 << 40) - 1))
    wide = rng.random() < 0.6
    l3a, l3b, l2 = base + 0x1000, base + 0x2000, base + 0x3000
    walk_pages = {(TABLES[0] >> 12) + i for i in range(TABLES[1] >> 12)}
    # level 3, first 2 MiB: identity mostly, sometimes remapped / missing
    for pg in range(512):
        r = rng.random()
        pa = pg << 12
        if pg not in walk_pages and r < 0.08:
            pa = rng.choice((0x20000, 0x0, 0x8000, 0x1F000))
        put(l3a + 8 * pg, leaf(pa, 3, pg in walk_pages) if (pg in walk_pages or pg in {a >> 12 for a in ipas if a < 0x200000} or r < 0.7) else 0)
    for pg in range(512):
        put(l3b + 8 * pg, leaf(rng.choice((0x20000, 0x12345000, pg << 12)), 3) if rng.random() < 0.6 else rng.getrandbits(64) & ~1)
    if wide:
        vtcr = (1 << 6) | (rng.getrandbits(6) << 8)
        l1 = base
        put(l1, 3 | l2)
        for i in (1, 2, 3):
            r = rng.random()
            put(l1 + 8 * i, leaf(rng.choice((i << 30, 0, 0x40000000)), 1) if r < 0.5 else (3 | l2) if r < 0.7 else rng.getrandbits(64) & ~1)
        vttbr = l1
        n2 = 512
    else:
        vtcr = 7 | (rng.getrandbits(6) << 8)
        l2 = base                      # 16 entries (IPA<24:21>), table aligned to 128 bytes
        vttbr = l2
        n2 = 16
    put(l2, 3 | l3a)
    for i in range(1, n2):
        r = rng.random()
        put(l2 + 8 * i, leaf(rng.choice((i << 21, 0, 0x12345000, 0xFFF00000)), 2) if r < 0.45 else (3 | l3b) if r < 0.65 else rng.getrandbits(64) & ~1 if r < 0.8 else 0)
    return bytes(img), {'vtcr': vtcr, 'vttbr': vttbr | ((rng.getrandbits(8) << 48) if rng.random() < 0.5 else 0)}


KINDS = ['invalid1', 'section', 'supersection', 'table-invalid2', 'table-large', 'table-small', 'garbage']


class Tables:
    def __init__(self, rng, n):
        self.rng = rng
        self.n = n
        self.mem = {}                # word address -> 32-bit descriptor
        self.l2next = L2_POOL
        self.l2of = {}

    def l1_entry_addr(self, va):
        n = self.n
        if n == 0 or (va >> (32 - n)) == 0:
            base, nn = L1_0, n
        else:
            base, nn = L1_1, 0
        base = base >> (14 - nn) << (14 - nn)
        return base | (((va & ((1 << (32 - nn)) - 1)) >> 20) << 2)

    def attrs(self):
        rng = self.rng
        ap = rng.choice((0, 1, 2, 3, 3, 5, 6, 7, 4))
        return dict(ap=ap, domain=rng.randrange(16), tex=rng.randrange(8), c=rng.getrandbits(1), b=rng.getrandbits(1), s=rng.getrandbits(1),
                    ng=rng.getrandbits(1), xn=rng.getrandbits(1), ns=rng.getrandbits(1), pxn=rng.getrandbits(1))

    def map(self, va, kind, pa):
        rng = self.rng
        a = self.attrs()
        e1a = self.l1_entry_addr(va)
        existing = self.mem.get(e1a)
        if kind == 'garbage':
            self.mem.setdefault(e1a, rng.getrandbits(32))
            return
        if kind == 'invalid1':
            self.mem.setdefault(e1a, rng.getrandbits(30) << 2)
            return
        if kind in ('section', 'supersection'):
            if existing is not None:
                return
            d = 0b10 | (a['pxn']) | (a['b'] << 2) | (a['c'] << 3) | (a['xn'] << 4) | ((a['ap'] & 3) << 10) | (a['tex'] << 12) | ((a['ap'] >> 2) << 15) | \
                (a['s'] << 16) | (a['ng'] << 17) | (a['ns'] << 19)
            if kind == 'section':
                d |= (a['domain'] << 5) | (pa & 0xFFF00000)
                self.mem[e1a] = d
            else:
                d |= (1 << 18) | (pa & 0xFF000000) | (rng.choice((0, 0, 1, 5)) << 20) | (rng.choice((0, 0, 3)) << 5)
                # a supersection occupies 16 consecutive entries
                first = e1a & ~0x3F
                for i in range(16):
                    self.mem[first + 4 * i] = d
            return
        # page table
        if existing is not None and (existing & 3) == 1:
            l2base = existing & ~0x3FF
        elif existing is not None:
            return
        else:
            l2base = self.l2next
            self.l2next += 0x400
            self.mem[e1a] = 0b01 | (a['pxn'] << 2) | (a['ns'] << 3) | (a['domain'] << 5) | l2base
        e2a = l2base | (((va >> 12) & 0xFF) << 2)
        if kind == 'table-invalid2':
            self.mem[e2a] = rng.getrandbits(30) << 2
        elif kind == 'table-large':
            d = 0b01 | (a['b'] << 2) | (a['c'] << 3) | ((a['ap'] & 3) << 4) | ((a['ap'] >> 2) << 9) | (a['s'] << 10) | (a['ng'] << 11) | (a['tex'] << 12) | \
                (a['xn'] << 15) | (pa & 0xFFFF0000)
            first = e2a & ~0x3F
            for i in range(16):
                self.mem[first + 4 * i] = d
        else:
            self.mem[e2a] = 0b10 | a['xn'] | (a['b'] << 2) | (a['c'] << 3) | ((a['ap'] & 3) << 4) | (a['tex'] << 6) | ((a['ap'] >> 2) << 9) | (a['s'] << 10) | \
                (a['ng'] << 11) | (pa & 0xFFFFF000)

    def image(self, rng, big, garbage):
        buf = bytearray(rng.randbytes(TABLES[1])) if garbage else bytearray(TABLES[1])
        for addr, w in self.mem.items():
            off = addr - TABLES[0]
            if 0 <= off <= TABLES[1] - 4:
                buf[off:off + 4] = w.to_bytes(4, 'big' if big else 'little')
        return bytes(buf)


def gen_vas(rng, n):
    out = []
    split = 1 << (32 - n) if n else None
    for _ in range(8):
        r = rng.random()
        if split and r < 0.4:
            va = (split + rng.choice((-0x100000, -1, 0, 0x100000, 0x1234))) & M32
        elif r < 0.7:
            va = (rng.randrange(0, 64) << 20) | rng.choice((0, 0xFFF, 0x1000, 0xFFFF, 0x10000, 0xFFFFF, rng.getrandbits(20)))
        else:
            va = rng.getrandbits(32)
        out.append(va & M32)
    return out


def sys_state(rng, cfg, tb, n, big, mmu=1):
    afe, tre = rng.getrandbits(1), (rng.getrandbits(1) if rng.random() < 0.8 else 0)
    st_ = {'sctlr': mmu | (afe << 29) | (tre << 28) | (big << 25) | ((1 if rng.random() < 0.05 else 0) << 17),
           'ttbcr': n | ((rng.getrandbits(2) << 4) if rng.random() < 0.15 else 0),
           'ttbr0_64': L1_0 | rng.getrandbits(7), 'ttbr1_64': L1_1 | rng.getrandbits(7),
           'dacr': sum(rng.choice((1, 1, 3, 0, 1, 2 if rng.random() < 0.1 else 1)) << (2 * i) for i in range(16)),
           'prrr': rng.getrandbits(32), 'nmrr': rng.getrandbits(32),
           'fcseidr': (rng.choice((0, 0, 0, 1, 0x7F)) << 25),
           'dfsr': rng.getrandbits(14), 'dfar': rng.getrandbits(32)}
    if cfg.get('have_security_ext', True):
        st_['scr'] = 0
    return st_


def translate_cell(acc, rng, cfgname, hooked):
    cfgov = CFGS[cfgname]
    cfg = diff.full_cfg(cfgov)
    n = rng.choice((0, 0, 1, 2, 3, 4, 7))
    big = 1 if rng.random() < 0.25 else 0
    tb = Tables(rng, n)
    vas = gen_vas(rng, n)
    for va in vas:
        mva = va if (va >> 25) else va        # FCSE handled by choosing PID after the fact (see below)
        tb.map(mva, rng.choice(KINDS), rng.choice((0x20000, 0x0, 0x8000, 0x12345000, 0xFFF00000, rng.getrandbits(32))))
    devs = [(0, 0x100), TABLES] + ([S2DEV] if cfgname == 'v7-virt-ns' else [])
    cpu = target.new_cpu(cfgov, hooked, devs)
    target.budget_cpu(cpu, hooked)
    st_ = sys_state(rng, cfg, tb, n, big)
    if any((va >> 25) == 0 for va in vas) and rng.random() < 0.7:
        st_['fcseidr'] = 0
    st_['cpsr'] = gen.cpsr_value(m=gen.MODES['svc'])
    if cfgname == 'v7-virt-ns':
        hbig = rng.getrandbits(1)
        s1on = rng.random() < 0.7
        st_['scr'] = 1
        st_['cpsr'] = gen.cpsr_value(m=gen.MODES[rng.choice(('svc', 'usr', 'irq', 'sys'))])
        st_['sctlr'] = (st_['sctlr'] & ~1) | (1 if s1on else 0)
        st_['hsctlr'] = (hbig << 25) | (rng.getrandbits(1) << 1)
        st_['hcr'] = 1 | (rng.getrandbits(1) << 2) | ((rng.getrandbits(1) << 12) if not s1on else 0) | (rng.getrandbits(4) << 3)
        image2, regs2 = s2_tables(rng, hbig, [0x20000, 0, 0x8000] + [a for a in tb.mem])
        st_.update(regs2)
        st_['mem2'] = image2
        st_.update({'hsr': rng.getrandbits(32), 'hdfar': rng.getrandbits(32), 'hpfar': rng.getrandbits(28) << 4})
    if cfgname == 'v7-virt-secure':
        if rng.random() < 0.6:
            st_['cpsr'] = gen.cpsr_value(m=gen.MODES['mon'])
            st_['scr'] = rng.getrandbits(1)               # Monitor mode is Secure whatever SCR.NS says
        gen.force_stage2(rng, st_)                        # HCR.VM = 1 with a stage-2 table that maps nothing ...
        if (st_['cpsr'] & 31) != gen.MODES['mon']:
            st_['scr'] = 0                                # ... and must not be consulted: the access is Secure
        st_['hcr'] &= ~((1 << 27) | (1 << 12))
    st_['mem1'] = tb.image(rng, big, rng.random() < 0.5)
    target.apply_state(cpu, st_)
    pre = target.snapshot(cpu)
    for va in vas + [v ^ rng.choice((0x1000, 0x100000, 0x10000)) for v in vas[:3]]:
        pass
    pre_nomem = {k: v for k, v in pre.items()}
    st0 = dict(st_)                  # the state the cell started from; later control changes and translations are replayed from `ops`
    ops = []
    held = None          # (descriptor object, what it said when it was returned): a result stays what it was after later translations
    for va in vas + [v ^ rng.choice((0x1000, 0x100000, 0x10000)) for v in vas[:3]]:
        ispriv, iswrite = bool(rng.getrandbits(1)), bool(rng.getrandbits(1))
        if cfgname == 'v7-virt-ns' and rng.random() < 0.25:
            # the hypervisor edits the guest's stage-2 tables between two translations (a VM switch, a page taken away): one descriptor gets its valid
            # bit flipped or another output address; a result remembered from an earlier walk - completed or aborted - is not the mapping any more
            img = bytearray(pre['mem2'])
            off = 8 * rng.randrange(0, len(img) // 8)
            for _t in range(40):
                if int.from_bytes(img[off:off + 8], 'little') != 0:
                    break
                off = 8 * rng.randrange(0, len(img) // 8)
            d_ = int.from_bytes(img[off:off + 8], 'big' if (pre['hsctlr'] >> 25) & 1 else 'little')
            d_ ^= rng.choice((1, 1, 1 << 12, 1 << 21, 3 << 6, 1 << 10))
            nb = d_.to_bytes(8, 'big' if (pre['hsctlr'] >> 25) & 1 else 'little')
            img[off:off + 8] = nb
            target.poke(cpu, S2DEV[0] + off, nb)
            pre = dict(pre)
            pre['mem2'] = bytes(img)
            ops.append(['p', S2DEV[0] + off, nb.hex()])
            acc.cls('translate:stage-2-table-edited-between-translations')
        elif rng.random() < 0.3:
            # the same long-lived instance translates again after ONE control bit or register changed (the other registers keep their values): whatever
            # an implementation derives from the translation controls is keyed by all of them
            k_ = rng.choice(('sctlr', 'sctlr', 'sctlr', 'dacr', 'prrr', 'nmrr', 'ttbcr'))
            if k_ == 'sctlr':
                nv = pre['sctlr'] ^ (1 << rng.choice((28, 29, 28, 25 if False else 28)))
            elif k_ == 'dacr':
                nv = pre['dacr'] ^ (rng.choice((1, 2, 3)) << (2 * rng.randrange(16)))
            elif k_ == 'ttbcr':
                nv = pre['ttbcr'] ^ (1 << rng.choice((4, 5)))
            else:
                nv = pre[k_] ^ (1 << rng.randrange(32))
            target.apply_state(cpu, {k_: nv})
            pre = dict(pre)
            pre[k_] = nv
            st_[k_] = nv
            ops.append(['c', k_, nv])
            acc.cls('translate:control-changed-between-translations:' + k_)
        target.apply_state(cpu, {k_: pre[k_] for k_ in ('dfsr', 'dfar', 'hsr', 'hdfar', 'hpfar') if k_ in pre})
        if hooked and (st0['sctlr'] >> 17) & 1:
            # with SCTLR.HA an earlier translation of this cell may have set an access flag in the tables (hardware management of the access flag, a hook
            # the hooked target implements): the reference starts from the table memory as it is now
            for i_, mc_ in enumerate(cpu.mem.memories):
                cur_ = target.mem_bytes(mc_.mem)
                if cur_ != pre.get('mem%d' % i_):
                    pre = dict(pre)
                    pre['mem%d' % i_] = cur_
        M = Machine(pre, devs, cfg, hooked)
        M.walk_reads = 0
        try:
            pa, mt = mmu.translate_v(M, va, ispriv, iswrite, 4, True, want_attrs=True)
            ref = ('ok', pa, mt)
        except Abort as ab:
            try:
                M.report_abort(ab)
                ref = ('abort', ab.kind, ab.extra.get('level'))
            except NotImpl:
                ref = ('notimpl', ab.kind, None)
            except Skip as e:
                ref = ('skip', str(e), None)
        except Unpred as e:
            ref = ('unpred', str(e), None)
        except Skip as e:
            ref = ('skip', str(e), None)
        except NotImpl as e:
            ref = ('notimpl', str(e), None)
        try:
            d = cpu.translate_address(va, ispriv, iswrite, 4, True)
            got = ('ok', d.paddress.physicaladdress, d.memattrs.type.name.lower().replace('_', '-') if d.memattrs.type is not None else None)
            if held is not None and held[1] != (held[0].paddress.physicaladdress, held[0].memattrs.type):
                acc.violation('C15:translate:earlier-result-overwritten', {'cfgname': cfgname, 'hooked': hooked, 'state': jsonable_state(st_), 'va': va, 'ispriv': ispriv, 'iswrite': iswrite,
                                                                         'held_va': held[2], 'kind': 'held'},
                              {'earlier_result_was': [held[1][0], str(held[1][1])], 'now_reads': [held[0].paddress.physicaladdress, str(held[0].memattrs.type)]})
            held = (d, (d.paddress.physicaladdress, d.memattrs.type), va)
        except DataAbortException as e:
            got = ('abort', e.abort_type.name.lower(), None)
        except target.HangDetected as e:
            got = ('hang', repr(e), None)
        except Exception as e:
            got = ('notimpl', repr(e), None) if target.escape_ok(e) else ('host-error', repr(e), None)
        post = target.snapshot(cpu, False)
        hist = list(ops)
        ops.append(['t', va, ispriv, iswrite])
        two_level = getattr(M, 'walk_reads', 0) >= 2
        nontriv = two_level or (n and (va >> (32 - n))) or ref[0] == 'abort' or big
        acc.case(bool(nontriv) and ref[0] not in ('unpred', 'skip'), (cfgname, hooked, st_['mem1'][:0], tuple(sorted(tb.mem.items())), st_['sctlr'], st_['ttbcr'], st_['dacr'], va, ispriv, iswrite),
                 cls='translate:' + ref[0] + (':' + str(ref[1]) + str(ref[2] or '') if ref[0] == 'abort' else ''),
                 sample=lambda: {'config': cfgname, 'hooked': hooked, 'TTBCR.N': n, 'SCTLR': '%#x' % st_['sctlr'], 'EE': big, 'va': '%#x' % va, 'priv': ispriv, 'write': iswrite,
                                 'descriptors': {('%#x' % a): ('%#010x' % w) for a, w in list(tb.mem.items())[:5]}, 'reference': list(ref)})
        if ref[0] in ('unpred', 'skip'):
            acc.excluded += 1
            if got[0] in ('host-error', 'hang'):
                acc.violation('C15:translate:%s' % got[0], {'cfgname': cfgname, 'hooked': hooked, 'state': jsonable_state(st0), 'history': hist, 'va': va, 'ispriv': ispriv, 'iswrite': iswrite}, {'got': list(got)})
            continue
        bad = None
        if ref[0] == 'notimpl':
            if got[0] != 'notimpl':
                bad = {'reference': list(ref), 'armulator': list(got)}
        elif got[0] != ref[0] or (ref[0] == 'ok' and (got[1] != ref[1] or got[2] != ref[2])) or (ref[0] == 'abort' and got[1] != ref[1].replace('access_flag', 'access_flag')):
            bad = {'reference': list(ref), 'armulator': list(got)}
        else:
            dd = diff.compare(M, post, pre)
            if dd:
                bad = {'state(expected,observed)': e1.fmt_diff(dd), 'reference': list(ref)}
        if bad:
            acc.violation('C15:translate:%s:%s-vs-%s' % (cfgname, ':'.join(str(x) for x in ref[:1] + ((ref[1], ref[2]) if ref[0] == 'abort' else ())), got[0] + (':' + str(got[1]) if got[0] == 'abort' else '')),
                          {'cfgname': cfgname, 'hooked': hooked, 'state': jsonable_state(st0), 'history': hist, 'va': va, 'ispriv': ispriv, 'iswrite': iswrite}, bad)


def jsonable_state(st_):
    return {k: (v.hex() if isinstance(v, (bytes, bytearray)) else v) for k, v in st_.items()}


def shard_translate(seed, count):
    acc = Acc()
    rng = random.Random(seed)
    for _ in range(count):
        cfgname = rng.choice(('v7-vmsa', 'v7-vmsa', 'v6-vmsa', 'v7-vmsa-nosec', 'v7-lpae', 'v7-virt-secure', 'v7-virt-ns', 'v7-virt-ns'))
        translate_cell(acc, rng, cfgname, rng.random() < 0.6)
    return acc


# ------------------------------------------------------------------------------------------------ long descriptors (direct)
def ld_cell(acc, rng, hooked, prop='C15', unpriv_only=False, hyp=False, guest=False):
    cfgov = CFGS['v7-virt-secure'] if (hyp or guest) else CFGS['v7-lpae']
    transient = rng.random() < 0.3
    if transient:
        # IMPLEMENTATION DEFINED choice in the configuration file: the transient cacheability hints of MAIRn are implemented
        cfgov = dict(cfgov, implementation_supports_transient=True)
    cfg = diff.full_cfg(cfgov)
    t0sz, t1sz = rng.choice((0, 0, 1, 2, 3, 7)), rng.choice((0, 0, 1, 2, 5))
    big = 1 if rng.random() < 0.2 else 0
    mem = {}
    base0, base1, pool = 0x40000, 0x41000, [0x42000 + 0x1000 * i for i in range(12)]

    def desc_block(pa, level):
        d = rng.choice((1, 1, 1, 0)) | (0 if level < 3 else 2) | (rng.randrange(8) << 2) | (rng.getrandbits(1) << 5) | (rng.choice((0, 1, 2, 3)) << 6) | (rng.getrandbits(2) << 8) | \
            ((1 if rng.random() < 0.8 else 0) << 10) | (rng.getrandbits(1) << 11) | (rng.getrandbits(3) << 52)
        shift_ = {1: 30, 2: 21, 3: 12}[level]
        if hyp and rng.random() < 0.85:
            d = (d | (1 << 6)) & ~((1 << 11) | (1 << 53))          # the PL2 regime: AP<1> SBO, nG and PXN SBZ (otherwise UNPREDICTABLE: totality only)
        return d | ((pa >> shift_ << shift_) & ((1 << 40) - 1))

    def desc_table(nxt):
        if hyp:
            return 3 | nxt | ((rng.getrandbits(5) << 59) & ~((1 << 59) | (1 << 61)) if rng.random() < 0.3 else 0) | ((rng.getrandbits(5) << 59) if rng.random() < 0.05 else 0)
        return 3 | nxt | (rng.getrandbits(5) << 59 if rng.random() < 0.3 else 0)
    vas = [rng.getrandbits(32) for _ in range(3)] + [rng.randrange(0, 8) << 30 >> 0 & M32 | rng.getrandbits(20) for _ in range(3)]
    devs = [(0, 0x100), TABLES] + ([S2DEV] if guest else [])
    cpu = target.new_cpu(cfgov, hooked, devs)
    target.budget_cpu(cpu, hooked)
    # populate by walking the reference addressing for each VA with random choices of block / table / invalid at each level
    st_ = {'sctlr': 1 | (big << 25), 'ttbcr': (1 << 31) | t0sz | (t1sz << 16) | (rng.getrandbits(1) << 7 if rng.random() < 0.1 else 0) | (rng.getrandbits(1) << 23 if rng.random() < 0.1 else 0),
           # bits <55:48> of a 64-bit TTBR hold the ASID and are not part of the table base
           'ttbr0_64': base0 | ((rng.getrandbits(8) << 48) if rng.random() < 0.5 else 0), 'ttbr1_64': base1 | ((rng.getrandbits(8) << 48) if rng.random() < 0.5 else 0), 'mair0': rng.choice((0x00440400, rng.getrandbits(32), 0xFF440400)), 'mair1': rng.getrandbits(32),
           'dfsr': rng.getrandbits(14), 'dfar': rng.getrandbits(32), 'scr': 0, 'cpsr': gen.cpsr_value(m=gen.MODES['svc']), 'fcseidr': 0}
    if hyp:
        # the PL2 stage-1 regime: HTTBR / HTCR / HMAIR / HSCTLR, faults reported in HSR / HDFAR and taken to Hyp mode; the PL1&0 registers hold noise
        t1sz = 0
        st_.update({'httbr': base0, 'htcr': t0sz | (rng.getrandbits(6) << 8), 'hmair0': st_['mair0'], 'hmair1': st_['mair1'], 'hsctlr': 1 | (big << 25) | (rng.getrandbits(1) << 1),
                    'scr': 1, 'cpsr': gen.cpsr_value(m=gen.MODES['hyp']), 'hsr': rng.getrandbits(32), 'hdfar': rng.getrandbits(32), 'hpfar': rng.getrandbits(28) << 4,
                    'sctlr': rng.getrandbits(1) | (rng.getrandbits(1) << 25), 'ttbcr': rng.getrandbits(1) << 31, 'mair0': rng.getrandbits(32), 'mair1': rng.getrandbits(32),
                    'hcr': rng.getrandbits(28) & ~(1 << 27)})
    image = bytearray(TABLES[1])
    for va in vas:
        # choose region
        if t0sz == 0 or (va >> (32 - t0sz)) == 0:
            level = 1 if (t0sz >> 1) == 0 else 2
            base, start = base0, 31 - t0sz
        elif hyp:
            continue
        elif (t1sz == 0) or (va >> (32 - t1sz)) == (1 << t1sz) - 1:
            level = 1 if (t1sz >> 1) == 0 else 2
            base, start = base1, 31 - t1sz
        else:
            continue
        first = True
        while True:
            off = 9 * level
            sel = (mmu.bits(va, start, 39 - off) if first else mmu.bits(va, 47 - off, 39 - off)) << 3
            first = False
            addr = base | sel
            r = rng.random()
            if level < 3 and r < 0.55 and pool:
                nxt = pool.pop()
                d = desc_table(nxt)
                o = addr - TABLES[0]
                if 0 <= o <= TABLES[1] - 8 and image[o:o + 8] == bytes(8):
                    image[o:o + 8] = d.to_bytes(8, 'big' if big else 'little')
                    base = nxt
                    level += 1
                    continue
                break
            d = desc_block(rng.choice((0x20000, 0, 0x8000, rng.getrandbits(32))), level)
            o = addr - TABLES[0]
            if 0 <= o <= TABLES[1] - 8 and image[o:o + 8] == bytes(8):
                image[o:o + 8] = d.to_bytes(8, 'big' if big else 'little')
            break
    if guest:
        # the same stage-1 tables used by a Non-secure guest: every descriptor fetch and the output address go through generated stage-2 tables
        hbig = rng.getrandbits(1)
        image2, regs2 = s2_tables(rng, hbig, [0x20000, 0, 0x8000, base0, base1] + pool)
        st_.update(regs2)
        st_.update({'scr': 1, 'cpsr': gen.cpsr_value(m=gen.MODES[rng.choice(('svc', 'usr', 'irq'))]), 'hsctlr': (hbig << 25) | (rng.getrandbits(1) << 1),
                    'hcr': 1 | (rng.getrandbits(1) << 2) | (rng.getrandbits(4) << 3), 'hsr': rng.getrandbits(32), 'hdfar': rng.getrandbits(32), 'hpfar': rng.getrandbits(28) << 4,
                    'mem2': image2})
    st_['mem1'] = bytes(image)
    target.apply_state(cpu, st_)
    pre = target.snapshot(cpu)
    for va in vas:
        ispriv, iswrite = bool(rng.getrandbits(1)), bool(rng.getrandbits(1))
        if unpriv_only:
            ispriv = False
        if hyp:
            ispriv = True
        target.apply_state(cpu, {k_: pre[k_] for k_ in ('dfsr', 'dfar', 'hsr', 'hdfar', 'hpfar') if k_ in pre})
        M = Machine(pre, devs, cfg, hooked)
        try:
            pa, mt = mmu.translate_v(M, va, ispriv, iswrite, 4, True, want_attrs=True)
            ref = ('ok', pa, mt)
        except Abort as ab:
            try:
                M.report_abort(ab)
                ref = ('abort', ab.kind, ab.extra.get('level'))
            except NotImpl:
                ref = ('notimpl', ab.kind, None)
            except Skip as e:
                ref = ('skip', str(e), None)
        except (Unpred, Skip) as e:
            ref = ('skip', str(e), None)
        try:
            d = cpu.translate_address(va, ispriv, iswrite, 4, True)
            got = ('ok', d.paddress.physicaladdress, d.memattrs.type.name.lower().replace('_', '-') if d.memattrs.type is not None else None)
        except DataAbortException as e:
            got = ('abort', e.abort_type.name.lower(), None)
        except target.HangDetected as e:
            got = ('hang', repr(e), None)
        except Exception as e:
            got = ('notimpl', repr(e), None) if target.escape_ok(e) else ('host-error', repr(e), None)
        post = target.snapshot(cpu, False)
        acc.case(ref[0] != 'skip', ('ld', hooked, hyp, bytes(image), st_['ttbcr'], va, ispriv, iswrite), cls=('hyp-ld:' if hyp else 'guest-ld:' if guest else 'ld:') + ref[0] + (':' + str(ref[1]) + str(ref[2] or '') if ref[0] == 'abort' else ''),
                 sample=lambda: {'T0SZ': t0sz, 'T1SZ': t1sz, 'va': '%#x' % va, 'reference': list(ref), 'hooked': hooked})
        if ref[0] == 'skip':
            acc.excluded += 1
            if got[0] in ('host-error', 'hang'):
                acc.violation(prop + ':ld:' + got[0], {'ld': True, 'hyp': hyp, 'guest': guest, 'transient': transient, 'hooked': hooked, 'state': jsonable_state(st_), 'va': va, 'ispriv': ispriv, 'iswrite': iswrite}, {'got': list(got)})
            continue
        bad = None
        if ref[0] == 'notimpl':
            if got[0] != 'notimpl':
                bad = {'reference': list(ref), 'armulator': list(got)}
        elif got[0] != ref[0] or (ref[0] == 'ok' and (got[1] != ref[1] or (ref[2] is not None and got[2] != ref[2]))) or (ref[0] == 'abort' and got[1] != ref[1]):
            bad = {'reference': list(ref), 'armulator': list(got)}
        else:
            dd = diff.compare(M, post, pre)
            if dd:
                bad = {'state(expected,observed)': e1.fmt_diff(dd), 'reference': list(ref)}
        if bad:
            acc.violation(prop + (':hyp-ld:' if hyp else ':guest-ld:' if guest else ':ld:') + '%s-vs-%s' % (':'.join(str(x) for x in ref[:3] if x is not None and not isinstance(x, int) or ref[0] == 'abort' and isinstance(x, int)), got[0] + (':' + str(got[1]) if got[0] == 'abort' else '')),
                          {'ld': True, 'hyp': hyp, 'guest': guest, 'transient': transient, 'hooked': hooked, 'state': jsonable_state(st_), 'va': va, 'ispriv': ispriv, 'iswrite': iswrite}, bad)


def shard_ld(seed, count):
    acc = Acc()
    rng = random.Random(seed)
    for _ in range(count):
        r_ = rng.random()
        ld_cell(acc, rng, rng.random() < 0.7, hyp=r_ < 0.3, guest=0.3 <= r_ < 0.55)
    return acc


# ------------------------------------------------------------------------------------------------ end to end through instructions
ROWS = [n for n in ('LDR_imm_A1', 'STR_imm_A1', 'LDRB_imm_A1', 'STRB_imm_A1', 'LDRH_imm_A1', 'STRH_imm_A1', 'LDRD_imm_A1', 'STRD_imm_A1', 'LDR_reg_A1', 'STR_reg_A1',
                    'LDM_A1', 'STM_A1', 'PUSH_A1', 'POP_A1', 'LDRT_A1', 'STRT_A1', 'LDR_imm_T1', 'STR_imm_T1', 'LDR_imm12', 'STR_imm12', 'LDM_T2', 'STMDB_T1',
                    'LDREX_A1', 'STREX_A1', 'LDRSB_imm_A1', 'LDRSH_imm_A1') if n in e1prop.ROWS and n in REG]
VWIN = 0x00300000        # virtual windows: +0x000000 section -> PA 0 (so VWIN+0x20000 is the data device), others below


def tweak(rng, row, w, case):
    st_ = case['state']
    cfg = case['cfg']
    n = rng.choice((0, 0, 1, 2))
    big = 1 if rng.random() < 0.2 else 0
    tb = Tables(rng, n)
    # identity-map the first MiB (code at 0x8000, vectors at 0, data at 0x20000, tables) as a client/manager section with full access
    ident = 0b10 | (3 << 10) | (0 << 5) | (rng.choice((0, 1)) << 2)
    tb.mem[tb.l1_entry_addr(0)] = ident
    # window A: section -> PA 0 with random AP/domain; window B: small pages -> data device / elsewhere; window C: invalid / garbage
    a = tb.attrs()
    tb.mem[tb.l1_entry_addr(VWIN)] = 0b10 | ((a['ap'] & 3) << 10) | ((a['ap'] >> 2) << 15) | (a['domain'] << 5) | (a['tex'] << 12) | (a['c'] << 3) | (a['b'] << 2)
    tb.map(VWIN + 0x100000, 'table-small', 0x20000)
    tb.map(VWIN + 0x101000, rng.choice(('table-small', 'table-invalid2', 'table-large')), rng.choice((0x20000, 0x0)))
    if rng.random() < 0.4:
        # ... as Device / Strongly-ordered memory next to the Normal page below it (TEX remap off: TEX=000, C=0, B=1 / 0)
        e2a = (tb.mem[tb.l1_entry_addr(VWIN + 0x100000)] & ~0x3FF) | (((VWIN + 0x101000) >> 12) & 0xFF) << 2
        tb.mem[e2a] = 0b10 | (rng.getrandbits(1) << 2) | (3 << 4) | 0x20000
        tb.mem[e2a - 4] = 0b10 | (3 << 2) | (3 << 4) | 0x20000 | (1 << 6)
    tb.map(VWIN + 0x200000, rng.choice(('invalid1', 'garbage', 'supersection')), 0)
    case['mems'].append([TABLES[0], TABLES[1]])
    for addr, wd in sorted(tb.mem.items()):
        case['poke'].append([addr, wd.to_bytes(4, 'big' if big else 'little').hex()])
    st_.update(sys_state(rng, cfg, tb, n, big))
    st_['sctlr'] |= (st_['sctlr'] & 0) | (case['state'].get('sctlr', 0) & ((1 << 1) | (1 << 22) | (1 << 30)))
    st_['dacr'] = (st_['dacr'] & ~3) | rng.choice((1, 3))        # domain 0 (identity map, AP=011): client or manager
    st_['fcseidr'] = 0
    st_['vbar'] = 0
    st_['scr'] = 0 if 'scr' in st_ else st_.get('scr', 0)
    f = row.extract(w)
    mode = gen.MODE_NAME[st_['cpsr'] & 31]
    targets = [VWIN + 0x20040, VWIN + 0x20040, VWIN + 0x100040, VWIN + 0x100FFC, VWIN + 0x101004, VWIN + 0x200010, 0x20040, VWIN + 0x20000 - 4,
               VWIN + 0x100FFE, VWIN + 0x100FFD, VWIN + 0x100FFF]       # (unaligned accesses across the boundary of two pages with their own attributes: checked byte by byte)
    k = None
    if 'n' in f and f['n'] <= 14 and not row.name.startswith(('PUSH', 'POP')):
        k = gen.bank_key(f['n'], mode)
    elif row.name.startswith(('PUSH', 'POP')):
        k = gen.bank_key(13, mode)
    if k:
        st_[k] = (rng.choice(targets) + rng.choice((0, 0, 0, 1, 2, -4, 4, 8))) & M32
    if 'm' in f and f.get('m', 15) <= 14 and f.get('m') != f.get('n'):
        st_[gen.bank_key(f['m'], mode)] = rng.choice((0, 4, 8, 0x10))
    if row.n == 32 and e1prop.ROWS[row.name][0] == 't32' and rng.random() < 0.12:
        # a 32-bit Thumb instruction whose halfwords lie in two pages (PC = 0x30FFE): the first MiB is mapped by small pages instead of a section, the
        # page of the second halfword is identity-mapped, mapped somewhere else (the data device), missing or protected - its fetch is translated
        # and checked on its own
        l2base = tb.l2next
        tb.l2next += 0x400
        patch = {tb.l1_entry_addr(0): 0b01 | l2base}
        for pg in range(256):
            patch[l2base + 4 * pg] = 0b10 | (3 << 4) | (3 << 2) | (pg << 12)
        fate = rng.choice(('identity', 'elsewhere', 'elsewhere', 'invalid', 'noaccess', 'privonly'))
        patch[l2base + 4 * 0x31] = {'identity': 0b10 | (3 << 4) | (3 << 2) | (0x31 << 12), 'elsewhere': 0b10 | (3 << 4) | (3 << 2) | 0x20000, 'invalid': rng.getrandbits(30) << 2,
                                    'noaccess': 0b10 | (3 << 2) | (0x31 << 12), 'privonly': 0b10 | (1 << 4) | (3 << 2) | (0x31 << 12)}[fate]
        for addr, wd in sorted(patch.items()):
            case['poke'].append([addr, wd.to_bytes(4, 'big' if big else 'little').hex()])
        case['mems'].append([0x30F00, 0x200])
        code = case['poke'][0][1]
        case['poke'][0] = [0x30FFE, code]
        st_['R.PC'] = 0x30FFE
        st_['sctlr'] &= ~(1 << 29)            # (AP<0> means what it says: AFE off)


def classify(res, case):
    out = []
    if res.status == 'abort':
        out.append('abort:' + res.detail)
    if res.status == 'notimpl':
        out.append('notimpl')
    return out


PLAN = e1prop.Plan('C15', ROWS, cfgs=('v7-vmsa', 'v6-vmsa', 'v7-lpae', 'v7-virt'), classify=classify, tweak_case=tweak, hooked=(True, True, False),
                   nontrivial=lambda res: res.status == 'abort' or e1prop.default_nontrivial(res),
                   case_kw=lambda rng, row: {'mmu': False, 'e': 0, 'code_base': 0x8000, 'mode': rng.choice(('usr', 'svc', 'svc', 'sys', 'irq'))})


# loads / stores of a Non-secure guest whose data pages take stage-2 faults (valid three-level stage-2 table, stage 1 off): the abort is reported in
# HSR (EC 0x24, the load/store instruction syndrome ISV/SAS/SSE/SRT, S1PTW, WnR, fault status), HDFAR and HPFAR and taken to Hyp mode at HVBAR + 0x14
S2_ROWS = [n for n in ('LDR_imm_A1', 'STR_imm_A1', 'LDRB_imm_A1', 'STRB_imm_A1', 'LDRH_imm_A1', 'STRH_imm_A1', 'LDRSB_imm_A1', 'LDRSH_imm_A1', 'LDR_reg_A1', 'STR_reg_A1', 'LDRB_reg_A1',
                       'LDRSH_reg_A1', 'LDRT_A1', 'STRT_A1', 'LDRBT_A1', 'LDRHT_A1', 'LDRSBT_A1', 'LDRD_imm_A1', 'STRD_imm_A1', 'LDM_A1', 'STM_A1', 'PUSH_A1', 'POP_A1', 'LDREX_A1', 'STREX_A1',
                       'LDR_imm_T1', 'STR_imm_T1', 'LDRB_imm_T1', 'LDRH_imm_T1', 'LDR_imm12', 'STR_imm12', 'LDRB_imm12', 'LDRSB_imm12', 'LDRSH_imm12', 'LDRH_imm12', 'LDR_imm8', 'STR_imm8',
                       'LDRT_T1', 'STRT_T1', 'LDRBT', 'LDRHT', 'LDRSHT', 'LDR_reg_T2', 'STRB_reg_T2', 'LdrRegisterThumbT1', 'StrhRegisterT1', 'LdrsbRegisterT1', 'LDM_T2', 'STMDB_T1',
                       'LDRD_imm_T1') if n in e1prop.ROWS and n in REG]


def tweak_s2(rng, row, w, case):
    st_ = case['state']
    if rng.random() < 0.4:
        # both stages: the guest runs with its own stage-1 tables (short descriptors, built as for the one-stage plan) whose descriptor fetches and
        # output addresses go through the stage-2 table; the pages holding the stage-1 tables are mapped by stage 2
        tweak(rng, row, w, case)
        st_['scr'] = 1
        fate = gen.stage2_map(rng, case, extra_pages=range(TABLES[0] >> 12, (TABLES[0] + TABLES[1]) >> 12), keep_stage1=True)
        case.setdefault('labels', []).append('s2-two-stages')
        case.setdefault('labels', []).append('s2-data-page:' + fate)
        st_['hcr'] = st_['hcr'] & ~((1 << 27) | (1 << 12))
        st_['hsr'], st_['hdfar'], st_['hpfar'] = rng.getrandbits(32), rng.getrandbits(32), rng.getrandbits(28) << 4
        return
    fate = gen.stage2_map(rng, case)
    case.setdefault('labels', []).append('s2-data-page:' + fate)
    f = row.extract(w)
    mode = gen.MODE_NAME[st_['cpsr'] & 31]
    k = gen.bank_key(13, mode) if (row.name.startswith(('PUSH', 'POP')) or 'n' not in f) else (gen.bank_key(f['n'], mode) if f['n'] <= 14 else None)
    if k:
        st_[k] = (gen.DATA[0] + rng.choice((0x40, 0x40, 0x44, 0x80, 0xFC, 0x41, 0x42))) & M32
    if 'm' in f and f.get('m', 15) <= 14 and f.get('m') != f.get('n'):
        st_[gen.bank_key(f['m'], mode)] = rng.choice((0, 4, 8, 0x10))
    st_['hcr'] = st_['hcr'] & ~((1 << 27) | (1 << 12)) | (rng.getrandbits(1) << 12)
    st_['hsr'], st_['hdfar'], st_['hpfar'] = rng.getrandbits(32), rng.getrandbits(32), rng.getrandbits(28) << 4


PLAN_S2 = e1prop.Plan('C15', S2_ROWS, cfgs=('v7-virt',), tweak_case=tweak_s2, hooked=(True, True, True, False),
                      classify=lambda res, case: [lb for lb in case.get('labels', ())] + (['s2:' + res.status + ':' + str(res.detail)] if res.status in ('abort', 'notimpl') else []),
                      nontrivial=lambda res: res.status == 'abort' or e1prop.default_nontrivial(res),
                      case_kw=lambda rng, row: {'mmu': False, 'mpu': False, 'e': rng.choice((0, 0, 1)), 'code_base': 0x8000, 'ns': True, 'mode': rng.choice(('svc', 'usr', 'sys', 'irq'))})


def run(ctx):
    ctx.rule = ('(a) short-descriptor tables built by construction: TTBCR.N 0..7 with TTBR0/TTBR1 tables, FCSE PID, DACR with all four domain codes, '
                'SCTLR.{M,AFE,TRE,EE,HA}, PRRR; for a set of virtual addresses (both sides of the TTBR split, section/page edges, random) a mapping kind '
                'each - invalid L1, section, supersection (extended PA), page table -> invalid L2 / large / small page, arbitrary descriptor words - with '
                'random AP/APX, domain, TEX/C/B/S/nG/NS/XN, tables byte-reversed when EE=1, optionally over a garbage-filled table area; '
                'translate_address(va, priv, write) is compared with vf/ref/mmu.py on PA, memory type, fault kind+level and DFSR/DFAR (full register frame). '
                '(b) long-descriptor stage-1 tables (T0SZ/T1SZ, 1-3 levels, block/page/table descriptors with APTable, AF, AttrIndx->MAIR), with a '
                'deterministic hub-access budget against non-terminating walks. (c) LDR/STR/LDM/STM/PUSH/POP/LDRT/LDREX.. executed with the MMU on '
                'through virtual windows mapped to the data device with random permissions / invalid descriptors: full-state differential. Stock and '
                'hooked targets. Non-trivial: two-level walk, TTBR1 selected, EE=1 or a fault; distinct = (tables, registers, address, access).')
    ctx.technique = 'property-based differential testing against a reference page-table walker (tables built by construction + arbitrary descriptors)'
    ctx.assumptions = ['vf/ref/mmu.py is a faithful reading of DDI 0406C B3', 'stage 2 / Hyp regime and hardware access-flag update are excluded (documented mock hooks)',
                       'with SCTLR.TRE=0 the stock target ends in the documented RemapRegsHaveResetValues hook; the hooked target is compared on table B3-10']
    tasks = [(shard_translate, (ctx.shard_seed(i), ctx.n(500, 8000))) for i in range(12)]
    tasks += [(shard_ld, (ctx.shard_seed(50 + i), ctx.n(600, 8000))) for i in range(4)]
    ctx.pmap(_dispatch, tasks)
    e1prop.run_plan(ctx, 'vf.props.c15:PLAN', PLAN, shards=16, quick=600, thorough=10000)
    e1prop.run_plan(ctx, 'vf.props.c15:PLAN_S2', PLAN_S2, shards=8, quick=300, thorough=6000, repeat=False, history=False)


def _dispatch(fn, args):
    return fn(*args)


def replay(case, bucket=None):
    if 'va' in case:
        hooked = case['hooked']
        cfgov = (CFGS['v7-virt-secure'] if (case.get('hyp') or case.get('guest')) else CFGS['v7-lpae']) if case.get('ld') else CFGS[case['cfgname']]
        if case.get('transient'):
            cfgov = dict(cfgov, implementation_supports_transient=True)
        cfg = diff.full_cfg(cfgov)
        devs = [(0, 0x100), TABLES] + ([S2DEV] if (case.get('cfgname') == 'v7-virt-ns' or case.get('guest')) else [])
        cpu = target.new_cpu(cfgov, hooked, devs)
        target.budget_cpu(cpu, hooked)
        st_ = {k: (bytes.fromhex(v) if k.startswith('mem') else v) for k, v in case['state'].items()}
        target.apply_state(cpu, st_)
        for op in case.get('history') or ():
            # what the same instance did before the failing translation: control changes and earlier translations
            if op[0] == 'c':
                target.apply_state(cpu, {op[1]: op[2]})
            elif op[0] == 'p':
                target.poke(cpu, op[1], bytes.fromhex(op[2]))
            else:
                keep = target.snapshot(cpu, False)
                try:
                    cpu.translate_address(op[1], op[2], op[3], 4, True)
                except BaseException:       # noqa: BLE001
                    pass
                target.apply_state(cpu, {k_: keep[k_] for k_ in ('dfsr', 'dfar', 'hsr', 'hdfar', 'hpfar') if k_ in keep})
        pre = target.snapshot(cpu)
        if case.get('kind') == 'held':
            try:
                d1 = cpu.translate_address(case['held_va'], True, False, 4, True)
                was = (d1.paddress.physicaladdress, d1.memattrs.type)
                cpu.translate_address(case['va'], case['ispriv'], case['iswrite'], 4, True)
            except Exception:
                return []
            return ['earlier result overwritten'] if was != (d1.paddress.physicaladdress, d1.memattrs.type) else []
        M = Machine(pre, devs, cfg, hooked)
        try:
            ref = ('ok',) + tuple(mmu.translate_v(M, case['va'], case['ispriv'], case['iswrite'], 4, True, want_attrs=True))
        except Abort as ab:
            try:
                M.report_abort(ab)
                ref = ('abort', ab.kind)
            except NotImpl:
                ref = ('notimpl',)
        except NotImpl:
            ref = ('notimpl',)
        except (Unpred, Skip):
            return []
        try:
            d = cpu.translate_address(case['va'], case['ispriv'], case['iswrite'], 4, True)
            got = ('ok', d.paddress.physicaladdress, d.memattrs.type.name.lower().replace('_', '-') if d.memattrs.type is not None else None)
        except DataAbortException as e:
            got = ('abort', e.abort_type.name.lower())
        except BaseException as e:
            got = ('notimpl',) if target.escape_ok(e) else ('host-error', repr(e))
        if got[:2] != ref[:2] or (ref[0] == 'ok' and ref[2] is not None and got[2] != ref[2]):
            return ['%r vs %r' % (ref, got)]
        dd = diff.compare(M, target.snapshot(cpu), pre)
        return [str(sorted(dd))] if dd else []
    return e1prop.replay(PLAN, case)        # (PLAN_S2 cases replay identically: one_case only uses the plan for its property id)
