"""C05 — conditional execution: the 16x16 condition table (exhaustive), failed condition = no-op for every conditional
encoding (identity oracle), passed condition = unconditional twin (metamorphic)."""
import random

from vf import gen, e1, target
from vf.runner import Acc
from vf.props import e1prop
from vf.ref import step as rstep
from vf.ref.machine import Machine, Unpred, Undef, NotImpl, Skip
from vf.ref.core import REG
from vf import diff

# Table A8-1 written out by meaning (flags as N, Z, C, V), independent of the cond<3:1> decode used by implementations
MEANING = {
    0: lambda N, Z, C, V: Z == 1, 1: lambda N, Z, C, V: Z == 0, 2: lambda N, Z, C, V: C == 1, 3: lambda N, Z, C, V: C == 0,
    4: lambda N, Z, C, V: N == 1, 5: lambda N, Z, C, V: N == 0, 6: lambda N, Z, C, V: V == 1, 7: lambda N, Z, C, V: V == 0,
    8: lambda N, Z, C, V: C == 1 and Z == 0, 9: lambda N, Z, C, V: C == 0 or Z == 1, 10: lambda N, Z, C, V: N == V,
    11: lambda N, Z, C, V: N != V, 12: lambda N, Z, C, V: Z == 0 and N == V, 13: lambda N, Z, C, V: Z == 1 or N != V,
    14: lambda N, Z, C, V: True, 15: lambda N, Z, C, V: True,
}


def passes(cond, nzcv):
    return bool(MEANING[cond]((nzcv >> 3) & 1, (nzcv >> 2) & 1, (nzcv >> 1) & 1, nzcv & 1))


def run_prog(cfgname, thumb, code, nzcv, steps, rng, regs=None):
    case = gen.step_case(rng, cfgname, thumb, code, mode='svc', it=0, e=0, mpu=False, mmu=False, code_base=0x8000, steps=steps)
    st = case['state']
    st['cpsr'] = (st['cpsr'] & 0x0FFFFFFF) | (nzcv << 28)
    st['R.R0usr'] = 0
    st['R.R1usr'] = 0
    cpu = e1.build(case)
    if rng.random() < 0.5:
        # the condition is evaluated against the flags of THIS processor object: run a deep copy while the original holds the opposite flags
        import copy
        orig, cpu = cpu, copy.deepcopy(cpu)
        orig.registers.cpsr.value = orig.registers.cpsr.value ^ 0xF0000000
        case = dict(case, via_deepcopy=True)
    excs = []
    for _ in range(steps):
        excs.append(target.step_budget(cpu))
    return case, target.snapshot(cpu, False), excs


def shard_table(seed):
    """exhaustive: 16 conditions x 16 NZCV through ARM MOVcc, Thumb Bcc (T1, T3), IT cc and the else slot of ITE"""
    acc = Acc()
    rng = random.Random(seed)
    for cfgname in ('v6', 'v7'):
        for cond in range(15):
            for nzcv in range(16):
                want = passes(cond, nzcv)
                checks = []
                # ARM: MOVcc r0, #1
                case, post, ex = run_prog(cfgname, False, e1.enc_arm((cond << 28) | 0x03A00001), nzcv, 1, rng)
                checks.append(('arm-movcc', case, ex, post['R.R0usr'] == 1, want, post))
                if cond < 14:
                    # Thumb: Bcc (T1) +8  -> PC = 0x8040 + 4 + 4
                    case, post, ex = run_prog(cfgname, True, e1.enc_thumb(0xD000 | (cond << 8) | 2) + b'\x00\xbf' * 8, nzcv, 1, rng)
                    checks.append(('thumb-bcc-t1', case, ex, post['R.PC'] == 0x8048, want, post))
                    # Thumb: Bcc.W (T3) +8
                    case, post, ex = run_prog(cfgname, True, e1.enc_thumb((0xF000 | (cond << 6)) << 16 | 0x8004, True) + b'\x00\xbf' * 8, nzcv, 1, rng)
                    checks.append(('thumb-bcc-t3', case, ex, post['R.PC'] == 0x804C, want, post))
                # IT cc ; MOV r0,#1   (IT T1 = 1011 1111 cccc 1000 -> one instruction)
                case, post, ex = run_prog(cfgname, True, e1.enc_thumb(0xBF08 | (cond << 4)) + e1.enc_thumb(0x2001) + b'\x00\xbf' * 4, nzcv, 2, rng)
                checks.append(('it-then', case, ex, post['R.R0usr'] == 1, want, post))
                if cond < 14:
                    # ITE cc ; MOV r0,#1 ; MOV r1,#1    mask = NOT(cond<0>):1:0:0
                    mask = ((1 - (cond & 1)) << 3) | 0b100
                    case, post, ex = run_prog(cfgname, True, e1.enc_thumb(0xBF00 | (cond << 4) | mask) + e1.enc_thumb(0x2001) + e1.enc_thumb(0x2101) +
                                              b'\x00\xbf' * 4, nzcv, 3, rng)
                    checks.append(('it-else', case, ex, post['R.R1usr'] == 1, not want, post))
                for name, case, ex, got, exp, post in checks:
                    acc.case(True, (name, cfgname, cond, nzcv), cls='table:' + name,
                             sample={'form': name, 'cond': cond, 'nzcv': nzcv, 'executed': got})
                    if any(e is not None for e in ex):
                        acc.violation('C05:table:%s:host-error' % name, case, {'cond': cond, 'nzcv': nzcv, 'exc': repr(ex)})
                    elif got != exp:
                        acc.violation('C05:table:%s:cond=%d' % (name, cond), case, {'cond': cond, 'nzcv': nzcv, 'executed': got, 'expected': exp})
    acc.exhaustive = True
    return acc


def failing_flags(rng, cond):
    opts = [f for f in range(16) if not passes(cond, f)]
    return rng.choice(opts) if opts else None


def passing_flags(rng, cond):
    return rng.choice([f for f in range(16) if passes(cond, f)])


ALLROWS = sorted(n for n in REG if n in e1prop.ROWS)
IGNORE_IDENTITY = ('R.PC',)


def shard_identity(seed, count):
    """every conditional encoding with a failing condition changes nothing but PC (+length) and ITSTATE (advance)"""
    acc = Acc()
    rng = random.Random(seed)
    for _ in range(count):
        name = ALLROWS[rng.randrange(len(ALLROWS))]
        tn, row = e1prop.ROWS[name]
        w = e1prop.build_word(row, rng.getrandbits(32), rng.getrandbits(31))
        thumb = tn != 'arm'
        cfgname = rng.choice(('v6', 'v7', 'v7-virt', 'v6-nosec', 'v7r', 'v7-jz', 'v6-jz'))
        if not thumb:
            if 'c' not in row.fields:
                continue
            cond = rng.randrange(14)
            w = (w & 0x0FFFFFFF) | (cond << 28)
            it = 0
            code = e1.enc_arm(w)
        else:
            if name in ('B_T1', 'B_T3'):
                cond = row.extract(w)['c']
                if cond >= 14:
                    continue
                it = 0
            else:
                cond = rng.randrange(14)
                # an IT state whose current condition is `cond`: base cond<3:1>, cond<0> in bit 4, non-zero mask
                it = ((cond >> 1) << 5) | ((cond & 1) << 4) | rng.choice((0b1000, 0b0100, 0b1100, 0b0010, 0b1010, 0b0110, 0b0001, 0b1111))
            code = e1.enc_thumb(w, tn == 't32') + b'\x00\xbf\x00\xbf'
        nzcv = failing_flags(rng, cond)
        hooked = rng.random() < 0.5
        case = gen.step_case(rng, cfgname, thumb, code, it=it, e=0, mpu=False, mmu=False, hooked=hooked)
        st = case['state']
        st['cpsr'] = (st['cpsr'] & 0x0FFFFFFF) | (nzcv << 28)
        if hooked and rng.random() < 0.7:
            st['excl'] = (gen.DATA[0] + 4 * rng.randrange(0, 0x20), rng.choice((1, 2, 4, 8)))     # an outstanding reservation: a failed CLREX / STREX leaves it alone
        if name.startswith(('SDIV', 'UDIV')):
            # the one execute-time trap that is not an UNDEFINED encoding: divide by zero with SCTLR.DZ on the R profile
            st['sctlr'] = st.get('sctlr', 0) | (rng.getrandbits(1) << 19)
            fm = row.extract(w).get('m')
            if isinstance(fm, int) and fm <= 14 and rng.random() < 0.6:
                st[gen.bank_key(fm, gen.MODE_NAME[st['cpsr'] & 31])] = 0
        # legality through the reference decode only (no reference semantics are used for the verdict)
        cpu, pre, posts, excs = e1.run(case)
        M = Machine(pre, [tuple(m) for m in case['mems']], diff.full_cfg(case['cfg']), case.get('hooked', False))
        try:
            w2, nbits = rstep.fetch(M)
            M.word = w2
            row2, f2, ops, ex = rstep.decode(M, w2, nbits)
            c2 = rstep.current_cond(M, row2, f2)
        except (Unpred, Undef, NotImpl, Skip):
            acc.excluded += 1
            continue
        if row2.name.startswith(('BKPT', 'UDF')) or passes(c2, nzcv):
            acc.excluded += 1
            continue
        post = posts[0]
        want = dict(pre)
        want['R.PC'] = (pre['R.PC'] + nbits // 8) & 0xFFFFFFFF
        if M.in_it_block():
            M.it_advance()
            want['cpsr'] = M.s['cpsr']
        d = {k: (want[k], post[k]) for k in post if want.get(k) != post[k]}
        acc.case(True, (w2, pre['cpsr'], cfgname), cls='identity:' + row2.name,
                 sample=lambda: {'row': row2.name, 'word': '%#x' % w2, 'cond': c2, 'nzcv': nzcv, 'itstate': it})
        if d and (post['cpsr'] & 31) in (0b11011, 0b11010) and post['R.PC'] != want['R.PC']:
            # Undefined taken although the condition failed: allowed (IMPLEMENTATION DEFINED) iff the instruction is UNDEFINED when it passes
            pre2 = dict(pre)
            pre2['cpsr'] = (pre['cpsr'] & 0x0FFFFFFF) | (passing_flags(rng, c2) << 28)
            M2 = Machine(pre2, [tuple(m) for m in case['mems']], diff.full_cfg(case['cfg']))
            st2 = rstep.step(M2)
            if st2[0] == 'undef' and 'divide by zero' not in st2[1]:
                # (the divide-by-zero trap is an exception generated by executing a defined instruction, inside ConditionPassed(): a failed
                # condition must not take it)
                acc.excluded += 1
                continue
        if excs[0] is not None:
            acc.violation('C05:identity:%s:exception' % row2.name, case, {'exc': repr(excs[0])})
        elif d:
            acc.violation('C05:identity:%s:%s' % (row2.name, e1prop.sig(d)), case, {'changed(expected,observed)': e1.fmt_diff(d), 'cond': c2, 'nzcv': nzcv})
    return acc


def shard_twin(seed, count):
    """ARM: an instruction whose condition passes behaves exactly like the same word with cond = AL"""
    acc = Acc()
    rng = random.Random(seed)
    arm_rows = [n for n in ALLROWS if e1prop.ROWS[n][0] == 'arm' and 'c' in e1prop.ROWS[n][1].fields]
    for _ in range(count):
        name = arm_rows[rng.randrange(len(arm_rows))]
        tn, row = e1prop.ROWS[name]
        w = e1prop.build_word(row, rng.getrandbits(32), rng.getrandbits(31))
        if '_lit' in name or ((w >> 16) & 15) == 15:
            continue        # PC-relative loads may read the instruction's own (different) condition field
        cond = rng.randrange(14)
        wc = (w & 0x0FFFFFFF) | (cond << 28)
        wal = (w & 0x0FFFFFFF) | (14 << 28)
        nzcv = passing_flags(rng, cond)
        cfgname = rng.choice(('v6', 'v7'))
        case = gen.step_case(rng, cfgname, False, e1.enc_arm(wc), e=0, mpu=False, mmu=False, hooked=True)
        case['state']['cpsr'] = (case['state']['cpsr'] & 0x0FFFFFFF) | (nzcv << 28)
        pc0 = case['state']['R.PC']
        if any(k.startswith('R.') and k != 'R.PC' and abs(v - pc0) <= 0x60 for k, v in case['state'].items()):
            continue        # a register points at the instruction itself: a load could read its own (differing) condition field
        case2 = dict(case)
        case2['poke'] = [[case['poke'][0][0], e1.enc_arm(wal).hex()]] + case['poke'][1:]
        cpu, pre, posts, excs = e1.run(case)
        M = Machine(pre, [tuple(m) for m in case['mems']], diff.full_cfg(case['cfg']), True)
        try:
            M.word = wc
            rstep.decode(M, wc, 32)
        except (Unpred, Skip):
            acc.excluded += 1
            continue
        except (Undef, NotImpl):
            pass
        cpu2, pre2, posts2, excs2 = e1.run(case2)
        p1, p2 = dict(posts[0]), dict(posts2[0])
        code_mem = [k for k in p1 if k.startswith('mem') and p1[k] != p2[k]]
        # the only byte that may differ is the cond nibble of the instruction itself
        for k in code_mem:
            a, b = bytearray(p1[k]), bytearray(p2[k])
            off = case['poke'][0][0] - case['mems'][int(k[3:])][0] + 3
            if 0 <= off < len(a):
                a[off] = b[off] = 0
            p1[k], p2[k] = bytes(a), bytes(b)
        d = {k: (p2[k], p1[k]) for k in p1 if p1[k] != p2[k] and k != 'hsr'}
        same_exc = (excs[0] is None) == (excs2[0] is None)
        acc.case(True, (wc, pre['cpsr']), cls='twin:' + name, sample={'row': name, 'word': '%#x' % wc, 'cond': cond, 'nzcv': nzcv})
        if d or not same_exc:
            acc.violation('C05:twin:%s:%s' % (name, e1prop.sig(d) if d else 'exception'), case,
                          {'differs(AL,cond)': e1.fmt_diff(d), 'exc': [repr(excs[0]), repr(excs2[0])], 'cond': cond, 'nzcv': nzcv})
    return acc


# "when it passes, it behaves as the unconditional instruction": every encoding with a PASSING condition - ARM cond field, Thumb instructions in
# every position of an IT block (last-in-block favoured: interworking branches, PC loads) - against the reference step, which evaluates the
# condition from the table above and otherwise knows nothing about conditions
def _pass_kw(rng, row):
    return {'mpu': False, 'mmu': False, 'e': 0}


def _pass_tweak(rng, row, w, case):
    st = case['state']
    it = ((st['cpsr'] >> 25) & 3) | (((st['cpsr'] >> 10) & 0x3F) << 2)
    thumb = bool(st['cpsr'] & 0x20)
    if thumb:
        if rng.random() < 0.7:
            cond = rng.randrange(14)
            it = (cond << 4) | (0b1000 if rng.random() < 0.6 else rng.choice((0b0100, 0b1100, 0b0010, 0b0001)))
            st['cpsr'] = (st['cpsr'] & ~0x0600FC00) | ((it & 3) << 25) | ((it >> 2) << 10)
        cond = (it >> 4) if it & 0xF else 14
    else:
        cond = w >> 28
    if cond < 14:
        st['cpsr'] = (st['cpsr'] & 0x0FFFFFFF) | (passing_flags(rng, cond) << 28)
    # interworking targets in both instruction sets for BX / BLX / PC loads
    mode = gen.MODE_NAME[st['cpsr'] & 31]
    for n in range(8):
        if rng.random() < 0.3:
            st[gen.bank_key(n, mode)] = (st['R.PC'] & ~0xFF) + 4 * rng.randrange(0, 0x30) + rng.choice((0, 1))


PLAN_PASS = e1prop.Plan('C05', ALLROWS, cfgs=('v6', 'v7', 'v5', 'v7-jz'), case_kw=_pass_kw, tweak_case=_pass_tweak,
                        classify=lambda res, case: ['passing:' + ('it-last' if (case['state']['cpsr'] & 0x0600FC00) and ((case['state']['cpsr'] >> 25) & 3) == 0 and
                                                                  ((case['state']['cpsr'] >> 10) & 3) == 0b10 else 'other')] if res.cond_passed else [])


def run(ctx):
    ctx.rule = ('(1) exhaustive: 15 conditions x 16 NZCV x {ARM MOVcc, Thumb Bcc T1, Bcc.W T3, IT cc then-slot, ITE else-slot} against the '
                'condition table written by meaning (EQ = Z set, HI = C set and Z clear, ...). (2) identity: every encoding row of all three '
                'reference tables (fields random, registers biased) executed with a FAILING condition (ARM cond 0..13 / an IT state whose current '
                'condition fails / Bcc) from a generated state: the complete post-state equals the pre-state except PC += length and ITSTATE advanced; '
                'the reference is used only to exclude UNPREDICTABLE/UNDEFINED encodings. (3) twin: an ARM word whose condition passes gives the same '
                'post-state as the word with cond=AL. All cases count as non-trivial; distinct = (word, CPSR, config).')
    ctx.technique = 'exhaustive enumeration of the condition table + property-based testing with identity and metamorphic oracles'
    ctx.assumptions = ['legality (UNPREDICTABLE / UNDEFINED) of generated words is taken from vf/ref decode', 'BKPT is unconditional; UDF with failing condition is IMPLEMENTATION DEFINED']
    tasks = [(shard_table, (ctx.shard_seed(0),))]
    tasks += [(shard_identity, (ctx.shard_seed(10 + i), ctx.n(4000, 80000))) for i in range(24)]
    tasks += [(shard_twin, (ctx.shard_seed(100 + i), ctx.n(1500, 30000))) for i in range(8)]
    tasks += [(e1prop.shard, ('vf.props.c05:PLAN_PASS', ctx.shard_seed(200 + i), ctx.n(250, 5000))) for i in range(8)]
    tasks += e1prop.history_tasks(ctx, 'vf.props.c05:PLAN_PASS')        # histories on one instance (incl. the same word in ARM and then in Thumb state under an IT condition)
    ctx.pmap(_dispatch, tasks)
    ctx.acc.exhaustive = True
    ctx.acc.extra['exhaustive_part'] = 'condition table 15 x 16 x 5 forms x 2 configs'


def _dispatch(fn, args):
    return fn(*args)


def replay(case, bucket=None):
    # identity / table cases are replayed through the generic E1 differential (condition handling is part of the reference step)
    if bucket and bucket.split(':')[1] in e1prop.ROWS:
        return e1prop.replay(PLAN_PASS, case)
    if case.get('via_deepcopy'):
        import copy
        orig = e1.build(case)
        cpu = copy.deepcopy(orig)
        orig.registers.cpsr.value = orig.registers.cpsr.value ^ 0xF0000000
        pre = target.snapshot(cpu)
        M = Machine(pre, [tuple(m) for m in case['mems']], diff.full_cfg(case['cfg']))
        for _ in range(case.get('steps', 1)):
            if target.step_budget(cpu) is not None:
                return ['exception']
            if rstep.step(M)[0] in ('unpred', 'skip'):
                return []
        d = diff.compare(M, target.snapshot(cpu), pre)
        return [e1prop.sig(d)] if d else []
    res = diff.run(case)
    return [e1prop.sig(res.diffs)] if res.diffs else []
