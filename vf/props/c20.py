"""C20 — determinism and isolation: a step depends only on the instance's own configuration, state and memory.
(a) snapshot determinism (deepcopy / rebuild), (b) history independence (same state after different prior histories),
(c) isolation of several instances under Hypothesis-generated interleavings of steps and instance creation."""
import copy
import hashlib
import random

import hypothesis
from hypothesis import settings, strategies as st, HealthCheck, Phase
from hypothesis.stateful import RuleBasedStateMachine, rule, initialize, precondition, run_state_machine_as_test

from vf import gen, e1, target, known
from vf.runner import Acc
from vf.props.c18 import harvest_words

from armulator.armv6.configurations import configurations

CFGS = ['v6', 'v7', 'v6-nosec', 'v7-vmsa', 'v5', 'v7r', 'v7-virt']


def program_case(rng, cfgname, steps=1):
    ca, ct = harvest_words()
    thumb = rng.random() < 0.4
    if thumb:
        code = b''.join(e1.enc_thumb(rng.choice(ct) if rng.random() < 0.7 else rng.getrandbits(16)) for _ in range(40))
    else:
        words = []
        for _ in range(40):
            r = rng.random()
            if r < 0.55:
                words.append(rng.choice(ca))
            elif r < 0.75:
                words.append(0xE5800000 | (rng.randrange(8) << 16) | (rng.randrange(8) << 12) | (rng.randrange(16) << 2))   # STR Rt,[Rn,#imm]
            elif r < 0.85:
                words.append(0xEF000000 | rng.getrandbits(8))       # SVC
            else:
                words.append(rng.getrandbits(32))
        code = b''.join(e1.enc_arm(w) for w in words)
    if cfgname == 'v7-virt' and rng.random() < 0.7:
        # a Non-secure guest under stage-2 translation whose data pages fault: the syndromes reported to Hyp mode are part of the trace
        case = gen.step_case(rng, cfgname, thumb, code, code_base=0x8000, e=0, steps=steps, ns=True, mmu=False, mode=rng.choice(('svc', 'usr', 'sys', 'irq')), hooked=True)
        gen.stage2_map(rng, case)
    else:
        case = gen.step_case(rng, cfgname, thumb, code, code_base=0x8000, e=0, steps=steps)
    st_ = case['state']
    mode = gen.MODE_NAME[st_['cpsr'] & 31]
    for n in range(8):
        if rng.random() < 0.6:
            st_[gen.bank_key(n, mode)] = gen.DATA[0] + 4 * rng.randrange(0, 0x30)
    # the vectors branch back into the program so that execution continues after exceptions
    return case


def digest(snap):
    h = hashlib.blake2b(digest_size=12)
    for k in sorted(snap):
        v = snap[k]
        h.update(k.encode())
        h.update(v if isinstance(v, bytes) else repr(v).encode())
    return h.hexdigest()


def step_trace(cpu, n):
    out = []
    for _ in range(n):
        e = target.step_budget(cpu)
        out.append((digest(target.snapshot(cpu)), type(e).__name__ if e is not None else None))
    return out


def interesting(case, trace_snaps):
    return True


# ---------------------------------------------------------------------------------------------- (a) + (b)
def snap_check(cfgname, case, k, j, other, osteps, wfe):
    """traces of j steps after a split point reached by k steps: the instance itself, its deepcopy, a rebuild from the saved case, and an instance with
    a different past (program `other`, osteps steps, wait flag) overwritten with the snapshot taken at the split point"""
    target.load_config(gen.CONFIGS[cfgname])
    cpu = e1.build(case)
    pre_mem = target.snapshot(cpu)
    step_trace(cpu, k)
    mid = target.snapshot(cpu)
    clone = copy.deepcopy(cpu)
    t1 = step_trace(cpu, j)
    t2 = step_trace(clone, j)
    cpu3 = e1.build(case)
    t3 = step_trace(cpu3, k + j)[k:]
    cpu4 = e1.build(other)
    step_trace(cpu4, osteps)
    if wfe:
        cpu4.is_wait_for_event = True
    target.apply_state(cpu4, {kk: v for kk, v in mid.items() if kk != 'cplog' or hasattr(cpu4, 'cplog')})          # (the coprocessor log is the harness's own record)
    t4 = step_trace(cpu4, j)
    stores = any(pre_mem[m] != mid[m] for m in pre_mem if m.startswith('mem'))
    exc_taken = (mid['cpsr'] & 31) != (pre_mem['cpsr'] & 31)
    bad = []
    for name, t in (('deepcopy', t2), ('rebuild', t3), ('other-history', t4)):
        if t != t1:
            bad.append((name, next(x for x in range(len(t1)) if t[x] != t1[x])))
    return bad, stores, exc_taken


def shard_snapshot(seed, count):
    acc = Acc()
    rng = random.Random(seed)
    for _ in range(count):
        cfgname = rng.choice(CFGS)
        case = program_case(rng, cfgname)
        k, j = rng.randrange(0, 8), rng.randrange(1, 12)
        other = program_case(rng, cfgname)
        other['mems'] = case['mems']
        other['hooked'] = case.get('hooked', False)          # same flavour of instance, different past
        osteps, wfe = rng.randrange(1, 10), rng.random() < 0.5
        bad, stores, exc_taken = snap_check(cfgname, case, k, j, other, osteps, wfe)
        acc.case(stores or exc_taken or j >= 3, ('snap', cfgname, case['poke'][0][1][:64], case['state']['cpsr'], k, j), cls='snapshot',
                 sample={'config': cfgname, 'k': k, 'j': j, 'code': case['poke'][0][1][:32], 'stores_before_split': stores, 'exception_before_split': exc_taken})
        for name, i in bad:
            acc.violation('C20:snapshot:' + name, {'case': case, 'k': k, 'j': j, 'kind': name, 'cfgname': cfgname, 'other': other, 'other_steps': osteps,
                                                   'other_wfe': wfe}, {'first_divergent_step': i})
    return acc


# ---------------------------------------------------------------------------------------------- (d) process history
def run_script(cfgname, script, j, with_prior):
    """runs `script` = [(prior, case)] in a FRESH interpreter and returns the trace of every case's instance (configuration `cfgname`, j steps).
    with_prior=False: the interpreter only ever sees configuration `cfgname` (no memo, module global or class attribute left behind by anything else
    can influence it) - the oracle. with_prior=True: before each case, instances of the other configurations in `prior` = [(cfgname, case, steps)] are
    created and stepped in the same interpreter. Both sides start from a clean process, so a divergence is a pure function of the script."""
    import json, os, subprocess, sys
    env = dict(os.environ, PYTHONHASHSEED='0', PYTHONDONTWRITEBYTECODE='1')
    r = subprocess.run([sys.executable, '-m', 'vf.props.c20', '--script'],
                       input=json.dumps({'cfgname': cfgname, 'script': script, 'j': j, 'with_prior': with_prior}),
                       capture_output=True, text=True, env=env, cwd=os.path.dirname(os.path.dirname(os.path.dirname(os.path.abspath(__file__)))))
    if r.returncode != 0:
        raise RuntimeError('script process failed: ' + r.stderr[-2000:])
    return [[tuple(x) for x in t] for t in json.loads(r.stdout.splitlines()[-1])]


def _script_main():
    import json, sys
    req = json.load(sys.stdin)
    out = []
    for prior, case in req['script']:
        if req['with_prior']:
            for pc, pcase, psteps in prior:
                target.load_config(gen.CONFIGS[pc])
                step_trace(e1.build(pcase), psteps)
        if req['with_prior']:
            target.load_config(gen.CONFIGS[req['cfgname']])
            # an earlier user of the process changed configuration values in memory (never written to a file): a new instance created from a
            # configuration file still gets exactly what the file says
            for k, v in list(configurations.configs.items()):
                if isinstance(v, bool):
                    configurations.configs[k] = not v
                elif k == 'arch_version':
                    configurations.configs[k] = 4 if v >= 6 else 7
        out.append(step_trace(e1.build(case), req['j']))
    sys.__stdout__.write(json.dumps(out) + '\n')
    sys.__stdout__.flush()


def shard_fresh(cfgname, seed, count):
    acc = Acc()
    rng = random.Random(seed)
    j = 6
    script = []
    for _ in range(count):
        prior = []
        for _ in range(rng.randrange(1, 3)):
            pc = rng.choice([c for c in CFGS if c != cfgname])
            prior.append([pc, program_case(rng, pc), rng.randrange(1, 6)])
        case = program_case(rng, cfgname)
        if not (case['state']['cpsr'] & 0x20) and rng.random() < 0.5:
            # the program starts by writing a mode number (also ones this configuration does not implement): whether that is accepted must not
            # depend on which configurations other instances of the process had
            r0 = (case['state']['cpsr'] & ~31 & 0xFFFFFFFF) | rng.choice((0b10110, 0b11010, 0b10001, 0b11011, 0b10111, 0b10110, 0b11010))
            mode = gen.MODE_NAME[case['state']['cpsr'] & 31]
            case['state'][gen.bank_key(0, mode)] = r0
            code = bytes.fromhex(case['poke'][0][1])
            case['poke'][0][1] = (e1.enc_arm(0xE121F000) + code[4:]).hex()          # MSR CPSR_c, r0
        script.append([prior, case])
    want = run_script(cfgname, script, j, False)
    got = run_script(cfgname, script, j, True)
    for i, ((prior, case), w, g) in enumerate(zip(script, want, got)):
        acc.case(True, ('fresh', cfgname, case['poke'][0][1][:64], case['state']['cpsr'], tuple(p[0] for p in prior)), cls='fresh-process:' + cfgname,
                 sample={'config': cfgname, 'prior_configs': [p[0] for p in prior], 'code': case['poke'][0][1][:32]})
        if g != w:
            # smallest reproducing script: this item alone, else the whole prefix
            alone = [script[i]]
            sub = alone if run_script(cfgname, alone, j, True) != run_script(cfgname, alone, j, False) else script[:i + 1]
            acc.violation('C20:process-history:%s-after-%s' % (cfgname, '+'.join(sorted({p[0] for p in prior}))),
                          {'cfgname': cfgname, 'script': sub, 'j': j, 'kind': 'fresh'},
                          {'first_divergent_step': next(x for x in range(j) if g[x] != w[x]), 'script_items': len(sub)})
            break
    return acc


# ---------------------------------------------------------------------------------------------- (e) memory hub history
def hub_history_case(lay, ops_a, ops_b, probe):
    """two hubs with the same devices, different access histories, then the same memory contents and the same probe accesses: same answers, same memory.
    Anything the hub remembers about earlier accesses (a last-hit shortcut, a cached device) is not part of the state and must not matter."""
    from vf.props import c16
    def run(ops):
        hub = c16.build_hub(c16.Model(lay))
        for kind, a, size, value in ops:
            if kind == 'w':
                hub[c16.desc(a), size] = value
            else:
                hub[c16.desc(a), size]
        return hub
    ha, hb = run(ops_a), run(ops_b)
    for ma, mb in zip(ha.memories, hb.memories):
        mb.mem.memory_array[:] = ma.mem.memory_array
    out = []
    for hub in (ha, hb):
        res = []
        for kind, a, size, value in probe:
            if kind == 'w':
                hub[c16.desc(a), size] = value
                res.append(None)
            else:
                res.append(hub[c16.desc(a), size])
        out.append((res, [bytes(m.mem.memory_array) for m in hub.memories]))
    return out[0] == out[1], out


def shard_hub_history(seed, count):
    from vf.props import c16
    acc = Acc()
    rng = random.Random(seed)
    for _ in range(count):
        anchor = rng.choice(c16.ANCHORS)
        lay, off = [], 0
        for _d in range(rng.randrange(2, 5)):
            size = rng.randrange(1, 40)
            lay.append([anchor, off, size])
            off += size if rng.random() < 0.7 else rng.choice((size - 1, size + 1, size + 8))       # abutting (mostly), overlapping by one, gapped
            off = max(off, 0)
        model = c16.Model(lay)
        pts = sorted({(b + d) & c16.PA_MASK for b, e, _ in model.devs for d in range(-3, 3)} | {(e + d) & c16.PA_MASK for b, e, _ in model.devs for d in range(-9, 3)})
        def ops(n):
            return [[rng.choice('rw'), rng.choice(pts), rng.choice(c16.SIZES), rng.getrandbits(64)] for _ in range(n)]
        def fix(o):
            return [[k, a, sz, v & ((1 << (8 * sz)) - 1)] for k, a, sz, v in o]
        oa, ob, pr = fix(ops(rng.randrange(1, 6))), fix(ops(rng.randrange(0, 6))), fix(ops(rng.randrange(1, 5)))
        try:
            same, out = hub_history_case(lay, oa, ob, pr)
        except Exception as e:
            acc.violation('C20:hub-history:host-error', {'kind': 'hub', 'layout': lay, 'ops_a': oa, 'ops_b': ob, 'probe': pr}, {'exc': repr(e)})
            continue
        acc.case(True, ('hub', repr(lay), repr(oa), repr(ob), repr(pr)), cls='hub-history', sample={'layout': lay, 'history_a': oa[:3], 'history_b': ob[:3], 'probe': pr[:3]})
        if not same:
            acc.violation('C20:hub-history', {'kind': 'hub', 'layout': lay, 'ops_a': oa, 'ops_b': ob, 'probe': pr},
                          {'answers_a': [x for x in out[0][0]], 'answers_b': [x for x in out[1][0]]})
    return acc


# ---------------------------------------------------------------------------------------------- (c) isolation
# ---------------------------------------------------------------------------------------------- (e) interleavings finer than whole steps
WINDOW = 0x50000


def _window_class():
    from armulator.armv6.memory_types import RAM

    class StepWindow(RAM):
        """an embedder-made device (lock-step co-simulation, a mailbox): every read of it lets a peer processor run one instruction"""
        peer = None
        busy = False
        budget = 0

        def read(self, address, size):
            if self.peer is not None and not self.busy and self.budget > 0:
                self.busy = True
                self.budget -= 1
                try:
                    e = target.step_budget(self.peer)
                    self.log.append((digest(target.snapshot(self.peer)), type(e).__name__ if e is not None else None))
                finally:
                    self.busy = False
            return super().read(address, size)
    return StepWindow


def nested_case(rng, cfgname):
    """processor A: loads (aligned and not, word / halfword / doubleword / multiple) from the window device and stores to its RAM; processor B: an
    ordinary program with unaligned data pointers"""
    thumb = False
    words = []
    for _ in range(24):
        t_, b_, im_ = rng.randrange(8), rng.randrange(8), rng.randrange(16)
        r = rng.random()
        if r < 0.45:
            words.append(0xE5900000 | (b_ << 16) | (t_ << 12) | im_)                                  # LDR Rt,[Rn,#imm] (any alignment)
        elif r < 0.6:
            words.append(0xE1D000B0 | (b_ << 16) | (t_ << 12) | ((im_ >> 4) << 8) | (im_ & 15))        # LDRH
        elif r < 0.7:
            words.append(0xE1C000D0 | (b_ << 16) | ((t_ & 6) << 12) | (im_ & 12))                      # LDRD
        elif r < 0.8:
            words.append(0xE8900000 | (b_ << 16) | (rng.getrandbits(8) or 1))                          # LDM
        elif r < 0.9:
            words.append(0xE5800000 | (8 << 16) | (t_ << 12) | ((im_ & 15) << 2))                      # STR Rt,[R8,#imm] (own RAM)
        else:
            words.append(0xE0800000 | (t_ << 12) | (b_ << 16) | rng.randrange(8))                      # ADD
    code = b''.join(e1.enc_arm(w) for w in words)
    a = gen.step_case(rng, cfgname, thumb, code, code_base=0x8000, e=rng.choice((0, 0, 1)), steps=1, mpu=False, mmu=False)
    a['mems'].append([WINDOW, 0x100])
    a['poke'].append([WINDOW, bytes(rng.getrandbits(8) for _ in range(0x100)).hex()])
    st_ = a['state']
    st_['sctlr'] = (st_.get('sctlr', 0) & ~2) | (1 << 22)                 # alignment checking off, unaligned support on (v6)
    mode = gen.MODE_NAME[st_['cpsr'] & 31]
    for n in range(8):
        st_[gen.bank_key(n, mode)] = WINDOW + rng.randrange(0, 0xC0)
    st_[gen.bank_key(8, mode)] = gen.DATA[0] + 4 * rng.randrange(0x20)
    b = program_case(rng, cfgname)
    sb = b['state']
    sb['sctlr'] = (sb.get('sctlr', 0) & ~2) | (1 << 22)
    modeb = gen.MODE_NAME[sb['cpsr'] & 31]
    for n in range(8):
        if rng.random() < 0.7:
            sb[gen.bank_key(n, modeb)] = gen.DATA[0] + rng.randrange(0, 0xC0)
    if not (sb['cpsr'] >> 5) & 1:
        # B's program gets unaligned loads of its own
        cb = bytearray(bytes.fromhex(b['poke'][0][1]))
        for k_ in range(0, 40, 2):
            cb[4 * k_:4 * k_ + 4] = e1.enc_arm(0xE5900000 | (rng.randrange(8) << 16) | (rng.randrange(8) << 12) | rng.randrange(16))
        b['poke'][0][1] = bytes(cb).hex()
    return a, b


def nested_run(cfgname, a, b, nsteps, budget):
    """returns (A alone, A with the peer stepping inside its reads, B's log from inside, B alone)"""
    target.load_config(gen.CONFIGS[cfgname])
    W = _window_class()

    def build_a(peer):
        cpu = e1.build(a)
        mc = cpu.mem.memories[-1]
        w = W(mc.mem.size)
        w.memory_array[:] = mc.mem.memory_array
        w.peer, w.budget, w.log = peer, (budget if peer is not None else 0), []
        mc.mem = w
        return cpu, w
    ca, _ = build_a(None)
    alone = step_trace(ca, nsteps)
    cb = e1.build(b)
    ca2, w = build_a(cb)
    together = step_trace(ca2, nsteps)
    b_alone = step_trace(e1.build(b), len(w.log))
    return alone, together, w.log, b_alone


def shard_nested(seed, count):
    acc = Acc()
    rng = random.Random(seed)
    try:
        for i in range(count):
            cfgname = rng.choice(('v7', 'v7', 'v6', 'v7-virt'))
            a, b = nested_case(rng, cfgname)
            nsteps, budget = rng.randrange(3, 12), rng.randrange(1, 40)
            alone, together, blog, b_alone = nested_run(cfgname, a, b, nsteps, budget)
            acc.case(len(blog) >= 2, ('nested', cfgname, a['poke'][0][1], b['poke'][0][1], a['state']['cpsr'], nsteps, budget), cls='nested:peer-steps-inside-a-step:%s' % ('0-1' if len(blog) < 2 else '2-9' if len(blog) < 10 else '10+'),
                     sample=lambda: {'cfg': cfgname, 'a_steps': nsteps, 'peer_steps_inside_reads': len(blog)})
            if alone != together or blog != b_alone:
                who = 'reader' if alone != together else 'peer'
                acc.violation('C20:nested:%s-trace-depends-on-the-other-instance' % who, {'kind': 'nested', 'cfgname': cfgname, 'a': a, 'b': b, 'nsteps': nsteps, 'budget': budget},
                              {'first_divergent_step_of_reader': next((k for k in range(nsteps) if alone[k] != together[k]), None),
                               'first_divergent_step_of_peer': next((k for k in range(len(blog)) if blog[k] != b_alone[k]), None)})
    finally:
        target.load_config(None)
    return acc


def preempted_step(cpu, peer, k):
    """one emulate_cycle() of `cpu`; at the k-th executed source line of armulator code inside it the peer runs one whole instruction (what a thread switch
    between two cores driven from two threads amounts to, with the schedule owned by the harness). Returns (lines executed, peer outcome)"""
    import sys
    cnt = [0]
    out = [None]

    def local(frame, event, arg):
        if event == 'line':
            cnt[0] += 1
            if cnt[0] == k and peer is not None:
                e = target.step_budget(peer)                  # (not traced: a trace function's own calls never are)
                out[0] = (digest(target.snapshot(peer)), type(e).__name__ if e is not None else None)
        return local

    def tr(frame, event, arg):
        return local if 'armulator' in frame.f_code.co_filename else None
    sys.settrace(tr)
    try:
        e = target.step_budget(cpu)
    finally:
        sys.settrace(None)
    return cnt[0], out[0], (digest(target.snapshot(cpu)), type(e).__name__ if e is not None else None)


def preempt_run(cfgname, a, b, ks):
    target.load_config(gen.CONFIGS[cfgname])
    nlines, _, a_alone = preempted_step(e1.build(a), None, 0)
    b_alone = step_trace(e1.build(b), 1)[0]
    bad = []
    for k in ks:
        k = 1 + k % max(nlines, 1)
        _, b_in, a_with = preempted_step(e1.build(a), e1.build(b), k)
        if a_with != a_alone or (b_in is not None and b_in != b_alone):
            bad.append((k, 'preempted' if a_with != a_alone else 'peer'))
    return nlines, bad


def shard_preempt(seed, count, nks):
    """two instances executing the same kind of instruction (same word, independent register values), one of them interrupted in the middle of its step"""
    acc = Acc()
    rng = random.Random(seed)
    ca, _ct = harvest_words()
    try:
        for i in range(count):
            cfgname = rng.choice(('v7', 'v7', 'v6', 'v7-virt'))
            w = rng.choice(ca)
            w2 = rng.choice(ca) if rng.random() < 0.3 else w
            a = gen.step_case(rng, cfgname, False, e1.enc_arm(w) * 2, code_base=0x8000, e=0, steps=1)
            b = gen.step_case(rng, cfgname, False, e1.enc_arm(w2) * 2, code_base=0x8000, e=0, steps=1)
            ks = [rng.getrandbits(16) for _ in range(nks)]
            nlines, bad = preempt_run(cfgname, a, b, ks)
            acc.case(nlines > 20, ('preempt', cfgname, w, w2, a['state']['cpsr'], tuple(ks)), cls='preempted-inside-a-step:%s' % ('same-instruction' if w == w2 else 'other-instruction'),
                     sample=lambda: {'cfg': cfgname, 'word': '%#010x' % w, 'peer_word': '%#010x' % w2, 'source_lines_in_the_step': nlines, 'switch_points_tried': len(ks)})
            if bad:
                acc.violation('C20:preempted:%s-result-depends-on-the-other-instance' % bad[0][1], {'kind': 'preempt', 'cfgname': cfgname, 'a': a, 'b': b, 'ks': [bad[0][0] - 1]},
                              {'word': '%#010x' % w, 'peer_word': '%#010x' % w2, 'switch_at_line': bad[0][0], 'of': nlines, 'all': bad[:8]})
    finally:
        target.load_config(None)
    return acc


class Diverged(Exception):
    pass


INJECT_KINDS = ('take_physical_irq_exception', 'take_physical_fiq_exception', 'take_reset')


def apply_op(cpu, op):
    """one operation of an interleaving on one instance: a step, or an interrupt / reset delivered by the embedder; returns (state digest, escaping exception)"""
    if op == 'step':
        e = target.step_budget(cpu)
    else:
        try:
            (getattr(cpu.registers, op, None) or getattr(cpu, op))()
            e = None
        except Exception as ex:      # noqa: BLE001
            e = ex
    return (digest(target.snapshot(cpu)), type(e).__name__ if e is not None else None)


CUR = {}


def make_machine(acc, same_config):
    class Iso(RuleBasedStateMachine):
        @initialize(seed=st.integers(0, 2 ** 32 - 1))
        def init(self, seed):
            self.rng = random.Random(seed)
            self.inst = []        # dicts: cpu, solo (cpu stepped alone under its own config), cfgname, case, steps
            self.hist = [('seed', seed)]
            self.switches = 0
            self.last = None
            self.base_cfg = self.rng.choice(CFGS)
            self.created_last = None
            CUR['hist'] = self.hist
            self.quirk_hits = 0

        @precondition(lambda self: hasattr(self, 'inst') and len(self.inst) < 3)
        @rule(ci=st.integers(0, len(CFGS) - 1), pseed=st.integers(0, 2 ** 32 - 1))
        def create(self, ci, pseed):
            cfgname = self.base_cfg if same_config else CFGS[ci]
            case = program_case(random.Random(pseed), cfgname)
            self.hist.append(('create', cfgname, pseed))
            cpu = e1.build(case)          # constructing an instance loads its configuration into the module-level singleton
            self.inst.append({'cpu': cpu, 'cfgname': cfgname, 'case': case, 'obs': [], 'inforce': [], 'ops': []})
            self.created_last = cfgname

        @precondition(lambda self: hasattr(self, 'inst') and len(self.inst) > 0)
        @rule(i=st.integers(0, 2))
        def step(self, i):
            self.operate(i, 'step')

        @precondition(lambda self: hasattr(self, 'inst') and len(self.inst) > 0)
        @rule(i=st.integers(0, 2), kind=st.sampled_from(INJECT_KINDS))
        def inject(self, i, kind):
            # what an embedder does between steps: an interrupt or a reset delivered to one of the instances
            self.operate(i, kind)

        def operate(self, i, op):
            it = self.inst[i % len(self.inst)]
            idx = self.inst.index(it)
            self.hist.append(('step', idx) if op == 'step' else ('inject', idx, op))
            if self.last is not None and self.last != idx:
                self.switches += 1
            self.last = idx
            # observed: operate the instance as a user would - the harness does not touch the module-level configuration between operations (the
            # expectations are computed when the history is over)
            it['obs'].append(apply_op(it['cpu'], op))
            it['ops'].append(op)
            it['inforce'].append(self.created_last)

        def check(self):
            """after the history: every instance must have produced the trace its solo twin produces under its own configuration"""
            for idx, it in enumerate(self.inst):
                if not it['ops']:
                    continue
                target.load_config(gen.CONFIGS[it['cfgname']])
                solo = e1.build(it['case'])
                exp = [apply_op(solo, op) for op in it['ops']]
                if exp == it['obs']:
                    continue
                attributed = False
                if any(c != it['cfgname'] for c in it['inforce']) and 'config-singleton' in known.listed('C20'):
                    # quirk model of the known finding: the twin alone, but every operation under the configuration that was in force (the one of the
                    # most recently constructed instance)
                    target.load_config(gen.CONFIGS[it['cfgname']])
                    twin = e1.build(it['case'])
                    pred = []
                    for op, c in zip(it['ops'], it['inforce']):
                        target.load_config(gen.CONFIGS[c])
                        pred.append(apply_op(twin, op))
                    attributed = pred == it['obs']
                if attributed:
                    acc.known_hit('config-singleton')
                    continue
                k = next(x for x in range(len(exp)) if exp[x] != it['obs'][x])
                raise Diverged('instance %d (%s) diverged from its solo trace at its operation %d (%s; configuration in force: %s)' % (
                    idx, it['cfgname'], k + 1, it['ops'][k], it['inforce'][k]))

        def teardown(self):
            if not hasattr(self, 'hist'):
                return
            try:
                self.check()
            finally:
                target.load_config(None)
            cfgs = {it['cfgname'] for it in self.inst}
            acc.case(self.switches >= 2, ('iso', tuple(map(str, self.hist))), cls='isolation:' + ('same-config' if len(cfgs) <= 1 else 'mixed-config'),
                     sample={'history': [list(map(str, h)) for h in self.hist[:16]], 'switches': self.switches, 'configs': sorted(cfgs)})
            acc.extra['interleaved_steps'] = acc.extra.get('interleaved_steps', 0) + sum(len(it['obs']) for it in self.inst)
    return Iso


def shard_iso(seed, examples, steps, same_config):
    acc = Acc()
    Mch = make_machine(acc, same_config)
    try:
        run_state_machine_as_test(hypothesis.seed(seed)(Mch), settings=settings(
            max_examples=examples, stateful_step_count=steps, deadline=None, database=None, phases=[Phase.generate, Phase.shrink],
            report_multiple_bugs=False, suppress_health_check=list(HealthCheck)))
    except Diverged as d:
        acc.violation('C20:isolation:' + ('same-config' if same_config else 'mixed-config'),
                      {'history': [list(h) for h in CUR.get('hist', [])], 'same_config': same_config}, str(d))
    finally:
        target.load_config(None)
    return acc


def replay_history(hist, same_config):
    acc = Acc()
    Mch = make_machine(acc, same_config)
    m = Mch.__new__(Mch)
    RuleBasedStateMachine.__init__(m)
    try:
        for h in hist:
            if h[0] == 'seed':
                m.init(h[1])
            elif h[0] == 'create':
                m.create(CFGS.index(h[1]), h[2])
            elif h[0] == 'step':
                m.step(h[1])
            elif h[0] == 'inject':
                m.inject(h[1], h[2])
        m.check()
    except Diverged as d:
        return str(d)
    finally:
        target.load_config(None)
    return None


def run(ctx):
    ctx.rule = ('(a) generate a program (test-suite words, stores, SVCs, random words) and state; run k steps; deepcopy the ArmV6; run j more steps on '
                'both, and rebuild from the saved case and run k+j: per-step digests of the complete snapshot (registers, system registers, memory) and '
                'the escaping exception type must be equal. (b) the snapshot taken at the split point is applied to an instance with a different prior '
                'history (other program, wait flag set): same trace. (c) Hypothesis rule-based machine: create up to three instances at generated points '
                'and step them in a generated interleaving; after every step the instance must equal its solo twin stepped under its own configuration. '
                'Same-configuration groups must be perfectly isolated; mixed-configuration groups (PMSA/VMSA, arch 5/6/7, security on/off, 7-R) are '
                'attributed to the known finding config-singleton only when the observed state equals the prediction "the module-level configuration is '
                'the one of the most recently constructed instance". (d) process history: an instance created from configuration file X after instances of other configurations were created and stepped in the same process must produce the trace a fresh interpreter that only ever loaded X produces (both sides run in fresh subprocesses, so a divergence is a pure function of the recorded script). (e) memory hub: two hubs with the same devices (abutting / overlapping / gapped, up to 40-bit addresses) and different access histories, then identical contents: the same probe accesses give the same answers and memory. Non-trivial: a store or exception before the split / >=2 switches in the interleaving.')
    ctx.technique = 'stateful property testing of instance interleavings (Hypothesis rule-based machine) + snapshot/replay trace equality'
    ctx.assumptions = ['schedules are interleavings of whole emulate_cycle() calls chosen by the harness (no threads)']
    tasks = [(shard_snapshot, (ctx.shard_seed(i), ctx.n(500, 5000))) for i in range(8)]
    tasks += [(shard_iso, (ctx.shard_seed(100 + i), ctx.n(120, 1500), ctx.n(25, 40), True)) for i in range(4)]
    tasks += [(shard_iso, (ctx.shard_seed(200 + i), ctx.n(120, 1500), ctx.n(25, 40), False)) for i in range(4)]
    tasks += [(shard_nested, (ctx.shard_seed(500 + i), ctx.n(400, 8000))) for i in range(4)]
    tasks += [(shard_preempt, (ctx.shard_seed(600 + i), ctx.n(120, 1500), ctx.n(48, 160))) for i in range(8)]
    tasks += [(shard_hub_history, (ctx.shard_seed(400 + i), ctx.n(1500, 30000))) for i in range(4)]
    tasks += [(shard_fresh, (c, ctx.shard_seed(300 + i), ctx.n(60, 1200))) for i, c in enumerate(CFGS)]
    ctx.pmap(_dispatch, tasks)


def _dispatch(fn, args):
    return fn(*args)


def replay(case, bucket=None):
    if 'history' in case:
        msg = replay_history([tuple(h) for h in case['history']], case.get('same_config', False))
        return [msg] if msg else []
    if case.get('kind') == 'nested':
        try:
            alone, together, blog, b_alone = nested_run(case['cfgname'], case['a'], case['b'], case['nsteps'], case['budget'])
        finally:
            target.load_config(None)
        return ['diverged'] if (alone != together or blog != b_alone) else []
    if case.get('kind') == 'preempt':
        try:
            _n, bad = preempt_run(case['cfgname'], case['a'], case['b'], case['ks'])
        finally:
            target.load_config(None)
        return ['diverged'] if bad else []
    if case.get('kind') == 'hub':
        same, _ = hub_history_case(case['layout'], case['ops_a'], case['ops_b'], case['probe'])
        return [] if same else ['hub answers depend on the access history']
    if case.get('kind') == 'fresh':
        want = run_script(case['cfgname'], case['script'], case['j'], False)
        got = run_script(case['cfgname'], case['script'], case['j'], True)
        return ['diverged from the fresh-process trace'] if got[-1] != want[-1] else []
    c = case['case']
    if 'other' in case:
        try:
            bad, _, _ = snap_check(case['cfgname'], c, case['k'], case['j'], case['other'], case['other_steps'], case['other_wfe'])
        finally:
            target.load_config(None)
        return ['diverged:' + n for n, _ in bad]
    k, j = case['k'], case['j']
    cpu = e1.build(c)
    step_trace(cpu, k)
    clone = copy.deepcopy(cpu)
    t1, t2 = step_trace(cpu, j), step_trace(clone, j)
    t3 = step_trace(e1.build(c), k + j)[k:]
    return ['diverged'] if (t1 != t2 or t1 != t3) else []


if __name__ == '__main__':
    import sys
    if '--script' in sys.argv:
        _script_main()
