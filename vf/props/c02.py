"""C02 — single-register loads and stores (E1 differential vs vf/ref/sem_ls.py)."""
from vf import gen
from vf.props import e1prop
from vf.ref import step  # noqa: F401
from vf.ref.core import REG

ROWS = sorted(n for n, (d, x) in REG.items() if x.__module__ == 'vf.ref.sem_ls')
M32 = 0xFFFFFFFF


def aim_base(rng, row, w, case, fields=('n',)):
    """point the base register(s) into / next to / across the ends of mapped memory so that the access is performed"""
    f = row.extract(w)
    st = case['state']
    mode = gen.MODE_NAME[st['cpsr'] & 31]
    data = gen.DATA
    for fld in fields:
        if fld not in f or not isinstance(f[fld], int) or f[fld] > 14:
            continue
        if rng.random() < 0.85:
            r = rng.random()
            if r < 0.6:
                p = data[0] + 0x40 + rng.randrange(0, 0x80)
                if rng.random() < 0.6:
                    p &= ~3
            elif r < 0.75:
                p = data[0] + rng.choice((0, 1, 2, 3, 4, 8))
            elif r < 0.9:
                p = data[0] + data[1] - rng.choice((1, 2, 3, 4, 5, 8, 12, 16))
            else:
                p = rng.choice((0, 4, 8, 0x10, M32, M32 - 3, M32 - 7, 0xFFFFFFF0, 0x7C))
            big = [m_ for m_ in case['mems'] if m_[1] >= 0x20000]
            if big and rng.random() < 0.8:
                # a large device that does not begin at a multiple of the access size: aligned accesses at 64 KiB / 4 KiB multiples inside it
                b_, sz_ = big[0][0], big[0][1]
                p = rng.choice(((b_ + 0x10000) & ~0xFFFF, (b_ + 0x20000) & ~0xFFFF, b_ + 0x10000, (b_ + 0x1000) & ~0xFFF)) + rng.choice((0, 0, -4, -2, -8, 4, -1))
                if f.get('P', 0) and isinstance(f.get('i'), int) and 'U' in f and len(row.fields.get('i', ())) in (8, 12) and rng.random() < 0.8:
                    p += -f['i'] if f['U'] else f['i']            # (immediate-offset forms: the access, not the base, goes there)
            st[gen.bank_key(f[fld], mode)] = p & M32
    if 'm' in f and isinstance(f['m'], int) and f['m'] <= 14 and 'n' in f and f['m'] != f.get('n') and rng.random() < 0.7:
        st[gen.bank_key(f['m'], mode)] = rng.choice((0, 1, 2, 3, 4, 8, 0x10, 0x20, M32, M32 - 3, 0xFFFFFFF0, 5))


def seed_monitor(rng, row, w, case):
    """store-exclusive rows on the hooked target (local monitor implemented): a reservation for exactly this access (the store must
    succeed, write memory, return 0 and clear the monitor), for the same address with another size, for a neighbouring address, or none"""
    aim_base(rng, row, w, case)
    if not row.name.startswith('STREX') or not case.get('hooked'):
        return
    f = row.extract(w)
    st = case['state']
    mode = gen.MODE_NAME[st['cpsr'] & 31]
    if f['n'] > 14:
        return
    size = {'STREX_': 4, 'STREXB': 1, 'STREXH': 2, 'STREXD': 8}[row.name[:6]]
    k = gen.bank_key(f['n'], mode)
    if rng.random() < 0.7:
        st[k] &= ~(size - 1)
    addr = (st[k] + ((f.get('i', 0) << 2) if row.name == 'STREX_T1' else 0)) & M32
    r = rng.random()
    if r < 0.55:
        st['excl'] = (addr, size)
    elif r < 0.7:
        st['excl'] = (addr, rng.choice([x for x in (1, 2, 4, 8) if x != size]))
    elif r < 0.85:
        st['excl'] = ((addr + rng.choice((-8, -4, 4, 8, 1))) & M32, size)
    else:
        st['excl'] = None


def classify(res, case):
    out = []
    M = res.M
    if res.status == 'abort':
        out.append('abort:' + res.detail)
    if res.status == 'ok' and res.cond_passed:
        if res.pre.get('excl') and not M.s.get('excl') and (res.row or '').startswith('STREX'):
            out.append('store-exclusive-succeeded')
        if case['state']['cpsr'] & 0x200:
            out.append('big-endian')
        if M.branched:
            out.append('load-to-pc')
        if M.unknown:
            out.append('unknown-result')
    return out


UNPRIV = ('LDRT_', 'STRT_', 'LDRBT_', 'STRBT_', 'LDRHT_', 'STRHT_', 'LDRSBT_', 'LDRSHT_')


def case_kw(rng, row):
    kw = {'mpu': False, 'mmu': False, 'e': rng.choice((0, 0, 0, 1))}
    if row.name.startswith(UNPRIV) and rng.random() < 0.5:
        # the unprivileged forms differ from the plain ones only in the privilege the access is made with: MPU on, the data window
        # privileged-only or user-read-only (see unpriv_window), executed from privileged modes
        kw['mpu'] = True
        kw['mode'] = rng.choice(('svc', 'sys', 'irq', 'abt', 'usr'))
    return kw


def unpriv_window(rng, row, w, case):
    seed_monitor(rng, row, w, case)
    st = case['state']
    if row.name.startswith(UNPRIV) and st['sctlr'] & 1 and 'drsrs[0]' in st:
        n = 12
        st['mpuir'] = n << 8
        st['drsrs[%d]' % (n - 2)] = (31 << 1) | 1           # everything read/write ...
        st['drbars[%d]' % (n - 2)] = 0
        st['dracrs[%d]' % (n - 2)] = 3 << 8
        st['drsrs[%d]' % (n - 1)] = (8 << 1) | 1            # ... except the 512-byte data window: AP 001 (privileged only) / 010 (user read-only)
        st['drbars[%d]' % (n - 1)] = gen.DATA[0] & ~0x1FF
        st['dracrs[%d]' % (n - 1)] = rng.choice((1, 2, 1, 5, 6)) << 8


PLAN = e1prop.Plan('C02', ROWS, cfgs=('v6', 'v7', 'v6-nosec', 'v5', 'v7-lpae', 'v7-virt'), classify=classify, case_kw=case_kw, tweak_case=unpriv_window,
                   hooked=(False, False, True))


# doubleword forms on their own: few rows, and the interesting address classes (0 / 4 mod 8 on LPAE = one 64-bit access or two words; 1..3 mod 4)
# are thin under the general generator
DUAL_ROWS = [r for r in ROWS if r.startswith(('LDRD', 'STRD', 'LDREXD', 'STREXD'))]


def aim_dual(rng, row, w, case):
    f = row.extract(w)
    st = case['state']
    mode = gen.MODE_NAME[st['cpsr'] & 31]
    if isinstance(f.get('n'), int) and f['n'] <= 14:
        st[gen.bank_key(f['n'], mode)] = (gen.DATA[0] + 0x40 + 8 * rng.randrange(0, 12) + rng.choice((0, 0, 4, 4, 4, 1, 2, 6))) & M32
    if isinstance(f.get('m'), int) and f['m'] <= 14 and f['m'] != f.get('n'):
        st[gen.bank_key(f['m'], mode)] = rng.choice((0, 4, 8, 12, 0xFFFFFFFC, 0xFFFFFFF8, 2, 0x10))
    if row.name.startswith('STREXD'):
        seed_monitor(rng, row, w, case)


def make_dual_plan(prop):
    return e1prop.Plan(prop, DUAL_ROWS, cfgs=('v7-lpae', 'v7-lpae', 'v7', 'v6'), classify=classify,
                       case_kw=lambda rng, row: {'mpu': False, 'mmu': False, 'e': rng.getrandbits(1)}, tweak_case=aim_dual, hooked=(False, True))


PLAN_DUAL = make_dual_plan('C02')


def _translated_plans():
    # the same rows with translation on: an unaligned access is translated byte by byte, so its bytes may lie in pages that are not physically contiguous
    # (C15's table builder) or in MPU regions with different permissions (C14's region builder): address used and bytes transferred, judged here
    from vf.props import c14, c15
    rset = set(ROWS)
    vm = e1prop.Plan('C02', [r for r in c15.ROWS if r in rset], cfgs=c15.PLAN.cfgs, classify=classify, tweak_case=c15.tweak, hooked=(True, True, False), case_kw=c15.PLAN.case_kw)
    pm = e1prop.Plan('C02', [r for r in c14.ROWS if r in rset], cfgs=('v7', 'v6', 'v7'), classify=classify, tweak_case=c14.tweak, case_kw=c14.PLAN.case_kw)
    return vm, pm


def __getattr__(name):
    # built on first use (vf.props.c14 imports modules that import this one)
    if name in ('PLAN_VMSA', 'PLAN_PMSA'):
        globals()['PLAN_VMSA'], globals()['PLAN_PMSA'] = _translated_plans()
        return globals()[name]
    raise AttributeError(name)


def run(ctx):
    ctx.rule = ('Hypothesis draws (LDR/STR-family encoding row incl. byte/halfword/dual/literal/register/unprivileged/exclusive forms, field '
                'bits with all P/U/W, register tweak, entropy, config arch 5/6/7); the base register is aimed into / at the edges of / across '
                'the ends of mapped memory and near 0 and 2^32 with alignment 0..3, CPSR.E and SCTLR.A/U vary; emulate_cycle() is compared '
                'with the reference machine (own byte-map memory, alignment policy, UNKNOWN masks, abort prediction) on the complete '
                'snapshot incl. every memory byte. Stock and hooked (exclusive monitor implemented) targets. Non-trivial: condition passed '
                'and state other than PC changed; distinct = (word, CPSR, registers).')
    ctx.technique = 'property-based differential testing against an independent reference interpreter (Hypothesis-driven generation)'
    ctx.assumptions = ['vf/ref (tables + sem_ls.py + machine.py) is a faithful reading of DDI 0406C', 'MPU/MMU off here (C14/C15) except for the unprivileged forms, half of which run against a privileged-only / user-read-only data window',
                       'store-exclusive with the stock monitor stubs is pinned to the documented "no reservation" outcome']
    e1prop.run_plan(ctx, 'vf.props.c02:PLAN', PLAN, shards=32, quick=600, thorough=10000)
    e1prop.run_plan(ctx, 'vf.props.c02:PLAN_DUAL', PLAN_DUAL, shards=8, quick=150, thorough=3000)
    import sys
    me = sys.modules[__name__]
    e1prop.run_plan(ctx, 'vf.props.c02:PLAN_VMSA', me.PLAN_VMSA, shards=8, quick=250, thorough=4000, witnesses=False, repeat=False, history=False)
    e1prop.run_plan(ctx, 'vf.props.c02:PLAN_PMSA', me.PLAN_PMSA, shards=8, quick=250, thorough=4000, witnesses=False, repeat=False, history=False)


def replay(case, bucket=None):
    return e1prop.replay(PLAN, case)        # (PLAN_DUAL cases replay identically: one_case only uses the plan for its property id)
