"""C12 — system instructions: PSR masks, exception return, hints, coprocessor gating (E1 vs vf/ref/sem_sys.py) +
exception entry / standard return round trips."""
from vf import gen
from vf.props import e1prop
from vf.ref import step  # noqa: F401
from vf.ref.core import REG

ROWS = sorted(n for n, (d, x) in REG.items() if x.__module__ == 'vf.ref.sem_sys' and n in e1prop.ROWS) + \
    ['RFE_A1', 'RFE_T1', 'RFE_T2', 'LDM_eret_A1']
M32 = 0xFFFFFFFF


def tweak(rng, row, w, case):
    f = row.extract(w)
    st = case['state']
    mode = gen.MODE_NAME[st['cpsr'] & 31]
    nm = row.name
    cfg = case['cfg']
    if nm.startswith('MSR') and 'n' in f and f['n'] <= 14:
        # values that attempt forbidden changes: flip A/I/F/M, T/J/IT, reserved / illegal modes
        v = rng.getrandbits(32)
        r = rng.random()
        if r < 0.5:
            v = (v & ~31) | rng.choice(list(gen.MODES.values()))
        elif r < 0.7:
            v = (v & ~31) | rng.choice((0, 1, 0b10100, 0b10101, 0b11000, 0b11110, 0b11100))
        st[gen.bank_key(f['n'], mode)] = v
    if nm.startswith(('SUBS_PC_LR', 'ERET', 'RFE', 'LDM_eret')):
        # a plausible SPSR of the current mode: valid target mode, J=0
        k = 'spsr_' + mode
        if k in st:
            thumb = rng.getrandbits(1)
            st[k] = gen.gen_cpsr(rng, cfg if cfg else {}, thumb, mode=rng.choice(gen.valid_modes(gen.CONFIGS_FULL(cfg))))
        if nm.startswith(('RFE', 'LDM_eret')) and 'n' in f and f['n'] <= 14:
            base = gen.DATA[0] + 0x40 + 4 * rng.randrange(0, 0x18)
            st[gen.bank_key(f['n'], mode)] = base
            # memory image: return address and a plausible CPSR image around the base
            words = []
            for i in range(-10, 12):
                if rng.random() < 0.5:
                    words.append(gen.gen_cpsr(rng, cfg if cfg else {}, rng.getrandbits(1), mode=rng.choice(gen.valid_modes(gen.CONFIGS_FULL(cfg)))))
                else:
                    words.append((0x8000 + 4 * rng.randrange(0, 0x30)) | rng.choice((0, 0, 1, 2)))
            blob = b''.join(x.to_bytes(4, 'little') for x in words)
            case['poke'].append([base - 40, blob.hex()])
        for r14 in ('R.LRsvc', 'R.LRirq', 'R.LRfiq', 'R.LRabt', 'R.LRund', 'R.LRmon', 'elr_hyp'):
            if rng.random() < 0.7:
                st[r14] = (0x8000 + 4 * rng.randrange(0, 0x30)) | rng.choice((0, 0, 0, 1, 2, 3))
    if nm.startswith(('WFE', 'SEV')):
        st['event_register'] = bool(rng.getrandbits(1))


def case_kw(rng, row):
    kw = {'mpu': False, 'mmu': False, 'e': rng.choice((0, 0, 1))}
    nm = row.name
    if nm.startswith(('SUBS_PC_LR', 'ERET', 'RFE', 'LDM_eret')) and rng.random() < 0.85:
        kw['mode'] = rng.choice(('svc', 'irq', 'fiq', 'abt', 'und', 'svc'))
    return kw


def classify(res, case):
    out = []
    if res.status == 'ok' and res.cond_passed:
        x = res.pre['cpsr'] ^ res.M.s['cpsr']
        if x & 31:
            out.append('mode-changed')
        if x & 0x1C0:
            out.append('aif-changed')
        if x & 0x0100FC20 | x & 0x06000000:
            out.append('execution-state-changed')
    if res.status in ('undef', 'svc', 'smc', 'hyptrap', 'notimpl'):
        out.append('outcome:' + res.status)
    return out


PLAN = e1prop.Plan('C12', ROWS, cfgs=('v6', 'v7', 'v6-nosec', 'v7-virt', 'v7-vmsa'), classify=classify, tweak_case=tweak, case_kw=case_kw,
                   hooked=(False, True))


def run(ctx):
    ctx.rule = ('Hypothesis draws (MSR reg/imm application+system with all 16 byte masks, MRS, CPS, SETEND, SUBS PC,LR (A1/A2/T1), ERET, RFE, LDM^ '
                'with PC, SVC, SMC, BKPT, UDF, NOP/YIELD/WFE/WFI/SEV, CLREX/DSB/ISB, PLD, MCR/MRC/MCRR/MRRC/CDP/LDC/STC for every coprocessor; field bits; '
                'entropy; config with/without security and virtualization); written values attempt forbidden changes (A/I/F/M from User mode, T/J/IT, '
                'reserved and illegal modes, Monitor/FIQ/Hyp from Non-secure), SPSRs / stacked images are plausible PSRs, CPACR/NSACR/HCPTR random; '
                'stock and hooked targets; emulate_cycle() is compared with the reference machine on the complete snapshot (incl. event register, '
                'wait flags and the words sent to the coprocessor). Non-trivial: condition passed and state other than PC changed.')
    ctx.technique = 'property-based differential testing against an independent reference interpreter (Hypothesis-driven generation)'
    ctx.assumptions = ['vf/ref (tables + sem_sys.py + machine.py PSR-write rules) is a faithful reading of DDI 0406C',
                       'cp14/cp15 register decode is a documented mock hook and is not modelled', 'HSR.IL is not compared']
    e1prop.run_plan(ctx, 'vf.props.c12:PLAN', PLAN, shards=32, quick=600, thorough=10000)


def replay(case, bucket=None):
    return e1prop.replay(PLAN, case)
