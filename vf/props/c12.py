"""C12 — system instructions: PSR masks, exception return, hints, coprocessor gating (E1 vs vf/ref/sem_sys.py) +
exception entry / standard return round trips."""
from vf import gen
from vf.props import e1prop
from vf.ref import step  # noqa: F401
from vf.ref.core import REG

ROWS = sorted(n for n, (d, x) in REG.items() if x.__module__ == 'vf.ref.sem_sys' and n in e1prop.ROWS) + \
    ['RFE_A1', 'RFE_T1', 'RFE_T2', 'LDM_eret_A1']
M32 = 0xFFFFFFFF


def tweak(rng, row, w, case):
    f = row.extract(w)
    st = case['state']
    mode = gen.MODE_NAME[st['cpsr'] & 31]
    nm = row.name
    cfg = case['cfg']
    if nm.startswith('MSR') and 'n' in f and f['n'] <= 14:
        # values that attempt forbidden changes: flip A/I/F/M, T/J/IT, reserved / illegal modes
        v = rng.getrandbits(32)
        r = rng.random()
        if r < 0.5:
            v = (v & ~31) | rng.choice(list(gen.MODES.values()))
        elif r < 0.7:
            v = (v & ~31) | rng.choice((0, 1, 0b10100, 0b10101, 0b11000, 0b11110, 0b11100))
        st[gen.bank_key(f['n'], mode)] = v
    if nm.startswith(('SUBS_PC_LR', 'ERET', 'RFE', 'LDM_eret')):
        # a plausible SPSR of the current mode: valid target mode, J=0
        k = 'spsr_' + mode
        if k in st:
            thumb = rng.getrandbits(1)
            st[k] = gen.gen_cpsr(rng, cfg if cfg else {}, thumb, mode=rng.choice(gen.valid_modes(gen.CONFIGS_FULL(cfg))))
        if nm.startswith(('RFE', 'LDM_eret')) and 'n' in f and f['n'] <= 14:
            base = gen.DATA[0] + 0x40 + 4 * rng.randrange(0, 0x18)
            st[gen.bank_key(f['n'], mode)] = base
            # memory image: return address and a plausible CPSR image around the base
            words = []
            for i in range(-10, 12):
                if rng.random() < 0.5:
                    words.append(gen.gen_cpsr(rng, cfg if cfg else {}, rng.getrandbits(1), mode=rng.choice(gen.valid_modes(gen.CONFIGS_FULL(cfg)))))
                else:
                    words.append((0x8000 + 4 * rng.randrange(0, 0x30)) | rng.choice((0, 0, 1, 2)))
            blob = b''.join(x.to_bytes(4, 'little') for x in words)
            case['poke'].append([base - 40, blob.hex()])
        if nm.startswith(('RFE', 'LDM_eret')) and 'drsrs[0]' in st and 'n' in f and f['n'] <= 14 and rng.random() < 0.3:
            # a one-word no-access MPU region somewhere in (or next to) the frame: the Data Abort can fall on any word of the transfer, also the last
            # one (the return address) - the base register must then be unchanged so that the handler can retry
            for r in range(12):
                st['drsrs[%d]' % r] = 0
            st['drsrs[0]'], st['drbars[0]'], st['dracrs[0]'] = (31 << 1) | 1, 0, 3 << 8
            base_ = st[gen.bank_key(f['n'], mode)]
            nwords = (bin(f.get('r', 0)).count('1') + 1) if nm.startswith('LDM') else 2
            inc, before = f.get('U', 1), f.get('P', 0)
            lo = (base_ + (4 if before else 0)) if inc else (base_ - 4 * nwords + (0 if before else 4))
            hit = (lo + 4 * (nwords - 1)) if rng.random() < 0.5 else (lo + 4 * rng.randrange(-1, nwords + 1))      # the last (highest) word is the return address / CPSR image
            st['drsrs[11]'], st['drbars[11]'], st['dracrs[11]'] = (1 << 1) | 1, hit & 0xFFFFFFFC, 0
            st['mpuir'] = 12 << 8
            st['sctlr'] = (st['sctlr'] | 1) & ~(1 << 13)
            st['vbar'] = 0
        dev_ = [m_ for m_ in case['mems'] if m_[0] == gen.DATA[0]]
        if nm.startswith('RFE') and dev_ and 'n' in f and f['n'] <= 14 and rng.random() < 0.15:
            # the two words of the frame lie in two devices (the data device ends between them): they are two word accesses
            e_ = dev_[0][0] + dev_[0][1]
            inc, before = f.get('U', 1), f.get('P', 0)
            addr = (e_ - 4) & ~3
            st[gen.bank_key(f['n'], mode)] = (addr - (4 if before else 0)) if inc else (addr + 8 - (0 if before else 4))
            case['poke'].append([addr, ((0x8000 + 4 * rng.randrange(0, 0x30)).to_bytes(4, 'little') + gen.gen_cpsr(rng, cfg if cfg else {}, 0, mode=rng.choice(('usr', 'svc', 'irq'))).to_bytes(4, 'little')).hex()])
        for r14 in ('R.LRsvc', 'R.LRirq', 'R.LRfiq', 'R.LRabt', 'R.LRund', 'R.LRmon', 'elr_hyp'):
            if rng.random() < 0.7:
                st[r14] = (0x8000 + 4 * rng.randrange(0, 0x30)) | rng.choice((0, 0, 0, 1, 2, 3))
    if nm.startswith(('WFE', 'SEV')):
        st['event_register'] = bool(rng.getrandbits(1))


def case_kw(rng, row):
    kw = {'mpu': False, 'mmu': False, 'e': rng.choice((0, 0, 1))}
    nm = row.name
    if nm.startswith(('SUBS_PC_LR', 'ERET', 'RFE', 'LDM_eret')) and rng.random() < 0.85:
        kw['mode'] = rng.choice(('svc', 'irq', 'fiq', 'abt', 'und', 'svc', 'mon'))
    return kw


def classify(res, case):
    out = []
    if res.status == 'ok' and res.cond_passed:
        x = res.pre['cpsr'] ^ res.M.s['cpsr']
        if x & 31:
            out.append('mode-changed')
        if x & 0x1C0:
            out.append('aif-changed')
        if x & 0x0100FC20 | x & 0x06000000:
            out.append('execution-state-changed')
    if res.status in ('undef', 'svc', 'smc', 'hyptrap', 'notimpl'):
        out.append('outcome:' + res.status)
    return out


PLAN = e1prop.Plan('C12', ROWS, cfgs=('v6', 'v7', 'v6-nosec', 'v7-virt', 'v7-vmsa', 'v7-virt-hsr', 'v7-virt-hsr2'), classify=classify, tweak_case=tweak, case_kw=case_kw,
                   hooked=(False, True))


RT_HMODE = {'irq': 'irq', 'fiq': 'fiq', 'svc': 'svc', 'undef': 'und', 'dabort': 'abt'}
RT_VEC = {'irq': 0x18, 'fiq': 0x1C, 'svc': 0x08, 'undef': 0x04, 'dabort': 0x10}


def rt_eval(case, kind):
    """interrupt, run the return instruction at the vector, compare with the interrupted state; returns (pre, None | (bucket suffix, detail))"""
    from vf import e1, target
    hmode, vec = RT_HMODE[kind], RT_VEC[kind]
    cpu = e1.build(case)
    pre = target.snapshot(cpu)
    thumb = bool(pre['cpsr'] & 0x20)
    it = ((pre['cpsr'] >> 25) & 3) | (((pre['cpsr'] >> 10) & 0x3F) << 2)
    if kind == 'irq':
        cpu.registers.take_physical_irq_exception()
        exc = None
    elif kind == 'fiq':
        cpu.registers.take_physical_fiq_exception()
        exc = None
    else:
        exc = target.step_budget(cpu)
    mid = target.snapshot(cpu, False)
    exc2 = target.step_budget(cpu)          # the return instruction
    post = target.snapshot(cpu)
    entered = (mid['cpsr'] & 31) == gen.MODES[hmode] and mid['R.PC'] == vec
    want = dict(pre)
    ilen = 2 if thumb else 4
    if kind in ('svc', 'undef'):             # irq/fiq resume where they were; LR-8 re-executes the aborting instruction
        want['R.PC'] = (pre['R.PC'] + ilen) & 0xFFFFFFFF
        if kind == 'svc' and it:
            # SVC advances the IT state before it is saved
            from vf.ref.machine import Machine
            from vf import diff
            M = Machine(pre, [], diff.full_cfg(case['cfg']))
            M.it_advance()
            want['cpsr'] = M.s['cpsr']
    ignore = {'R.LR' + hmode, 'spsr_' + hmode, 'dfsr', 'dfar'}
    d = {k: (want[k], post[k]) for k in post if k not in ignore and want.get(k) != post[k]}
    if exc is not None or exc2 is not None:
        return pre, ('host-error', {'exc': repr(exc or exc2)})
    if not entered:
        return pre, ('not-entered', {'mode_after_entry': mid['cpsr'] & 31, 'pc': mid['R.PC']})
    if d:
        return pre, (e1prop.sig(d), {'not_restored(expected,observed)': e1.fmt_diff(d)})
    return pre, None


# ------------------------------------------------------------------------------------------------ PSR write rules, called directly
PSR_CFGS = ['v6', 'v6-nosec', 'v7-virt', 'v7']


def psr_cell(acc, rng, cfgname, mode, mask, ret, spsr, fixed=None):
    """Registers.cpsr_write_by_instr / spsr_write_by_instr called directly: every current mode x byte mask x exception-return flag x secure/non-secure
    x NMFI x SCR.AW/FW x NSACR.RFR x extension configuration, written values aimed at forbidden changes"""
    from vf import target, diff, e1
    from vf.ref.machine import Machine, Unpred, cpsr_write_by_instr, spsr_write_by_instr
    cfg = diff.full_cfg(gen.CONFIGS[cfgname])
    cpu = target.new_cpu(gen.CONFIGS[cfgname], False, [(0, 0x40)])
    st_ = gen.gen_core(rng)
    thumb = rng.getrandbits(1)
    st_['cpsr'] = gen.gen_cpsr(rng, cfg, bool(thumb), mode=mode, e=rng.getrandbits(1))
    for k in gen.SPSR_KEYS:
        st_[k] = gen.gen_spsr(rng, cfg)
    st_['sctlr'] = rng.getrandbits(32) & ~1
    if cfg['have_security_ext']:
        st_['scr'] = rng.getrandbits(10) | (1 if mode == 'hyp' else 0)
        st_['nsacr'] = rng.getrandbits(20)
    value = rng.getrandbits(32)
    r = rng.random()
    if r < 0.5:
        value = (value & ~31) | rng.choice(list(gen.MODES.values()))
    elif r < 0.7:
        value = (value & ~31) | rng.choice((0, 1, 0b10100, 0b10101, 0b11000, 0b11110, 0b11100, 0b11001))
    if fixed is not None:
        st_, value = fixed
    target.apply_state(cpu, st_)
    pre = target.snapshot(cpu, False)
    M = Machine(pre, [], cfg)
    try:
        if spsr:
            spsr_write_by_instr(M, value, mask)
        else:
            cpsr_write_by_instr(M, value, mask, ret)
        ref = 'ok'
    except Unpred:
        ref = 'unpred'
    try:
        if spsr:
            cpu.registers.spsr_write_by_instr(value, mask)
        else:
            cpu.registers.cpsr_write_by_instr(value, mask, ret)
        exc = None
    except Exception as e:
        exc = e
    post = target.snapshot(cpu, False)
    key = (cfgname, mode, mask, ret, spsr, value, pre['cpsr'], pre.get('scr', 0) & 0x31, (pre['sctlr'] >> 27) & 1)
    forbidden = ((value ^ pre['cpsr']) & 0x1DF) != 0 or ret
    acc.case(bool(forbidden) and ref == 'ok', key, cls='psr-unit:%s' % ('spsr' if spsr else ('cpsr-ret' if ret else 'cpsr')),
             sample=lambda: {'config': cfgname, 'mode': mode, 'bytemask': mask, 'exception_return': ret, 'value': '%#x' % value, 'cpsr': '%#x' % pre['cpsr'],
                             'scr': '%#x' % pre.get('scr', 0), 'nmfi': (pre['sctlr'] >> 27) & 1, 'result': '%#x' % post['cpsr']})
    case = {'psr_unit': [cfgname, mode, mask, ret, spsr, value], 'state': pre}
    if exc is not None:
        if not (ref == 'unpred' and target.escape_ok(exc)):
            acc.violation('C12:psr-unit:host-error:' + type(exc).__name__, case, {'exc': repr(exc), 'reference': ref})
        return
    if ref == 'unpred':
        acc.excluded += 1
        if e1.in_range(post):
            acc.violation('C12:psr-unit:out-of-range', case, {'keys': e1.in_range(post)})
        return
    d = diff.compare(M, post, pre)
    if d:
        acc.violation('C12:psr-unit:%s:%s' % ('spsr' if spsr else ('cpsr-ret' if ret else 'cpsr'), e1prop.sig(d)), case,
                      {'diffs(expected,observed)': e1.fmt_diff(d), 'mode': mode, 'bytemask': mask})


def shard_psr_unit(part, nparts, seed, reps):
    import random
    from vf import diff
    from vf.runner import Acc
    acc = Acc()
    rng = random.Random(seed)
    i = 0
    for cfgname in PSR_CFGS:
        for mode in gen.valid_modes(diff.full_cfg(gen.CONFIGS[cfgname])):
            for mask in range(16):
                for ret, spsr in ((False, False), (True, False), (False, True)):
                    i += 1
                    if i % nparts != part:
                        continue
                    for _ in range(reps):
                        psr_cell(acc, rng, cfgname, mode, mask, ret, spsr)
    return acc


def shard_roundtrip(seed, count):
    """reference-free: interrupt a generated program state with each exception kind, run the canonical return from a handler placed at
    the vector; the interrupted program's CPSR, registers and PC must be intact (only the handler mode's LR/SPSR may differ)"""
    import random
    from vf import e1, target
    from vf.runner import Acc
    acc = Acc()
    rng = random.Random(seed)
    for _ in range(count):
        cfgname = rng.choice(('v6', 'v7', 'v6-nosec'))
        thumb = rng.random() < 0.5
        kind = rng.choice(('irq', 'fiq', 'svc', 'undef', 'dabort'))
        te = rng.getrandbits(1)
        it = rng.choice(gen.IT_STATES) if (thumb and rng.random() < 0.5) else 0
        if kind in ('svc', 'undef', 'dabort') and it:
            # the triggering instruction must execute: use an IT state whose condition is AL-like by fixing the flags below
            pass
        if thumb:
            trig = {'svc': e1.enc_thumb(0xDF05), 'undef': e1.enc_thumb(0xDE01), 'dabort': e1.enc_thumb(0x6838)}.get(kind, b'\x00\xbf')   # LDR r0,[r7]
            code = trig + b'\x00\xbf' * 6
        else:
            trig = {'svc': e1.enc_arm(0xEF000005), 'undef': e1.enc_arm(0xE7F000F0), 'dabort': e1.enc_arm(0xE5970000)}.get(kind, e1.enc_arm(0xE1A00000))
            code = trig + e1.enc_arm(0xE1A00000) * 4
        mode = rng.choice(('usr', 'sys', 'svc', 'irq', 'abt', 'und', 'fiq'))
        hmode = {'irq': 'irq', 'fiq': 'fiq', 'svc': 'svc', 'undef': 'und', 'dabort': 'abt'}[kind]
        if mode == hmode:
            mode = 'usr'
        case = gen.step_case(rng, cfgname, thumb, code, mode=mode, it=it, e=rng.choice((0, 0, 1)), mpu=False, code_base=0x8000)
        st_ = case['state']
        st_['sctlr'] = (st_['sctlr'] & ~((1 << 30) | (1 << 13) | (1 << 24) | (1 << 27))) | (te << 30) | 2        # A=1: unaligned r7 aborts
        st_['vbar'] = 0
        if 'scr' in st_:
            st_['scr'] = 0
        st_[gen.bank_key(7, mode)] = 0x60000001
        if it and kind in ('svc', 'undef', 'dabort'):
            # make the current IT condition pass
            from vf.props.c05 import passing_flags
            st_['cpsr'] = (st_['cpsr'] & 0x0FFFFFFF) | (passing_flags(rng, it >> 4) << 28)
        # handler: the canonical return of that exception
        sub = {'irq': 4, 'fiq': 4, 'svc': 0, 'undef': 0, 'dabort': 8}[kind]
        ret = e1.enc_thumb(0xF3DE8F00 | sub, True) if te else e1.enc_arm(0xE25EF000 | sub)
        vec = {'irq': 0x18, 'fiq': 0x1C, 'svc': 0x08, 'undef': 0x04, 'dabort': 0x10}[kind]
        case['poke'].append([vec, ret.hex()])
        pre, bad = rt_eval(case, kind)
        acc.case(bool(thumb or it or (pre['cpsr'] >> 28)), ('rt', kind, cfgname, mode, thumb, it, te, pre['cpsr']), cls='roundtrip:' + kind,
                 sample={'kind': kind, 'config': cfgname, 'interrupted_mode': mode, 'thumb': thumb, 'itstate': it, 'thumb_handler': te})
        if bad:
            acc.violation('C12:roundtrip:%s:%s' % (kind, bad[0]), dict(case, roundtrip=kind), bad[1])
    return acc


def run(ctx):
    ctx.rule = ('Hypothesis draws (MSR reg/imm application+system with all 16 byte masks, MRS, CPS, SETEND, SUBS PC,LR (A1/A2/T1), ERET, RFE, LDM^ '
                'with PC, SVC, SMC, BKPT, UDF, NOP/YIELD/WFE/WFI/SEV, CLREX/DSB/ISB, PLD, MCR/MRC/MCRR/MRRC/CDP/LDC/STC for every coprocessor; field bits; '
                'entropy; config with/without security and virtualization); written values attempt forbidden changes (A/I/F/M from User mode, T/J/IT, '
                'reserved and illegal modes, Monitor/FIQ/Hyp from Non-secure), SPSRs / stacked images are plausible PSRs, CPACR/NSACR/HCPTR random; '
                'stock and hooked targets; emulate_cycle() is compared with the reference machine on the complete snapshot (incl. event register, '
                'wait flags and the words sent to the coprocessor). Non-trivial: condition passed and state other than PC changed. Plus a reference-free round trip: '
                'a generated interrupted state (ARM/Thumb, any mode, mid-IT block, any flags, E) is interrupted by IRQ/FIQ (between steps) or SVC/UDF/an '
                'aborting load, the handler at the vector executes the canonical return (SUBS PC,LR,#n from ARM or Thumb handler state) and the interrupted '
                'CPSR, every register and the resume PC must be intact. Plus direct calls of Registers.cpsr_write_by_instr / spsr_write_by_instr for every configuration x current mode x '
                '16 byte masks x exception-return flag with random SCTLR.NMFI, SCR.{NS,AW,FW}, NSACR.RFR and values aimed at forbidden changes, against the reference write rules (B1.3.3).')
    ctx.technique = 'property-based differential testing against an independent reference interpreter (Hypothesis-driven generation)'
    ctx.assumptions = ['vf/ref (tables + sem_sys.py + machine.py PSR-write rules) is a faithful reading of DDI 0406C',
                       'cp14/cp15 register decode is a documented mock hook and is not modelled', 'HSR.IL is not compared']
    e1prop.run_plan(ctx, 'vf.props.c12:PLAN', PLAN, shards=32, quick=600, thorough=10000)
    ctx.pmap(shard_roundtrip, [(ctx.shard_seed(500 + i), ctx.n(700, 15000)) for i in range(8)])
    ctx.pmap(shard_psr_unit, [(i, 8, ctx.shard_seed(600 + i), ctx.n(6, 120)) for i in range(8)])


def replay(case, bucket=None):
    if 'roundtrip' in case:
        _, bad = rt_eval(case, case['roundtrip'])
        return [bad[0]] if bad else []
    if 'psr_unit' in case:
        import random
        from vf.runner import Acc
        cfgname, mode, mask, ret, spsr, value = case['psr_unit']
        acc = Acc()
        psr_cell(acc, random.Random(0), cfgname, mode, mask, ret, spsr, fixed=(case['state'], value))
        return sorted(acc.viol)
    return e1prop.replay(PLAN, case)
