"""C19 — privilege confinement: whatever word executes in User mode, afterwards the processor is still in User mode with
all privileged state untouched, or it has taken an architectural exception to that exception's vector with SPSR.M = User.
Unprivileged load/store variants executed in a privileged mode are checked with User permissions."""
import random

from vf import gen, e1, target
from vf.runner import Acc
from vf.props import e1prop
from vf.props.c18 import harvest_words, IT_POS

M32 = 0xFFFFFFFF
USR = 0b10000
# user-visible state (DESIGN.md appendix A.8); everything else in the snapshot is privileged
USER_KEYS = {'R.R%dusr' % i for i in range(13)} | {'R.SPusr', 'R.LRusr', 'R.PC', 'event_register', 'wfe', 'wfi', 'cplog', 'barriers', 'preloads', 'svcalls', 'excl', 'tpidrurw'}          # (TPIDRURW: the User read/write thread ID register)
CPSR_USER_BITS = 0xF80F0000 | 0x0600FC00 | (1 << 9) | (1 << 5) | (1 << 24)   # NZCVQ, GE, IT, E, T, (J cannot be set by valid code paths here)
FAULT_REGS = ('dfsr', 'dfar', 'hsr', 'hdfar', 'hpfar')
# exceptions an instruction executed in User mode can architecturally cause: Undefined Instruction, Supervisor Call, Data Abort, and (Non-secure,
# Virtualization Extensions) their Hyp-routed forms / Hyp Trap. NOT Secure Monitor Call: SMC is UNDEFINED in User mode (B9.3.14), and the
# only other ways into Monitor mode (external aborts with SCR.EA, IRQ/FIQ) are not caused by the instruction - so Monitor mode after a
# User-mode step is a privilege escalation whatever the vector and SPSR look like.
VEC_OFF = {0b11011: (0x04,), 0b10011: (0x08,), 0b10111: (0x10,), 0b11010: (0x04, 0x08, 0x10, 0x14)}


def vector_bases(pre, cfg):
    sctlr = pre['sctlr']
    if (sctlr >> 13) & 1:
        b = 0xFFFF0000
    elif cfg.get('have_security_ext', True):
        b = pre['vbar']
    else:
        b = 0
    return b, pre.get('mvbar', 0), pre.get('hvbar', 0)


def judge(pre, post, exc, cfg):
    """returns (verdict, detail): 'stayed' | 'exception' | 'notimpl' | violation text"""
    if exc is not None:
        if target.escape_ok(exc):
            # documented not-implemented outcome: neutral, but privileged state must still be untouched
            return check_unchanged(pre, post, allow_fault=True) or 'notimpl', None
        return 'host-error', repr(exc)
    m = post['cpsr'] & 31
    if m == USR:
        bad = check_unchanged(pre, post, allow_fault=False)
        return (bad or 'stayed'), None
    # an exception must have been taken: privileged mode, PC at that mode's vector, SPSR.M == User
    offs = VEC_OFF.get(m)
    if m == 0b10110:
        return 'Monitor mode entered from a User-mode instruction (SMC is UNDEFINED in User mode)', None
    if offs is None:
        return 'entered mode %#x without an exception' % m, None
    base, mv, hv = vector_bases(pre, cfg)
    vb = {0b11010: hv}.get(m, base)
    if post['R.PC'] not in [(vb + o) & M32 for o in offs]:
        return 'mode %s entered but PC=%#x is not its vector' % (gen.MODE_NAME[m], post['R.PC']), None
    spsr = post['spsr_' + gen.MODE_NAME[m]]
    if (spsr & 31) != USR:
        return 'exception taken but SPSR.M=%#x does not record User' % (spsr & 31), None
    # only what that entry is specified to write may change
    allowed = {'cpsr', 'spsr_' + gen.MODE_NAME[m], 'R.LR' + gen.MODE_NAME[m] if m != 0b11010 else 'elr_hyp', 'R.PC'} | set(FAULT_REGS)
    bad = {k: (pre[k], post[k]) for k in post if post[k] != pre.get(k) and k not in allowed and k not in USER_KEYS and not k.startswith('mem')}
    if bad:
        return 'exception entry changed other privileged state: %r' % bad, None
    return 'exception', None


def check_unchanged(pre, post, allow_fault):
    bad = {}
    for k, v in post.items():
        if k in USER_KEYS or k.startswith('mem') or v == pre.get(k):
            continue
        if k == 'cpsr':
            if (v ^ pre[k]) & ~CPSR_USER_BITS & M32:
                bad[k] = (pre[k], v)
            continue
        if allow_fault and k in FAULT_REGS:
            continue
        bad[k] = (pre[k], v)
    if bad:
        return 'privileged state changed in User mode: %r' % {k: bad[k] for k in sorted(bad)[:6]}
    return None


def run_word(acc, rng, cfgname, thumb, code, label, key, it=None, hooked=False, steps=1):
    case = gen.step_case(rng, cfgname, thumb, code, mode='usr', it=it, hooked=hooked, steps=steps)
    cpu = e1.build(case)
    cfg = case['cfg']
    pre = target.snapshot(cpu, False)
    nontriv = None
    verdict = None
    for _ in range(steps):
        exc = target.step_budget(cpu)
        post = target.snapshot(cpu, False)
        verdict, detail = judge(pre, post, exc, cfg)
        if verdict in ('exception', 'notimpl') or verdict not in ('stayed',):
            break
        pre = post
    ok = verdict in ('stayed', 'exception', 'notimpl')
    # non-trivial: the same word executed from Supervisor mode in the same state does change privileged state
    if ok and verdict == 'stayed':
        c2 = dict(case)
        c2['state'] = dict(case['state'])
        c2['state']['cpsr'] = (case['state']['cpsr'] & ~31) | 0b10011
        cpu2 = e1.build(c2)
        p2 = target.snapshot(cpu2, False)
        e2 = target.step_budget(cpu2)
        q2 = target.snapshot(cpu2, False)
        nontriv = e2 is None and check_unchanged(p2, q2, False) is not None
    else:
        nontriv = verdict == 'exception'
    acc.case(bool(nontriv), key, cls=label + ':' + (verdict if ok else 'VIOLATION'),
             sample=lambda: {'cfg': cfgname, 'code': code.hex()[:16], 'cpsr': '%#x' % case['state']['cpsr'], 'verdict': verdict})
    if not ok:
        b = verdict.split(':')[0][:60] if verdict != 'host-error' else 'host-error:' + detail[:40]
        acc.violation('C19:' + b, case, {'verdict': verdict, 'detail': detail})


CFGS = ['v6', 'v7', 'v6-nosec', 'v7-virt', 'v7-vmsa']


def shard_cp15(part, nparts, seed):
    """every CP15 register name (CRn, opc1, CRm, opc2) written (MCR) and read (MRC) from User mode, ARM and Thumb encodings, stock and hooked flavour:
    the system control registers are privileged state - whatever a coprocessor interface does with the access (undefined, not implemented, a PL0
    register such as TPIDRURW), nothing else may change"""
    acc = Acc()
    rng = random.Random(seed)
    idx = 0
    for crn in range(16):
        for opc1 in range(8):
            for crm in range(16):
                for opc2 in range(8):
                    idx += 1
                    if idx % nparts != part:
                        continue
                    for hooked in (False, True):          # the write on both flavours (the stock coprocessor interface and an embedder's), the read on one
                        load = 0 if not hooked or rng.random() < 0.6 else 1
                        rt = rng.randrange(13)
                        w = 0xEE000F10 | (opc1 << 21) | (load << 20) | (crn << 16) | (rt << 12) | (opc2 << 5) | crm
                        thumb = bool(rng.getrandbits(1))
                        code = e1.enc_thumb(w, True) + b'\x00\xbf' if thumb else e1.enc_arm(w)
                        cfgname = CFGS[rng.randrange(len(CFGS))]
                        run_word(acc, rng, cfgname, thumb, code, 'cp15-from-user', ('cp15', cfgname, w, thumb, hooked), it=0, hooked=hooked)
    acc.exhaustive = True
    return acc


def shard_t16(cfgname, pos, lo, hi, seed):
    acc = Acc()
    rng = random.Random(seed)
    for hw in range(lo, hi):
        it = rng.choice(IT_POS[pos])
        if (hw >> 11) in (0b11101, 0b11110, 0b11111):
            code = e1.enc_thumb((hw << 16) | rng.getrandbits(16), True)
        else:
            code = e1.enc_thumb(hw, False) + b'\x00\xbf'
        run_word(acc, rng, cfgname, True, code, 't16', ('t16', cfgname, pos, hw, code), it=it)
    acc.exhaustive = True
    return acc


# rows that try to touch privileged state
ATTACK = ['MSR_reg_A1_sys', 'MSR_imm_A1_sys', 'MSR_reg_A1_app', 'MSR_imm_A1_app', 'MSR_reg_T1_sys', 'MSR_reg_T1_app', 'CPS_A1', 'CPS_T1', 'CPS_T2',
          'SETEND_A1', 'SETEND_T1', 'RFE_A1', 'RFE_T1', 'RFE_T2', 'SRS_A1', 'SRS_T1', 'SRS_T2', 'LDM_user_A1', 'STM_user_A1', 'LDM_eret_A1',
          'SUBS_PC_LR_T1', 'ERET_T1', 'SMC_A1', 'SMC_T1', 'SVC_A1', 'SVC_T1', 'MCR_A1', 'MRC_A1', 'MCR_T1', 'MRC_T1', 'MCRR_A1', 'MRRC_A1', 'LDC_imm_A1', 'STC_A1',
          'CDP_A1', 'MRS_A1_sys', 'MRS_T1_sys', 'BKPT_A1', 'UDF_A1', 'BXJ_A1', 'WFE_A1', 'WFI_A1', 'LDRT_A1', 'STRT_A1', 'LDRBT_A1', 'STRBT_A2'] + \
    ['SUBS_PC_LR_A1_' + n for n in ('SUB', 'MOV', 'ADD', 'AND')] + ['SUBS_PC_LR_A2_' + n for n in ('SUB', 'MOV', 'ORR')]


def shard_words(cfgname, seed, count, hooked):
    acc = Acc()
    rng = random.Random(seed)
    ca, ct = harvest_words()
    rows = [r for r in ATTACK if r in e1prop.ROWS]
    for i in range(count):
        r = rng.random()
        if r < 0.45:
            name = rows[rng.randrange(len(rows))]
            tn, row = e1prop.ROWS[name]
            w = e1prop.build_word(row, rng.getrandbits(32), rng.getrandbits(31))
            thumb = tn != 'arm'
            code = e1.enc_arm(w) if not thumb else e1.enc_thumb(w, tn == 't32') + b'\x00\xbf'
            label = 'attack-row'
        elif r < 0.7:
            thumb = False
            w = rng.getrandbits(32) if rng.random() < 0.5 else (rng.getrandbits(28) | (0xE << 28))
            code = e1.enc_arm(w)
            label = 'random-arm'
        elif r < 0.85:
            thumb = True
            w = (rng.choice((0b11101, 0b11110, 0b11111)) << 27) | rng.getrandbits(27)
            code = e1.enc_thumb(w, True)
            label = 'random-t32'
        else:
            thumb = rng.random() < 0.5
            src = ct if thumb else ca
            w = rng.choice(src) ^ (1 << rng.randrange(32) if rng.random() < 0.5 else 0)
            w &= M32
            code = (e1.enc_thumb(w) + b'\x00\xbf') if thumb else e1.enc_arm(w)
            label = 'corpus'
        run_word(acc, rng, cfgname, thumb, code, label, (label, cfgname, w, hooked), hooked=hooked)
    return acc


def shard_witness(which, part, nparts, seed, members):
    """cube representatives: one word (plus solver-generated members) per joint decoder region, executed in User mode"""
    from vf.props import decode_common as dc
    if which == 'arm':
        from vf.props.c06 import SPEC as spec
    else:
        from vf.props.c07 import SPEC32 as spec
    acc = Acc()
    rng = random.Random(seed)
    n_arm, joint = spec.compute_joint()
    for j, (w, a, row, trace) in enumerate(joint):
        if j % nparts != part:
            continue
        for word in [w] + dc.members(w, trace, 32, rng, members):
            cfgname = rng.choice(CFGS)
            code = e1.enc_arm(word) if which == 'arm' else e1.enc_thumb(word, True) + b'\x00\xbf'
            run_word(acc, rng, cfgname, which != 'arm', code, 'witness-' + which, ('wit', which, cfgname, word), hooked=rng.random() < 0.3)
    return acc


def shard_programs(cfgname, seed, count):
    acc = Acc()
    rng = random.Random(seed)
    rows = [r for r in ATTACK if r in e1prop.ROWS and e1prop.ROWS[r][0] == 'arm']
    for i in range(count):
        n = rng.randrange(2, 7)
        code = b''
        for _ in range(8):
            tn, row = e1prop.ROWS[rows[rng.randrange(len(rows))]]
            code += e1.enc_arm(e1prop.build_word(row, rng.getrandbits(32), rng.getrandbits(31)) | (0xE << 28) if 'c' in row.fields else
                               e1prop.build_word(row, rng.getrandbits(32), rng.getrandbits(31)))
        run_word(acc, rng, cfgname, False, code, 'program', ('prog', cfgname, code), steps=n)
    return acc


def shard_resumed(cfgname, seed, count):
    """User-mode code that takes exceptions repeatedly on one long-lived instance: SVC / UDF / attack instructions; after every exception the embedder's
    'kernel' resumes the User program (CPSR and PC put back through the API) and now and then reprograms what decides where the next exception goes
    (SCTLR.V, VBAR) - every later exception must again arrive at the vector the CURRENT registers name, with SPSR.M recording User"""
    acc = Acc()
    rng = random.Random(seed)
    rows = [r for r in ATTACK if r in e1prop.ROWS and e1prop.ROWS[r][0] == 'arm']
    for _ in range(count):
        words = []
        for _w in range(10):
            r = rng.random()
            if r < 0.4:
                words.append(0xEF000000 | rng.getrandbits(24))              # SVC
            elif r < 0.6:
                words.append(0xE7F000F0 | (rng.getrandbits(12) << 8) | rng.getrandbits(4))       # UDF
            elif r < 0.8:
                tn, row = e1prop.ROWS[rows[rng.randrange(len(rows))]]
                w = e1prop.build_word(row, rng.getrandbits(32), rng.getrandbits(31))
                words.append(w | (0xE << 28) if 'c' in row.fields else w)
            else:
                words.append(0xE1A00000)
        code = b''.join(e1.enc_arm(w) for w in words)
        case = gen.step_case(rng, cfgname, False, code, mode='usr', it=0, mpu=False, mmu=False, code_base=0x8000)
        cpu = e1.build(case)
        cfg = case['cfg']
        user_cpsr = case['state']['cpsr']
        ops = []
        verdict = None
        entries = 0
        for i in range(10):
            pre = target.snapshot(cpu, False)
            pc0 = pre['R.PC']
            exc = target.step_budget(cpu)
            post = target.snapshot(cpu, False)
            verdict, detail = judge(pre, post, exc, cfg)
            if verdict not in ('stayed', 'exception', 'notimpl'):
                acc.violation('C19:resumed:' + (verdict.split(':')[0][:60] if verdict != 'host-error' else 'host-error'), dict(case, resumed=ops, failed_at=i), {'verdict': verdict, 'detail': detail, 'history': ops})
                break
            if verdict == 'notimpl':
                break
            if verdict == 'exception':
                entries += 1
                # the 'kernel' returns to the User program at the next instruction, and sometimes moves the vectors first
                upd = {'cpsr': user_cpsr, 'R.PC': (pc0 + 4) & 0xFFFFFFFF}
                if rng.random() < 0.5:
                    key, bit = rng.choice((('sctlr', 13), ('sctlr', 13), ('vbar', 7), ('vbar', 5), ('sctlr', 30)))
                    if key in post:
                        upd[key] = post[key] ^ (1 << bit)
                target.apply_state(cpu, upd)
                ops.append([i, {k_: v_ for k_, v_ in upd.items()}])
        acc.case(entries >= 2, ('resumed', cfgname, code, user_cpsr), cls='resumed:%d-entries' % min(entries, 3),
                 sample=lambda: {'cfg': cfgname, 'code': code.hex()[:32], 'entries': entries, 'reprogrammed': [o for o in ops if len(o[1]) > 2][:3]})
    return acc


def shard_unpriv(seed, count):
    """LDRT/STRT-class instructions executed in a privileged mode against MPU permissions that allow privileged but deny
    User access must abort (and transfer nothing)"""
    acc = Acc()
    rng = random.Random(seed)
    rows = ['LDRT_A1', 'LDRT_A2', 'STRT_A1', 'STRT_A2', 'LDRBT_A1', 'LDRBT_A2', 'STRBT_A1', 'STRBT_A2', 'LDRHT_A1', 'LDRHT_A2', 'STRHT_A1', 'STRHT_A2',
            'LDRSBT_A1', 'LDRSHT_A1', 'LDRT_T1', 'STRT_T1', 'LDRBT', 'STRBT_T1', 'LDRHT', 'STRHT_T1', 'LDRSBT', 'LDRSHT']
    rows = [r for r in rows if r in e1prop.ROWS]
    for _ in range(count):
        name = rows[rng.randrange(len(rows))]
        tn, row = e1prop.ROWS[name]
        thumb = tn != 'arm'
        f = {k: rng.getrandbits(len(p)) for k, p in row.fields.items()}
        f.update(n=rng.randrange(0, 8), t=rng.randrange(0, 8))
        if f['n'] == f['t']:
            f['t'] = (f['t'] + 1) & 7
        if 'm' in f:
            f['m'] = 8 + rng.randrange(4)
        if 'c' in f:
            f['c'] = 14
        if 'i' in f:
            f['i'] = rng.choice((0, 4, 8)) & ((1 << len(row.fields['i'])) - 1)
        if 'y' in f:
            f['y'] = 0
        w = row.build(**f)
        code = e1.enc_arm(w) if not thumb else e1.enc_thumb(w, True) + b'\x00\xbf'
        case = gen.step_case(rng, rng.choice(('v6', 'v7')), thumb, code, mode=rng.choice(('svc', 'irq', 'sys', 'abt')), it=0, e=0, mpu=True,
                             code_base=0x8000)
        st_ = case['state']
        mode = gen.MODE_NAME[st_['cpsr'] & 31]
        # regions: r0 everything priv+user RW (code, vectors); r1 the data device: AP=001 privileged only  (higher number wins)
        for r in range(12):
            st_['drsrs[%d]' % r] = 0
        st_['drsrs[0]'] = (31 << 1) | 1
        st_['drbars[0]'] = 0
        st_['dracrs[0]'] = 3 << 8
        st_['drsrs[1]'] = (7 << 1) | 1                     # 256 bytes
        st_['drbars[1]'] = gen.DATA[0]
        ap = rng.choice((1, 1, 2, 5))                      # 001 priv only; 010 user read-only; 101 priv read-only
        st_['dracrs[1]'] = ap << 8
        st_['mpuir'] = 12 << 8
        st_['sctlr'] = (st_['sctlr'] | 1) & ~(1 << 13)
        st_['vbar'] = 0
        st_[gen.bank_key(f['n'], mode)] = gen.DATA[0] + 0x40 + rng.choice((0, 0, 1, 2, 3))
        st_['sctlr'] = (st_['sctlr'] & ~2) | ((1 << 22) if rng.random() < 0.7 else 0)        # A=0; U=1 mostly: split (byte-wise) accesses too
        background = rng.random() < 0.3
        if background:
            # no region covers the data device; SCTLR.BR=1: privileged accesses use the background map, unprivileged ones must fault
            st_['drsrs[0]'] = (15 << 1) | 1            # 64 KiB at 0: code and vectors only
            st_['drsrs[1]'] = 0
            st_['sctlr'] |= 1 << 17
        straddle = (not background) and rng.random() < 0.3 and not name.startswith(('LDRBT', 'STRBT', 'LDRSBT'))
        if straddle:
            # the access starts in a region User code may use and ends in one it may not (regions are as small as 32 bytes): every byte of a
            # split unaligned access is checked on its own, so the access must abort and transfer nothing
            st_['drsrs[1]'] = (6 << 1) | 1                  # 128 bytes, full access
            st_['dracrs[1]'] = 3 << 8
            st_['drsrs[2]'] = (6 << 1) | 1                  # the next 128 bytes: privileged only / user read-only / privileged read-only
            st_['drbars[2]'] = gen.DATA[0] + 0x80
            st_['dracrs[2]'] = ap << 8
            size_ = 2 if name.startswith(('LDRHT', 'STRHT', 'LDRSHT')) else 4
            st_[gen.bank_key(f['n'], mode)] = gen.DATA[0] + 0x80 - rng.randrange(1, size_)          # at least one byte on each side of the boundary
            st_['sctlr'] |= 1 << 22                         # unaligned accesses are performed (byte by byte)
            if 'i' in f:
                w = w & ~sum(1 << p_ for p_ in row.fields['i'])      # offset 0
                code = e1.enc_arm(w) if not thumb else e1.enc_thumb(w, True) + b'\x00\xbf'
                case['poke'][0][1] = code.hex()
        if 'm' in f:
            st_[gen.bank_key(f['m'], mode)] = 0
        is_store = name.startswith('STR')
        user_denied = background or ap in (1, 5) or (ap == 2 and is_store)
        after_strex = name in ('STRT_A1', 'STRT_A2', 'STRT_T1') and not straddle and 12 not in (f['n'], f['t']) and rng.random() < 0.4
        if after_strex:
            # the privileged code has just executed a store-exclusive to the very same word (it fails - no reservation - or passes): whatever that
            # instruction established about the address, the unprivileged store that follows is checked on its own, with User permissions
            st_[gen.bank_key(f['n'], mode)] &= ~3
            from vf.props.history import enc as _enc
            sx = e1.enc_arm(_enc('STREX_A1', n=f['n'], d=12, t=f['t'])) if not thumb else e1.enc_thumb(_enc('STREX_T1', n=f['n'], t=f['t'], d=12, i=0), True)
            case['poke'][0][1] = (sx + bytes.fromhex(case['poke'][0][1])).hex()
        case['unpriv_check'] = {'user_denied': bool(user_denied), 't': f['t'], 'n': f['n'], 'straddle': bool(straddle), 'after_strex': bool(after_strex)}
        cpu = e1.build(case)
        if after_strex and (target.step_budget(cpu) is not None or target.snapshot(cpu)['R.PC'] != st_['R.PC'] + 4):
            continue                    # (the store-exclusive itself faulted - a read-only region: not the situation this variant is about)
        pre = target.snapshot(cpu)
        exc = target.step_budget(cpu)
        post = target.snapshot(cpu)
        aborted = (post['cpsr'] & 31) == 0b10111 and post['R.PC'] == 0x10
        if (st_['sctlr'] >> 22) & 1 == 0 and case['cfg'].get('arch_version', 6) < 7 and (st_[gen.bank_key(f['n'], mode)] & 3):
            pass        # legacy align-down: still a single access with User permissions
        memsame = all(pre[k] == post[k] for k in pre if k.startswith('mem'))
        if straddle and not memsame:
            # the bytes of a split store that lie in the region User code may write can already have been stored when a later byte faults
            # (a store that aborts leaves the locations it addresses UNKNOWN); what must hold is that no byte of the protected region changed
            dev = [i for i, m in enumerate(case['mems']) if m[0] == gen.DATA[0]][0]
            a, b = pre['mem%d' % dev], post['mem%d' % dev]
            memsame = a[0x80:] == b[0x80:] and all(pre[k] == post[k] for k in pre if k.startswith('mem') and k != 'mem%d' % dev)
        acc.case(user_denied, ('unpriv', w, ap, st_['cpsr']), cls='unpriv:' + name, sample={'row': name, 'word': '%#x' % w, 'AP': ap, 'mode': mode, 'aborted': aborted, 'background_variant': background, 'straddles_two_regions': straddle})
        if exc is not None:
            acc.violation('C19:unpriv:host-error', case, {'exc': repr(exc)})
        elif user_denied and not (aborted and memsame and post[gen.bank_key(f['t'], mode)] == pre[gen.bank_key(f['t'], mode)]):
            acc.violation('C19:unpriv:%s:not-checked-with-user-permissions' % name, case,
                          {'AP': ap, 'aborted': aborted, 'memory_unchanged': memsame, 'mode_after': post['cpsr'] & 31})
        elif not user_denied and aborted:
            acc.violation('C19:unpriv:%s:spurious-abort' % name, case, {'AP': ap})
    return acc


# the same clause under VMSA: unprivileged load/store forms executed in privileged modes, and plain loads/stores executed in User mode, against page
# tables whose permissions (AP/APX, domains incl. Manager domains next to the Client one, sections / supersections / pages) separate the privilege
# levels; C15's table builder, oracle = the reference translation with the privilege the architecture prescribes for that access
UNPRIV_VMSA_ROWS = [r for r in ('LDRT_A1', 'LDRT_A2', 'STRT_A1', 'STRT_A2', 'LDRBT_A1', 'STRBT_A1', 'LDRHT_A1', 'STRHT_A1', 'LDRSBT_A1', 'LDRSHT_A1', 'LDRT_T1', 'STRT_T1',
                                'LDR_imm_A1', 'STR_imm_A1', 'LDR_imm_T1', 'STR_imm_T1', 'STM_A1', 'LDM_A1') if r in e1prop.ROWS]


def _vmsa_kw(rng, row):
    unpriv = row.name.startswith(('LDRT', 'STRT', 'LDRBT', 'STRBT', 'LDRHT', 'STRHT', 'LDRSBT', 'LDRSHT'))
    return {'mmu': False, 'e': 0, 'code_base': 0x8000, 'mode': rng.choice(('svc', 'sys', 'irq', 'abt')) if unpriv else 'usr'}


def _vmsa_tweak(rng, row, w, case):
    from vf.props import c15
    c15.tweak(rng, row, w, case)


PLAN_VMSA = e1prop.Plan('C19', UNPRIV_VMSA_ROWS, cfgs=('v7-vmsa', 'v6-vmsa'), tweak_case=_vmsa_tweak, hooked=(True, True, False), case_kw=_vmsa_kw,
                        classify=lambda res, case: ['vmsa:' + res.status + (':' + str(res.detail) if res.status == 'abort' else '')],
                        nontrivial=lambda res: res.status == 'abort' or e1prop.default_nontrivial(res))


def shard_ld_unpriv(seed, count):
    """unprivileged accesses through generated long-descriptor tables (multi-level walks with hierarchical APTable / AP[1] restrictions): C15's cell with the
    access always unprivileged"""
    from vf.props import c15
    acc = Acc()
    rng = random.Random(seed)
    for _ in range(count):
        c15.ld_cell(acc, rng, rng.random() < 0.7, prop='C19', unpriv_only=True)
    return acc


def run(ctx):
    ctx.rule = ('CPSR.M = User: every 16-bit Thumb halfword in each IT position (exhaustive), constructed words of every instruction that tries to '
                'touch privileged state (MSR/CPS/SETEND/RFE/SRS/LDM^/STM^/SUBS PC,LR/ERET/SMC/SVC/MCR../LDRT..), random ARM and 32-bit Thumb words, one witness + members per joint decoder region (Thumb-32; ARM too in thorough), '
                'test-suite words, and 2-6 step programs; generated state (secure / non-secure, MPU on/off, random banked registers, SPSRs, '
                'system registers) on configurations ' + ', '.join(CFGS) + ', stock and hooked. Validity oracle, no reference semantics: after '
                'the step either still User with A/I/F, every banked register / SPSR of other modes, ELR_hyp and every system register bit-identical '
                '(generic snapshot minus user-visible state), or an exception was taken: privileged mode, PC at that mode\'s vector, SPSR.M = User and only '
                'the state that entry writes changed. Second clause (PMSA and VMSA): under VMSA the unprivileged forms in privileged modes and plain loads/stores in User mode run against generated page tables (C15 builder: AP/APX, Client and Manager domains, sections, supersections, pages) and are compared with the reference; under PMSA unprivileged load/store forms in privileged modes against MPU regions with '
                'AP = priv-only / user-read-only / priv-read-only must abort without transferring. Non-trivial: the word changes privileged state when '
                'run from Supervisor mode in the same state, or an exception was taken; distinct = (word, config, IT position).')
    ctx.technique = 'exhaustive enumeration of 16-bit encodings + constructed/random fuzzing with a privileged-state frame oracle'
    ctx.assumptions = ['user-visible state is as listed in DESIGN.md appendix A.8', 'UNPREDICTABLE encodings are not excluded']
    tasks = []
    k = 0
    for c in (['v6', 'v7'] if ctx.quick else CFGS):
        for pos in (['outside', 'last'] if ctx.quick else list(IT_POS)):
            for lo in range(0, 65536, 8192):
                tasks.append((shard_t16, (c, pos, lo, lo + 8192, ctx.shard_seed(k))))
                k += 1
    for c in CFGS:
        for hooked in (False, True):
            tasks.append((shard_words, (c, ctx.shard_seed(k), ctx.n(4000, 60000), hooked)))
            k += 1
        tasks.append((shard_programs, (c, ctx.shard_seed(k), ctx.n(800, 15000))))
        k += 1
    tasks += [(shard_unpriv, (ctx.shard_seed(k + i), ctx.n(600, 10000))) for i in range(4)]
    tasks += [(shard_cp15, (i, 8, ctx.shard_seed(k + 80 + i))) for i in range(8)]
    tasks += [(shard_resumed, (c, ctx.shard_seed(k + 100 + i), ctx.n(250, 5000))) for i, c in enumerate(CFGS)]
    tasks += [(shard_ld_unpriv, (ctx.shard_seed(k + 30 + i), ctx.n(250, 5000))) for i in range(4)]
    tasks += [(e1prop.shard, ('vf.props.c19:PLAN_VMSA', ctx.shard_seed(k + 10 + i), ctx.n(150, 3000))) for i in range(8)]
    from vf.props import c07
    c07.SPEC32.compute_joint()
    tasks += [(shard_witness, ('t32', i, 8, ctx.shard_seed(k + 20 + i), ctx.n(6, 40))) for i in range(8)]
    if not ctx.quick:
        from vf.props import c06
        c06.SPEC.compute_joint()
        tasks += [(shard_witness, ('arm', i, 16, ctx.shard_seed(k + 60 + i), 40)) for i in range(16)]
    ctx.pmap(_dispatch, tasks)


def _dispatch(fn, args):
    return fn(*args)


def replay(case, bucket=None):
    if 'resumed' in case:
        # the recorded history: step; after the steps listed in `resumed` the kernel's register writes; the step `failed_at` is judged
        cpu = e1.build(case)
        upd = {int(i): u for i, u in case['resumed']}
        for i in range(case['failed_at'] + 1):
            pre = target.snapshot(cpu, False)
            exc = target.step_budget(cpu)
            post = target.snapshot(cpu, False)
            if i == case['failed_at']:
                verdict, detail = judge(pre, post, exc, case['cfg'])
                return [] if verdict in ('stayed', 'exception', 'notimpl') else [verdict]
            if i in upd:
                target.apply_state(cpu, upd[i])
        return []
    if case.get('ld'):
        from vf.props import c15
        return c15.replay(case, bucket)
    if 'unpriv_check' in case:
        uc = case['unpriv_check']
        cpu = e1.build(case)
        if uc.get('after_strex'):
            target.step_budget(cpu)
            if target.snapshot(cpu)['R.PC'] != case['state']['R.PC'] + 4:
                return []
        pre = target.snapshot(cpu)
        exc = target.step_budget(cpu)
        post = target.snapshot(cpu)
        mode = gen.MODE_NAME[pre['cpsr'] & 31]
        aborted = (post['cpsr'] & 31) == 0b10111 and post['R.PC'] == 0x10
        memsame = all(pre[k] == post[k] for k in pre if k.startswith('mem'))
        if uc.get('straddle') and not memsame:
            dev = [i for i, m in enumerate(case['mems']) if m[0] == gen.DATA[0]][0]
            a, b = pre['mem%d' % dev], post['mem%d' % dev]
            memsame = a[0x80:] == b[0x80:] and all(pre[k] == post[k] for k in pre if k.startswith('mem') and k != 'mem%d' % dev)
        if exc is not None:
            return ['host-error']
        if uc['user_denied'] and not (aborted and memsame and post[gen.bank_key(uc['t'], mode)] == pre[gen.bank_key(uc['t'], mode)]):
            return ['not-checked-with-user-permissions']
        if not uc['user_denied'] and aborted:
            return ['spurious-abort']
        return []
    if bucket and ':' in bucket and bucket.split(':')[1] in e1prop.ROWS:
        return e1prop.replay(PLAN_VMSA, case)
    cpu = e1.build(case)
    pre = target.snapshot(cpu, False)
    for _ in range(case.get('steps', 1)):
        exc = target.step_budget(cpu)
        post = target.snapshot(cpu, False)
        v, d = judge(pre, post, exc, case['cfg'])
        if v not in ('stayed', 'exception', 'notimpl'):
            return [v]
        if v != 'stayed':
            break
        pre = post
    return []
