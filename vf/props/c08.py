"""C08 — IT blocks: the following 1-4 instructions get the right conditions, 16-bit ALU forms do not set flags inside,
ITSTATE advances once per instruction and retires; exceptions save/clear it and the standard return restores it.
Multi-step programs compared step by step with the reference machine (full state, incl. CPSR.IT and SPSR)."""
import random

import hypothesis
from hypothesis import given, settings, strategies as st, HealthCheck, Phase

from vf import gen, e1, diff, target
from vf.runner import Acc
from vf.props import e1prop
from vf.props.c05 import passes

T16 = e1.enc_thumb


def legal_it():
    out = []
    for fc in range(15):
        for mask in range(1, 16):
            if fc == 14 and bin(mask).count('1') != 1:
                continue
            out.append((fc, mask))
    return out


LEGAL = legal_it()


def block_len(mask):
    return 4 - ((mask & -mask).bit_length() - 1)


# slot instruction pool: (name, bytes builder(k) , kind)
def slot_code(kind, k, rng):
    r = k & 7
    if kind == 'movs16':
        return T16(0x2000 | (r << 8) | (0x10 + k))                 # MOVS Rk,#imm : no flag update inside the block
    if kind == 'adds16':
        return T16(0x3000 | (r << 8) | 1)                          # ADDS Rk,#1
    if kind == 'lsls16':
        return T16(0x0000 | (1 << 6) | (r << 3) | r)               # LSLS Rk,Rk,#1
    if kind == 'alu16':
        # any 16-bit data-processing encoding whose S bit is "not in an IT block": none of them may touch the flags inside the block
        name = rng.choice(ALU16)
        row = e1prop.ROWS[name][1]
        f = {l: rng.getrandbits(len(p)) for l, p in row.fields.items()}
        if 'd' in f and rng.random() < 0.6:
            f['d'] = r
        return T16(row.build(**f))
    if kind == 'cmp16':
        row = e1prop.ROWS[rng.choice(('TST_T1_dp', 'CMP_T1_dp', 'CMN_T1_dp'))][1]
        return T16(row.build(**{l: rng.getrandbits(len(p)) for l, p in row.fields.items()}))
    if kind in ('udiv0', 'sdiv0'):
        # UDIV / SDIV Rk, Rk, R12 with R12 = 0: on the 7-R profile with SCTLR.DZ the divide traps - only if its condition passes
        return T16((0xFBB0F0F0 if kind == 'udiv0' else 0xFB90F0F0) | (r << 16) | (r << 8) | 12, True)
    if kind == 'mov32':
        return T16(0xF04F0000 | (r << 8) | (0x20 + k), True)       # MOV.W Rk,#imm
    if kind == 'adds32':
        return T16(0xF1100000 | (r << 16) | (r << 8) | 1, True)    # ADDS.W Rk,Rk,#1 (sets flags even inside the block)
    if kind == 'nop32':
        return T16(0xF3AF8000, True)                               # NOP.W  (shares its prefix with B<c>.W)
    if kind == 'msr':
        return T16(((0xF380 | r) << 16) | 0x8800, True)            # MSR APSR_nzcvq, Rk
    if kind == 'clrex':
        return T16(0xF3BF8F2F, True)                               # CLREX
    if kind == 'cmp':
        return T16(0x2800 | (r << 8) | rng.choice((0, 1, 0x80)))   # CMP Rk,#imm : later slots see the new flags
    if kind == 'ldr':
        return T16(0x6800 | (6 << 3) | r)                          # LDR Rk,[R6]
    if kind == 'str':
        return T16(0x6000 | (6 << 3) | r)                          # STR Rk,[R6]
    if kind == 'svc':
        return T16(0xDF00 | (k * 17 & 0xFF))
    if kind == 'udf':
        return T16(0xDE00 | k)
    if kind == 'ldr_abort':
        return T16(0x6800 | (7 << 3) | r)                          # LDR Rk,[R7]  (R7 points at an address the MPU denies / unaligned)
    if kind == 'b':
        return T16(0xE000 | 2)                                     # B .+8  (only legal as last in block)
    if kind == 'bx':
        return T16(0x4700 | (5 << 3))                              # BX R5
    if kind == 'pop_pc':
        return T16(0xBD00)                                         # POP {pc}
    raise KeyError(kind)


ALU16 = ['LSL_imm_T1', 'LSR_imm_T1', 'ASR_imm_T1', 'ADD_reg_T1', 'SUB_reg_T1', 'ADD_imm_T1', 'SUB_imm_T1', 'MOV_imm_T1', 'ADD_imm_T2', 'SUB_imm_T2'] + \
    [n + '_T1_dp' for n in ('AND', 'EOR', 'LSL', 'LSR', 'ASR', 'ADC', 'SBC', 'ROR', 'RSB', 'ORR', 'MUL', 'BIC', 'MVN')]
assert all(n in e1prop.ROWS for n in ALU16)
MID = ['alu16', 'alu16', 'alu16', 'cmp16', 'udiv0', 'sdiv0', 'movs16', 'adds16', 'lsls16', 'mov32', 'adds32', 'cmp', 'ldr', 'str', 'svc', 'udf', 'ldr_abort', 'nop32', 'msr', 'clrex']
LAST = MID + ['b', 'bx', 'pop_pc']


def build_case(rng, cfgname, fc, mask, nzcv, kinds, te, handler):
    n = block_len(mask)
    code = T16(0xBF00 | (fc << 4) | mask)
    for i in range(n):
        code += slot_code(kinds[i], i + 1, rng)
    code += T16(0x3001) + T16(0x2300 | 0x55) + b'\x00\xbf' * 6       # after the block: ADDS r0,#1 (sets flags again) ; MOVS r3,#0x55
    case = gen.step_case(rng, cfgname, True, code, mode=rng.choice(('svc', 'usr', 'sys', 'irq')), it=0, e=0, mpu=False, mmu=False,
                         code_base=0x8000, steps=n + 4)
    st_ = case['state']
    st_['cpsr'] = (st_['cpsr'] & 0x0FFFFFFF) | (nzcv << 28)
    st_['sctlr'] = (st_['sctlr'] & ~((1 << 30) | (1 << 13) | (1 << 1))) | (te << 30) | (1 << 22 if case['cfg'].get('arch_version', 6) >= 6 else 0)
    st_['vbar'] = 0
    st_['scr'] = 0
    if case['cfg'].get('is_armv7r_profile'):
        st_['sctlr'] |= rng.getrandbits(1) << 19          # SCTLR.DZ
    st_['R.R12usr'] = 0
    st_['R.R12fiq'] = 0
    mode = gen.MODE_NAME[st_['cpsr'] & 31]
    st_[gen.bank_key(6, mode)] = gen.DATA[0] + 0x40
    st_[gen.bank_key(7, mode)] = 0x60000001 if 'abort' in ''.join(kinds) else gen.DATA[0] + 0x80
    st_[gen.bank_key(5, mode)] = 0x8061
    st_[gen.bank_key(13, mode)] = gen.DATA[0] + 0x90
    # 'ldr_abort': alignment fault through SCTLR.A with an unaligned R7
    if 'ldr_abort' in kinds:
        st_['sctlr'] |= 2
    # POP {pc} target (Thumb address inside the code)
    case['poke'].append([gen.DATA[0] + 0x90, (0x8071).to_bytes(4, 'little').hex()])
    # handlers at the vectors (Undefined 0x04, SVC 0x08, Data Abort 0x10): standard return instructions
    if te:
        ret = {'subs0': T16(0xF3DE8F00, True), 'subs4': T16(0xF3DE8F04, True), 'subs2': T16(0xF3DE8F02, True)}
    else:
        ret = {'subs0': e1.enc_arm(0xE1B0F00E), 'subs4': e1.enc_arm(0xE25EF004), 'subs2': e1.enc_arm(0xE25EF002)}
    case['poke'].append([0x04, ret[handler[0]].hex()])
    case['poke'].append([0x08, ret['subs0'].hex()])
    case['poke'].append([0x10, ret[handler[1]].hex()])
    return case, n


def judge(acc, case, label, key, info):
    res = diff.run(case)
    nontriv = info['n'] >= 2 and info['has_else'] or info['flags_inside'] or info['exception_inside']
    acc.case(bool(nontriv) and res.status not in ('unpred', 'skip'), key, cls=label,
             sample=lambda: dict(info, code=case['poke'][0][1], status=res.status, steps_compared=res.step + 1))
    acc.cls('status:' + res.status)
    if res.status in ('unpred', 'skip'):
        acc.excluded += 1
        if res.exc is not None and not target.escape_ok(res.exc):
            acc.violation('C08:host-error:' + type(res.exc).__name__, case, {'exc': repr(res.exc)})
        return
    if res.diffs:
        from vf import known
        for k in known.match('C08', res, case):
            r2 = diff.run(case, quirks=(k,))
            if not r2.diffs and r2.status not in ('unpred', 'skip', 'host-error'):
                acc.known_hit(k)
                return
        for k in known.match_elsewhere('C08', res, case):
            r2 = diff.run(case, quirks=(k,))
            if not r2.diffs and r2.status not in ('unpred', 'skip', 'host-error'):
                acc.excluded += 1
                acc.cls('excluded:finding-listed-under-another-property:' + k)
                return
        acc.violation('C08:%s:step%d:%s:%s' % (label, res.step, res.row, e1prop.sig(res.diffs)), case,
                      dict(info, diffs=e1.fmt_diff(res.diffs), ref_status=res.status, step=res.step))


def shard_exhaustive(part, nparts, seed):
    """all legal (firstcond, mask) x 16 NZCV; slots are MOVS Rk,#k (16-bit, must not set flags) or MOV.W"""
    acc = Acc()
    rng = random.Random(seed)
    idx = 0
    for fc, mask in LEGAL:
        for nzcv in range(16):
            idx += 1
            if idx % nparts != part:
                continue
            n = block_len(mask)
            kinds = [rng.choice(('movs16', 'alu16', 'alu16', 'alu16', 'adds16', 'lsls16', 'mov32')) for _ in range(4)]
            case, n = build_case(rng, rng.choice(('v6', 'v7')), fc, mask, nzcv, kinds, rng.getrandbits(1), ('subs0', 'subs4'))
            info = {'firstcond': fc, 'mask': mask, 'nzcv': nzcv, 'n': n, 'kinds': kinds[:n], 'has_else': bin(mask).count('1') > 1 and n >= 2,
                    'flags_inside': False, 'exception_inside': False}
            judge(acc, case, 'exhaustive', ('ex', fc, mask, nzcv), info)
    acc.exhaustive = True
    return acc


def shard_programs(seed, examples):
    acc = Acc()
    strat = st.tuples(st.integers(0, len(LEGAL) - 1), st.integers(0, 15), st.lists(st.integers(0, len(LAST) - 1), min_size=4, max_size=4),
                      st.integers(0, 1), st.integers(0, 5), st.integers(0, 2 ** 64 - 1), st.integers(0, 2))

    @hypothesis.seed(seed)
    @settings(max_examples=examples, deadline=None, database=None, phases=[Phase.generate], report_multiple_bugs=False,
              suppress_health_check=list(HealthCheck))
    @given(strat)
    def body(ex):
        mx = e1prop.mixed(ex)             # flatten Hypothesis' small-value bias (see e1prop.mixed)
        li, nzcv, ks, te, hsel, entropy, ci = (mx.randrange(len(LEGAL)), mx.randrange(16), [mx.randrange(len(LAST)) for _ in range(4)], mx.getrandbits(1),
                                               mx.randrange(6), mx.getrandbits(64), mx.randrange(3))
        fc, mask = LEGAL[li]
        n = block_len(mask)
        kinds = []
        for i in range(4):
            pool = LAST if i == n - 1 else MID
            kinds.append(pool[ks[i] % len(pool)])
        rng = random.Random(entropy)
        handler = (('subs0', 'subs2')[hsel & 1], ('subs4', 'subs0', 'subs2')[hsel % 3])
        case, n = build_case(rng, ('v6', 'v7', 'v7r')[ci], fc, mask, nzcv, kinds, te, handler)
        if rng.random() < 0.2:
            # the embedder installs a copy of the status register object (per-task CPSR objects, a checkpoint) or of the whole register file while slots
            # of the block are still pending: the copy IS the status register from then on
            case['inject'] = {str(rng.randrange(1, n + 2)): rng.choice(('swap_cpsr', 'swap_cpsr', 'swap_registers'))}
        used = kinds[:n]
        info = {'firstcond': fc, 'mask': mask, 'nzcv': nzcv, 'n': n, 'kinds': used, 'has_else': bin(mask).count('1') > 1 and n >= 2,
                'flags_inside': any(k in ('cmp', 'cmp16', 'adds32', 'msr') for k in used), 'exception_inside': any(k in ('svc', 'udf', 'ldr_abort', 'udiv0', 'sdiv0') for k in used),
                'thumb_handlers': te}
        for k in used:
            acc.cls('slot:' + k)
        judge(acc, case, 'program', ('pg', fc, mask, nzcv, tuple(used), te, hsel, case['state']['cpsr']), info)
    body()
    return acc


def shard_entry(seed, count):
    """every kind of exception entry taken in the middle of an IT block, on every configuration (incl. entries routed to Monitor and Hyp mode): the
    ITSTATE is saved in the SPSR (advanced for SVC, not for the others) and is zero in the handler; C11's cell runner with ITSTATE forced non-zero"""
    from vf.props import c11
    acc = Acc()
    rng = random.Random(seed)
    cells = []
    for kind in c11.BITS:
        for cfgname in c11.CFGS:
            cells += [(kind, cfgname, mode, assign) for mode, assign in c11.cells(kind, cfgname) if dict(assign).get(('cpsr', 5)) == 1]
    for _ in range(count):
        kind, cfgname, mode, assign = cells[rng.randrange(len(cells))]
        c11.run_cell(acc, rng, kind, cfgname, mode, assign, prop='C08', force_it=True)
    return acc


# ---------------------------------------------------------------------------------------------- entries caused by instructions inside an IT block
# SVC / UDF / BKPT / SMC, a trapped WFI / WFE / coprocessor access, an aborting load - executed in every slot position of an IT block with a passing
# condition, on every configuration (trap controls armed where there is a Hyp mode): whichever way the entry is taken (raised to the step loop, or
# entered directly from inside execute()), the handler starts with ITSTATE = 0 and the SPSR holds the ITSTATE the architecture prescribes
def _entry_it_tweak(rng, row, w, case):
    from vf.props import c11
    from vf.props.c05 import passing_flags
    c11.entry_tweak(rng, row, w, case)
    st_ = case['state']
    it = (((st_['cpsr'] >> 10) & 0x3F) << 2) | ((st_['cpsr'] >> 25) & 3)
    if it & 0xF and (it >> 4) < 14 and rng.random() < 0.8:
        st_['cpsr'] = (st_['cpsr'] & 0x0FFFFFFF) | (passing_flags(rng, it >> 4) << 28)
    if case['cfg'].get('have_virt_ext') and rng.random() < 0.6:
        st_['scr'] = st_.get('scr', 0) | 1
        if (st_['cpsr'] & 31) in (gen.MODES['mon'], gen.MODES['hyp']):
            st_['cpsr'] = (st_['cpsr'] & ~31) | gen.MODES[rng.choice(('svc', 'usr', 'irq', 'sys'))]
        st_['hstr'] = rng.choice((0xFFFF, rng.getrandbits(16)))


def _entry_rows():
    from vf.props import c11
    return [r for r in c11.ENTRY_ROWS if e1prop.ROWS[r][0] != 'arm']


ENTRY_IT_PLAN = e1prop.Plan('C08', _entry_rows(), cfgs=('v6', 'v7', 'v7-virt', 'v7-virt', 'v6-nosec'), tweak_case=_entry_it_tweak, hooked=(False, True),
                            nontrivial=lambda res: res.status in ('undef', 'svc', 'smc', 'hyptrap', 'abort'),
                            classify=lambda res, case: ['entry-inside-it-block:' + res.status] if res.status in ('undef', 'svc', 'smc', 'hyptrap', 'abort') else [],
                            case_kw=lambda rng, row: {'mpu': False, 'mmu': False, 'code_base': 0x8000, 'it': rng.choice([x for x in gen.IT_STATES if x])})


# ---------------------------------------------------------------------------------------------- exception returns as the last instruction of an IT block
# "returning restores it": a Thumb handler may return conditionally (IT <c> ; SUBS<c> PC,LR / ERET<c> / RFE<c>): when the return executes, ITSTATE is what
# the SPSR / the stacked PSR says - the interrupted program's - and when its condition fails the block simply retires
def _return_it_tweak(rng, row, w, case):
    from vf.props import c12
    from vf.props.c05 import passing_flags
    c12.tweak(rng, row, w, case)
    st_ = case['state']
    fc = rng.randrange(14)
    it = (fc << 4) | 0x8                                   # last (only remaining) slot of a block
    st_['cpsr'] = (st_['cpsr'] & ~0x0600FC00) | ((it & 3) << 25) | ((it >> 2) << 10)
    if rng.random() < 0.75:
        st_['cpsr'] = (st_['cpsr'] & 0x0FFFFFFF) | (passing_flags(rng, fc) << 28)
    # the PSR being restored describes a program interrupted inside an IT block of its own
    ret_it = rng.choice([x for x in gen.IT_STATES if x])
    same = rng.random() < 0.2          # a return to exactly the state the handler runs in (same mode, flags, masks and ITSTATE): nothing changes - and nothing advances
    for k in gen.SPSR_KEYS:
        if same:
            st_[k] = st_['cpsr']
        elif rng.random() < 0.8:
            st_[k] = (st_[k] & ~0x0600FC00 | ((ret_it & 3) << 25) | ((ret_it >> 2) << 10)) | (1 << 5)


RETURN_IT_PLAN = e1prop.Plan('C08', [r for r in ('SUBS_PC_LR_T1', 'ERET_T1', 'RFE_T1', 'RFE_T2') if r in e1prop.ROWS], cfgs=('v6', 'v7', 'v7-virt', 'v6-nosec'),
                             tweak_case=_return_it_tweak, hooked=(False, True), classify=lambda res, case: ['return-in-last-it-slot:' + res.status],
                             case_kw=lambda rng, row: {'mpu': False, 'mmu': False, 'code_base': 0x8000, 'e': 0, 'mode': rng.choice(('svc', 'irq', 'abt', 'und', 'fiq'))})


def run(ctx):
    ctx.rule = ('(1) exhaustive: all %d legal (firstcond, mask) pairs x 16 NZCV: IT followed by 1-4 16-bit flag-setting-form ALU / 32-bit MOV '
                'instructions, then two unconditional flag-setting instructions; (2) Hypothesis-generated blocks whose slots come from a pool '
                '(every 16-bit data-processing encoding whose S bit is "outside an IT block" (shift/add/sub/mov immediate and register forms, the 13 ALU register forms incl. RSB/MUL/MVN), 32-bit ALU, CMP/TST/CMN inside the block, LDR/STR, SVC, UDF, an aborting LDR, B / BX / POP {pc} as last), with ARM or Thumb '
                'exception handlers that execute the standard return (MOVS PC,LR / SUBS PC,LR,#n). Every step of the program is compared with '
                'the reference machine on the complete state (which slot executes, CPSR.IT after every step, flags untouched inside, SPSR IT bits '
                'on exception entry, IT cleared in the handler, restored by the return). (3) every kind of exception entry (Reset, Undefined, SVC, SMC, Data Abort, IRQ, FIQ, Hyp trap; routed to Monitor / Hyp mode where the configuration has them) taken directly in the middle of an IT block: SPSR holds the ITSTATE, the handler runs with ITSTATE = 0. Non-trivial: block of >=2 with an else slot, or flags '
                'changed inside, or an exception inside; distinct = (IT, NZCV, slot kinds, handlers).' % len(LEGAL))
    ctx.technique = 'exhaustive enumeration of IT start states + Hypothesis-generated programs, differential against a reference interpreter'
    ctx.assumptions = ['vf/ref (ITSTATE rules, exception entry/return) is a faithful reading of DDI 0406C']
    tasks = [(shard_exhaustive, (i, 8, ctx.shard_seed(i))) for i in range(8)]
    tasks += [(shard_programs, (ctx.shard_seed(100 + i), ctx.n(1200, 40000))) for i in range(24)]
    tasks += [(shard_entry, (ctx.shard_seed(300 + i), ctx.n(1500, 30000))) for i in range(8)]
    tasks += [(e1prop.shard, ('vf.props.c08:ENTRY_IT_PLAN', ctx.shard_seed(400 + i), ctx.n(300, 6000))) for i in range(8)]
    tasks += [(e1prop.shard, ('vf.props.c08:RETURN_IT_PLAN', ctx.shard_seed(500 + i), ctx.n(150, 3000))) for i in range(4)]
    ctx.pmap(_dispatch, tasks)
    ctx.acc.exhaustive = True
    ctx.acc.extra['exhaustive_part'] = 'all legal (firstcond, mask) x NZCV start states'


def _dispatch(fn, args):
    return fn(*args)


def replay(case, bucket=None):
    if 'kind' in case and 'cfgname' in case:
        from vf.props import c11
        return c11.replay(case, bucket)
    if case.get('steps', 1) == 1:
        r = e1prop.replay(ENTRY_IT_PLAN, case)
        if r:
            return r
    res = diff.run(case)
    return [e1prop.sig(res.diffs)] if res.diffs else []
