"""C11 — exception entry: mode, saved state, return address, masks, vector (direct calls of take_*_exception /
take_reset against the reference entry table; routing bits enumerated completely per kind, everything else random)."""
import itertools
import random

from vf import gen, target, diff, e1
from vf.runner import Acc
from vf.ref.machine import Machine, Abort, M32

from armulator.armv6.arm_exceptions import DataAbortException
from armulator.armv6.enums import DAbort

CFGS = ['v6', 'v6-nosec', 'v7-virt', 'v7']
# per kind: the state bits its entry rule reads (enumerated completely); (register key, bit)
COMMON = [('cpsr', 5), ('sctlr', 13), ('sctlr', 30), ('sctlr', 25)]
BITS = {
    'undef': COMMON + [('scr', 0), ('hcr', 27)],
    'svc': COMMON + [('scr', 0), ('hcr', 27)],
    'smc': [('cpsr', 5), ('sctlr', 30), ('sctlr', 25), ('scr', 0)],
    'dabort': COMMON + [('scr', 0), ('scr', 5), ('scr', 3), ('hcr', 27), ('x', 'alignment')],
    'irq': COMMON + [('sctlr', 24), ('scr', 0), ('scr', 1), ('scr', 5), ('hcr', 4)],
    'fiq': COMMON + [('sctlr', 24), ('scr', 0), ('scr', 2), ('scr', 5), ('scr', 4), ('hcr', 3)],
    'hyptrap': [('cpsr', 5), ('hsctlr', 30), ('hsctlr', 25), ('scr', 3), ('scr', 2), ('scr', 1)],
    'reset': [('cpsr', 5), ('sctlr', 13), ('sctlr', 30), ('sctlr', 25), ('scr', 0)],
}
PCS = [0x8000, 0, 2, 4, 8, 0xFFFFFFFC, 0xFFFFFFFE, 0xFFFFFFF8, 0x7FFFFFFC, 0x80000000]


def cells(kind, cfgname):
    cfg = diff.full_cfg(gen.CONFIGS[cfgname])
    modes = gen.valid_modes(cfg)
    bits = [b for b in BITS[kind] if (b[0] not in ('scr',) or cfg['have_security_ext']) and (b[0] not in ('hcr', 'hsctlr') or cfg['have_virt_ext'])]
    for mode in modes:
        for combo in itertools.product((0, 1), repeat=len(bits)):
            yield mode, list(zip(bits, combo))


def run_cell(acc, rng, kind, cfgname, mode, assign, prop='C11', force_it=False):
    cfg = diff.full_cfg(gen.CONFIGS[cfgname])
    cpu = target.new_cpu(gen.CONFIGS[cfgname], False, [(0, 0x40)])
    st_ = gen.gen_core(rng)
    thumb = dict((b, v) for b, v in assign).get(('cpsr', 5), 0)
    st_['cpsr'] = gen.gen_cpsr(rng, cfg, bool(thumb), mode=mode, e=rng.getrandbits(1))
    if force_it and thumb:
        it = rng.choice([x for x in gen.IT_STATES if x])          # an exception taken in the middle of an IT block (C08)
        st_['cpsr'] = (st_['cpsr'] & ~0x0600FC00) | ((it & 3) << 25) | ((it >> 2) << 10)
    if thumb and rng.random() < 0.3:
        st_['cpsr'] |= 1 << 24          # J:T = 1:1, ThumbEE state (reachable through ENTERX): every entry clears J, return offsets are Thumb's
    for k in gen.SPSR_KEYS:
        st_[k] = gen.gen_spsr(rng, cfg)
    st_['elr_hyp'] = rng.getrandbits(32)
    regs = {'sctlr': rng.getrandbits(32) & ~1, 'scr': rng.getrandbits(10) if cfg['have_security_ext'] else 0,
            'hcr': rng.getrandbits(28) if cfg['have_virt_ext'] else 0, 'hsctlr': rng.getrandbits(32) if cfg['have_virt_ext'] else 0}
    alignment = 0
    flags = (0, 0, 0, 0)
    if cfg['have_virt_ext']:
        regs['hdcr'] = rng.getrandbits(12)
    for (reg, bit), v in assign:
        if reg == 'x':
            alignment = v
        elif reg != 'cpsr':
            regs[reg] = (regs[reg] & ~(1 << bit)) | (v << bit)
    # valid-state rules: Hyp mode only in Non-secure state; Monitor mode is Secure whatever SCR.NS says
    if mode == 'hyp':
        regs['scr'] |= 1
    st_.update(regs)
    st_['vbar'] = rng.choice((0, 0x20, 0x8000, 0xFFFFFFE0, 0x12345660))
    st_['mvbar'] = rng.choice((0, 0x40, 0x9000, 0xFFFFFFE0))
    st_['hvbar'] = rng.choice((0, 0x60, 0xA000, 0xFFFFFFE0))
    st_['hsr'] = rng.getrandbits(32)
    pc = rng.choice(PCS) if rng.random() < 0.6 else rng.getrandbits(32)
    pc &= ~1 if thumb else ~3
    st_['R.PC'] = pc & M32
    target.apply_state(cpu, st_)
    pre = target.snapshot(cpu, False)
    M = Machine(pre, [], cfg)
    nonsecure = cfg['have_security_ext'] and (regs['scr'] & 1) and mode != 'mon'
    if kind == 'hyptrap' and (not cfg['have_virt_ext'] or not nonsecure or mode == 'hyp'):
        return
    if kind == 'smc' and (not cfg['have_security_ext'] or mode == 'usr'):
        return
    r = cpu.registers
    try:
        if kind == 'undef':
            r.take_undef_instr_exception(); M.take_undef()
        elif kind == 'svc':
            r.take_svc_exception(); M.take_svc()
        elif kind == 'smc':
            r.take_smc_exception(); M.take_smc()
        elif kind == 'dabort':
            ab = 'alignment' if alignment else 'permission'
            # what an embedder's memory system / debug logic may report about the abort (mocks that say "no" in the stock class), and a stage-2 abort
            ext, asy, dbg, s2 = (rng.random() < 0.3 for _ in range(4))
            if mode == 'hyp' or not nonsecure:
                s2 = False                      # stage 2 applies to the Non-secure PL1&0 regime only
            flags = (ext, asy, dbg, s2)
            r.is_external_abort, r.is_async_abort, r.debug_exception = (lambda v=ext: v), (lambda v=asy: v), (lambda v=dbg: v)
            r.take_data_abort_exception(DataAbortException(DAbort.ALIGNMENT if alignment else DAbort.PERMISSION, s2))
            M.take_data_abort(Abort(ab, 0, False, {'s2': s2}), external=ext, asynchronous=asy, debug=dbg)
        elif kind == 'irq':
            r.take_physical_irq_exception(); M.take_irq()
        elif kind == 'fiq':
            r.take_physical_fiq_exception(); M.take_fiq()
        elif kind == 'hyptrap':
            r.take_hyp_trap_exception(); M.take_hyp_trap()
        else:
            cpu.take_reset(); M.take_reset()
        exc = None
    except Exception as e:
        exc = e
    post = target.snapshot(cpu, False)
    d = diff.compare(M, post, pre) if exc is None else {'exception': (None, repr(exc))}
    rb = e1.in_range(post)
    key = (kind, cfgname, mode, tuple(v for _, v in assign), pc)
    suite_case = kind == 'dabort' and cfgname == 'v6' and mode == 'svc'
    acc.case(not suite_case, key, cls='%s/%s' % (kind, cfgname),
             sample=lambda: {'kind': kind, 'config': cfgname, 'mode': mode, 'bits': [('%s<%s>' % b, v) for b, v in assign], 'pc': '%#x' % pc,
                             'entered': gen.MODE_NAME.get(post['cpsr'] & 31), 'vector': '%#x' % post['R.PC']})
    acc.cls('entered:' + gen.MODE_NAME.get(post['cpsr'] & 31, '?'))
    if d or rb:
        from vf.props.e1prop import sig
        case = {'kind': kind, 'cfgname': cfgname, 'state': {k: v for k, v in pre.items()}, 'alignment': alignment, 'abort_flags': [int(x) for x in flags]}
        acc.violation('%s:%s:%s:%s' % (prop, 'entry-' + kind if prop != 'C11' else kind, cfgname, sig(d) if d else 'out-of-range'), case,
                      {'diffs(expected,observed)': e1.fmt_diff(d), 'out_of_range': rb, 'mode': mode})


def shard(kind, cfgname, part, nparts, seed, frac):
    acc = Acc()
    rng = random.Random(seed)
    for i, (mode, assign) in enumerate(cells(kind, cfgname)):
        if i % nparts != part:
            continue
        if frac < 1.0 and rng.random() > frac:
            continue
        for _ in range(2):
            run_cell(acc, rng, kind, cfgname, mode, assign)
    return acc


# ---------------------------------------------------------------------------------------------- entries caused by instructions
# the same entries reached the way a program reaches them: SVC, UDF, SMC, a trapped WFI / WFE / coprocessor access (Hyp trap), an undefined
# coprocessor access, an aborting load - stepped through emulate_cycle() so that "continues at the vector" also covers what the step loop does
# after the entry function returns (the direct calls above cannot see that)
from vf.props import e1prop  # noqa: E402
ENTRY_ROWS = ['SVC_A1', 'SVC_T1', 'UDF_A1', 'UDF_T1', 'UDF_T2', 'SMC_A1', 'SMC_T1', 'WFI_A1', 'WFI_T1', 'WFI_T2', 'WFE_A1', 'WFE_T1', 'WFE_T2',
              'MCR_A1', 'MCR_T1', 'MRC_A1', 'MRC_T1', 'CDP_A1', 'CDP_T1', 'LDR_imm_A1', 'LDR_imm_T1', 'STR_imm_A1', 'LDM_A1', 'BKPT_A1', 'BKPT_T1']


def entry_tweak(rng, row, w, case):
    st_ = case['state']
    cfg = diff.full_cfg(case['cfg'])
    if cfg['have_virt_ext'] and rng.random() < 0.7:
        st_['hcr'] = (st_.get('hcr', 0) & ~((1 << 13) | (1 << 14) | (1 << 19) | (1 << 27) | 1)) | (rng.getrandbits(1) << 13) | (rng.getrandbits(1) << 14) | \
            (rng.getrandbits(1) << 19) | ((1 if rng.random() < 0.3 else 0) << 27)            # TWI, TWE, TSC, TGE
        st_['hcptr'] = rng.getrandbits(14)
    if row.name.startswith(('LDR', 'STR', 'LDM')):
        mode = gen.MODE_NAME[st_['cpsr'] & 31]
        f = row.extract(w)
        if isinstance(f.get('n'), int) and f['n'] <= 14:
            st_[gen.bank_key(f['n'], mode)] = rng.choice((gen.DATA[0] + 0x41, gen.DATA[0] + 0x42, gen.DATA[0] + 0x40))     # unaligned: alignment Data Abort with SCTLR.A
        st_['sctlr'] |= 2


def entry_classify(res, case):
    return ['entry:' + res.status] if res.status in ('undef', 'svc', 'smc', 'hyptrap', 'abort') else []


ENTRY_PLAN = e1prop.Plan('C11', ENTRY_ROWS, cfgs=('v6', 'v6-nosec', 'v7-virt', 'v7-virt', 'v7', 'v7-virt-hsr', 'v7-virt-hsr2'), classify=entry_classify,
                         nontrivial=lambda res: res.status in ('undef', 'svc', 'smc', 'hyptrap', 'abort'), tweak_case=entry_tweak,
                         case_kw=lambda rng, row: {'mpu': False, 'mmu': False, 'code_base': rng.choice((0x8000, 0x8000, 0xFFFFFF00, 0x7FFFFF80))}, hooked=(False, True))


def run(ctx):
    ctx.rule = ('Direct calls of Registers.take_{undef_instr,svc,smc,data_abort,physical_irq,physical_fiq,hyp_trap}_exception and ArmV6.take_reset on '
                'configurations with/without Security and Virtualization Extensions. For each kind the bits its routing / masking / T,E / vector-base rule '
                'reads (CPSR.T, SCTLR.{V,TE,EE,VE}, SCR.{NS,EA,IRQ,FIQ,AW,FW}, HCR.{TGE,IMO,FMO}, HSCTLR.{TE,EE}, alignment flag) and every source mode '
                'are enumerated completely (thorough; a 35% stratified sample in quick); all other state (A/I/F, IT, flags, E, other SCTLR/SCR/HCR bits, '
                'VBAR/MVBAR/HVBAR, PC incl. 0 / 2^32 edges, all banked registers and SPSRs) is random per cell. Oracle: the entry rules of '
                'vf/ref/machine.py written from B1.9 (target mode, SPSR, LR/ELR_hyp, masks, IT/J cleared, T/E source, vector, SCR.NS cleared from Monitor mode) '
                'plus the frame condition. Plus the same entries caused by instructions (SVC, UDF, SMC, BKPT, WFI/WFE/coprocessor accesses trapped by HCR.{TWI,TWE,TSC,TGE}/HCPTR, undefined coprocessor accesses, loads/stores taking an alignment abort) stepped through emulate_cycle() and compared with the reference step on the complete state. Non-trivial: everything except the one combination the suite covers; distinct = (kind, config, mode, bits, PC).')
    ctx.technique = 'exhaustive enumeration of routing bits x random remaining state, differential against a table-driven reference'
    ctx.assumptions = ['vf/ref/machine.py exception entry is a faithful reading of DDI 0406C B1.8-B1.9', 'external / asynchronous aborts are not generated (armulator hard-wires them off)']
    tasks = []
    k = 0
    for kind in BITS:
        for cfgname in CFGS + (['v6-vec'] if kind in ('irq', 'fiq', 'reset') else []):
            for part in range(2):
                tasks.append((shard, (kind, cfgname, part, 2, ctx.shard_seed(k), ctx.n(0.35, 1.0))))
                k += 1
    tasks += [(e1prop.shard, ('vf.props.c11:ENTRY_PLAN', ctx.shard_seed(700 + i), ctx.n(250, 5000))) for i in range(8)]
    tasks += e1prop.history_tasks(ctx, 'vf.props.c11:ENTRY_PLAN', quick=250)
    ctx.pmap(_dispatch, tasks)
    ctx.acc.exhaustive = not ctx.quick
    ctx.acc.extra['enumerated_bits_per_kind'] = {k: ['%s<%s>' % b for b in v] for k, v in BITS.items()}


def _dispatch(fn, args):
    return fn(*args)


def replay(case, bucket=None):
    if 'poke' in case:
        return e1prop.replay(ENTRY_PLAN, case)
    cfgname, kind = case['cfgname'], case['kind']
    cfg = diff.full_cfg(gen.CONFIGS[cfgname])
    cpu = target.new_cpu(gen.CONFIGS[cfgname], False, [(0, 0x40)])
    target.apply_state(cpu, {k: v for k, v in case['state'].items() if k not in ('wfe', 'wfi', 'cplog')})
    pre = target.snapshot(cpu, False)
    M = Machine(pre, [], cfg)
    r = cpu.registers
    fn = {'undef': (r.take_undef_instr_exception, M.take_undef), 'svc': (r.take_svc_exception, M.take_svc), 'smc': (r.take_smc_exception, M.take_smc),
          'irq': (r.take_physical_irq_exception, M.take_irq), 'fiq': (r.take_physical_fiq_exception, M.take_fiq),
          'hyptrap': (r.take_hyp_trap_exception, M.take_hyp_trap), 'reset': (cpu.take_reset, M.take_reset)}
    if kind == 'dabort':
        al = case.get('alignment')
        ext, asy, dbg, s2 = (bool(x) for x in case.get('abort_flags', (0, 0, 0, 0)))
        r.is_external_abort, r.is_async_abort, r.debug_exception = (lambda v=ext: v), (lambda v=asy: v), (lambda v=dbg: v)
        r.take_data_abort_exception(DataAbortException(DAbort.ALIGNMENT if al else DAbort.PERMISSION, s2))
        M.take_data_abort(Abort('alignment' if al else 'permission', 0, False, {'s2': s2}), external=ext, asynchronous=asy, debug=dbg)
    else:
        fn[kind][0]()
        fn[kind][1]()
    d = diff.compare(M, target.snapshot(cpu, False), pre)
    return [str(sorted(d))] if d else []
