"""C06 — ARM decode: every 32-bit word maps to the architectural instruction (class selection exhaustive by joint path
enumeration; operands compared with the reference operand decode on members of every region)."""
from vf.props import decode_check as chk
from vf.ref.enc_arm import ARM

from armulator.armv6.opcodes.decoders import arm_instruction_set


def decoder(w):
    return arm_instruction_set.decode_instruction(w)


def randword(rng):
    w = rng.getrandbits(32)
    if rng.random() < 0.5:
        w = (w | 0xE0000000) & 0xEFFFFFFF
    return w


SPEC = chk.Spec('C06', 32, ARM, decoder, False, popcount_rows=('POP_A1', 'PUSH_A1'), randword=randword)


# decode must depend on nothing but the word (and the carry flag / IT position where the architecture says so) ALSO when the word is decoded by a
# running processor: the same word executed twice by one instance - at another address, and again at the same address (a loop) - with different
# flags / IT state in between; every step compared with the reference (e1prop.shard_repeat)
from vf.props import e1prop as _e1p  # noqa: E402
from vf.ref import step as _rstep  # noqa: E402,F401
from vf.ref.core import REG as _REG  # noqa: E402
PLAN_REPEAT = _e1p.Plan('C06', sorted(n for n in _REG if n in _e1p.ROWS and _e1p.ROWS[n][0] in ('arm',)), cfgs=('v6', 'v7', 'v5'),
                        case_kw=lambda rng, row: {'mpu': False, 'mmu': False, 'e': 0}, hooked=(False, True))


# "the result depends on no run-time state other than the word itself (and the carry flag where the architecture says so)": every ARM row with an
# immediate-shifted register operand, half of the words forced to RRX (type 11, imm5 0) - the one shifter operand whose VALUE takes APSR.C in - executed on
# both flavours (the hooked one observes what hints are given to the memory system) and compared with the reference
def _rrx(row, w, entropy):
    if (entropy >> 3) & 1 and 't' in row.fields and 'i' in row.fields and len(row.fields['t']) == 2 and len(row.fields['i']) == 5:
        for k_, v in (('t', 3), ('i', 0)):
            for j, p_ in enumerate(reversed(row.fields[k_])):
                w = (w & ~(1 << p_)) | (((v >> j) & 1) << p_)
    return w


PLAN_CARRY = _e1p.Plan('C06', sorted(n for n in _REG if n in _e1p.ROWS and _e1p.ROWS[n][0] == 'arm' and len(_e1p.ROWS[n][1].fields.get('t', ())) == 2
                                     and len(_e1p.ROWS[n][1].fields.get('i', ())) == 5), cfgs=('v6', 'v7'), tweak_word=_rrx, hooked=(True, False),
                       case_kw=lambda rng, row: {'mpu': False, 'mmu': False, 'e': 0})


def run(ctx):
    ctx.rule = ('Class selection: all paths of arm_instruction_set.decode_instruction are enumerated with a provenance-tracking int '
                'jointly with the reference encoding table (vf/ref/enc_arm.py, rows written from DDI 0406C); on every joint region '
                '(a set of words on which both are constant) the armulator class must be the one the table names, UNDEFINED rows must end '
                'undefined, unimplemented-extension rows undefined or NotImplementedError. The witness plus N solver-generated members of '
                'each region are executed (N=24 quick, 400 thorough), and random words are compared directly (independent of '
                'the enumeration). For defined rows every reference operand (vf/ref/sem.py decode stage) is compared with the attributes '
                'of the object from_bitarray returns, under several processor states. Operand paths: the provenance-tracking word is pushed through from_bitarray of the selected class and every branch there is negated in turn (up to 300 / 3000 paths per class-selection path); every path witness is compared. Field corners: for every reference row, words in which one field takes a corner value (0, 1, max, max-1, single bits) and the others are random. Running decode: the same word executed twice by one instance (elsewhere and at the same address) with different flags / IT state in between, every step compared with the reference. History independence: one long-lived instance decodes a word in ARM '
                'state, the same numeric word in Thumb state and again in ARM state; each answer must equal the stateless decoder. Non-trivial: the reference row is a defined '
                'instruction; distinct = distinct word.')
    ctx.technique = 'concolic path enumeration as a generator + differential testing against reference encoding tables'
    ctx.assumptions = ['vf/ref/enc_arm.py is a faithful transcription of the ARM encoding diagrams',
                       'answers valid for some supported architecture variant are accepted (DESIGN.md 3.2 rule 7)']
    ns = 16
    SPEC.compute_joint()
    tasks = [(chk.region_shard, ('vf.props.c06:SPEC', i, ns, ctx.shard_seed(i), ctx.n(24, 400))) for i in range(ns)]
    tasks += [(chk.random_shard, ('vf.props.c06:SPEC', ctx.shard_seed(100 + i), ctx.n(6000, 150000))) for i in range(16)]
    tasks += [(chk.history_shard, ('vf.props.c06:SPEC', 'vf.props.c07:SPEC32', ctx.shard_seed(300 + i), ctx.n(3000, 60000))) for i in range(4)]
    tasks += [(chk.corner_shard, ('vf.props.c06:SPEC', i, 16, ctx.shard_seed(500 + i), ctx.n(4, 40))) for i in range(16)]
    for k, cn in enumerate(('v5', 'v7', 'v4', 'v7-vfp')):
        tasks += [(chk.corner_shard, ('vf.props.c06:SPEC', i, 8, ctx.shard_seed(700 + 20 * k + i), ctx.n(2, 20), cn)) for i in range(8)]
    tasks += [(chk.cp15_shard, ('vf.props.c06:SPEC', i, 4, ctx.shard_seed(1400 + i))) for i in range(4)]
    tasks += [(chk.undef_shard, ('vf.props.c06:SPEC', cn, ctx.shard_seed(1200 + k), ctx.n(40, 600))) for k, cn in enumerate(('v7-mp', 'v7-virt', 'v7-tee', 'v7r', 'v7-vfp'))]
    tasks += [(_e1p.shard_repeat, ('vf.props.c06:PLAN_REPEAT', ctx.shard_seed(900 + i), ctx.n(150, 3000))) for i in range(8)]
    tasks += _e1p.history_tasks(ctx, 'vf.props.c06:PLAN_REPEAT', quick=250)
    tasks += [(_e1p.shard, ('vf.props.c06:PLAN_CARRY', ctx.shard_seed(1300 + i), ctx.n(150, 3000))) for i in range(8)]
    tasks += [(chk.operand_path_shard, ('vf.props.c06:SPEC', i, 16, ctx.shard_seed(1000 + i), ctx.n(300, 3000))) for i in range(16)]
    ctx.pmap(_dispatch, tasks)
    ctx.acc.exhaustive = True
    ctx.acc.extra['exhaustive_part'] = 'class selection over all 2^32 words via the joint region partition'


def _dispatch(fn, args):
    return fn(*args)


def replay(case, bucket=None):
    if 'poke' in case:
        return _e1p.replay_multi(case)
    if case.get('kind') == 'history':
        from vf.props import c07
        return chk.replay_history(SPEC, c07.SPEC32, case['word'])
    return chk.replay_word(SPEC, case['word'], case.get('cfg'))
