"""C13 — memory access model: endianness, alignment policy, exact byte footprint (direct calls of the MemA/MemU
accessors over the complete configuration matrix + instruction-level cases + endianness-independent fetch)."""
import itertools
import random

from vf import gen, e1, target, diff
from vf.runner import Acc
from vf.props import e1prop
from vf.ref.machine import Machine, Abort, Unpred, Skip, M32
from vf.ref import step  # noqa: F401
from vf.ref.core import REG

from armulator.armv6.arm_exceptions import DataAbortException

LAYOUT = [(0, 0x40), (0x1000, 0x40), (0xFFFFFFC0, 0x40), (0x1040, 0x40), (0x1060, 0x40)]   # the fifth overlaps the tail of the fourth (first match wins) and has 0x1080.. to itself          # the last one abuts the second: split accesses cross from one device into the next
BASES = [('mid', 0x1010), ('device-end', 0x1040 - 16), ('top-of-memory', 0xFFFFFFF0), ('zero', 0x0), ('across-devices', 0x1040 - 4), ('overlap', 0x1068)]
ACCESSORS = ['mem_a', 'mem_u', 'mem_u_unpriv']


def configs():
    out = []
    for arch in (5, 6, 7):
        for u in ((0, 1) if arch == 6 else ((1,) if arch == 7 else (0,))):
            for a in (0, 1):
                out.append(({'arch_version': arch}, a, u, None))
    out.append(({'arch_version': 7, 'memory_system_architecture': 'VMSA', 'have_lpae': True, 'have_virt_ext': True}, 0, 1, 0))
    out.append(({'arch_version': 7, 'memory_system_architecture': 'VMSA', 'have_lpae': True, 'have_virt_ext': True}, 0, 1, 1))
    # Hyp mode with its stage-1 MMU on, everything mapped flat as Normal memory (bit 1 of the last element): only HSCTLR.A decides about unaligned accesses
    # there, whatever SCTLR.A of the PL1&0 regime says
    for a in (0, 1):
        for ha in (2, 3):
            out.append(({'arch_version': 7, 'memory_system_architecture': 'VMSA', 'have_lpae': True, 'have_virt_ext': True}, a, 1, ha))
    return out


def cell(acc, rng, cfgov, a, u, hsctlr_a, size, off, basename, base, big, acc_name, mode, iswrite, mpu=0):
    cfg = diff.full_cfg(cfgov)
    hyp = hsctlr_a is not None
    cpu = target.new_cpu(cfgov, hyp, LAYOUT)          # Hyp cells on the hooked flavour: reporting a fault to Hyp mode needs the TLB-maintenance hook
    target.budget_cpu(cpu, hyp)
    st_ = {'cpsr': gen.cpsr_value(m=gen.MODES['hyp' if hyp else mode], e=big, nzcvq=rng.getrandbits(5)),
           'sctlr': (a << 1) | (u << 22), 'R.PC': 0x1000}
    if hyp:
        st_['scr'] = 1
        st_['hsctlr'] = ((hsctlr_a & 1) << 1) | (hsctlr_a >> 1)
        if hsctlr_a & 2:
            st_.update({'httbr': 0x20, 'htcr': 0, 'hmair0': 0xFF, 'hmair1': 0})
        st_['hcr'] = rng.choice((0, 1 << 12, (1 << 12) | 1, 1))          # HCR.DC / VM do not apply to Hyp-mode accesses: still Strongly-ordered, still faulting when split
    if mpu:
        # PMSA: region 0 everything RW; region 1 (higher priority) covers the mid device with AP = privileged-only (1) or user-read-only (2)
        st_['sctlr'] |= 1
        st_['mpuir'] = 12 << 8
        st_['drsrs[0]'] = (31 << 1) | 1
        st_['drbars[0]'] = 0
        st_['dracrs[0]'] = 3 << 8
        st_['drsrs[1]'] = (5 << 1) | 1          # 64 bytes at 0x1000
        st_['drbars[1]'] = 0x1000
        st_['dracrs[1]'] = mpu << 8
    fill = [bytes(rng.getrandbits(8) for _ in range(n)) for _, n in LAYOUT]
    if hyp and hsctlr_a & 2:
        # four level-1 block descriptors (1 GiB each, identity, read/write, access flag set, attribute index 0 = Normal write-back) at 0x20
        tbl = b''.join(((g << 30) | (1 << 10) | (1 << 6) | 1).to_bytes(8, 'little') for g in range(4))
        fill[0] = fill[0][:0x20] + tbl
    for i, b in enumerate(fill):
        st_['mem%d' % i] = b
    target.apply_state(cpu, st_)
    addr = (base + off) & M32
    value = rng.getrandbits(8 * size)
    if rng.random() < 0.3:
        value = int.from_bytes(bytes(range(1, size + 1)), 'little')
    pre = target.snapshot(cpu)
    M = Machine(pre, LAYOUT, cfg, hyp)
    # reference
    try:
        if acc_name == 'mem_a':
            want = M.mem_a_cur(addr, size, value if iswrite else None)
        elif acc_name == 'mem_u':
            want = M.mem_u(addr, size, None, value if iswrite else None)
        else:
            want = M.mem_u(addr, size, False, value if iswrite else None)
        ref = ('ok', want)
    except Abort as ab:
        try:
            M.report_abort(ab)
            ref = ('abort', ab.kind)
        except Exception as e:
            ref = ('skip', repr(e))
    except (Unpred, Skip) as e:
        ref = ('skip', str(e))
    # armulator
    try:
        fn = {'mem_a': (cpu.mem_a_get, cpu.mem_a_set), 'mem_u': (cpu.mem_u_get, cpu.mem_u_set),
              'mem_u_unpriv': (cpu.mem_u_unpriv_get, cpu.mem_u_unpriv_set)}[acc_name]
        if iswrite:
            fn[1](addr, size, value)
            got = ('ok', None)
        else:
            got = ('ok', fn[0](addr, size))
    except DataAbortException as e:
        got = ('abort', e.abort_type.name.lower())
    except Exception as e:
        got = ('notimpl', repr(e)) if target.escape_ok(e) else ('host-error', repr(e))
    post = target.snapshot(cpu)
    key = (cfgov.get('arch_version'), hyp, a, u, hsctlr_a, size, off, basename, big, acc_name, mode, iswrite, mpu)
    unaligned = addr % size != 0
    nontriv = unaligned or big or size == 8 or basename != 'mid' or mpu
    acc.case(nontriv and ref[0] != 'skip', key + (value,), cls='%s/%s' % (acc_name, 'w' if iswrite else 'r'),
             sample=lambda: {'arch': cfgov.get('arch_version'), 'A': a, 'U': u, 'E': big, 'size': size, 'address': '%#x' % addr, 'accessor': acc_name,
                             'write': iswrite, 'reference': list(ref), 'armulator': list(got)})
    acc.cls('ref:' + ref[0] + (':' + str(ref[1]) if ref[0] == 'abort' else ''))
    if ref[0] == 'skip':
        acc.excluded += 1
        if got[0] == 'host-error':
            acc.violation('C13:host-error', {'cell': list(key), 'value': value}, {'got': list(got)})
        return
    bad = None
    if got[0] != ref[0] or (ref[0] == 'ok' and not iswrite and got[1] != ref[1]) or (ref[0] == 'abort' and got[1] != ref[1]):
        bad = {'reference': list(ref), 'armulator': list(got)}
    else:
        d = diff.compare(M, post, pre)
        if d:
            bad = {'state(expected,observed)': e1.fmt_diff(d)}
    if not bad and ref[0] == 'ok' and iswrite:
        # store-then-load round trip through armulator returns the stored value
        try:
            if basename == 'overlap':
                cpu.mem_a_get(0x1090, 1)          # an access to the overlapping device's own part in between: the load below still belongs to the first match
            back = fn[0](addr, size)
            if back != value:
                bad = {'round_trip': [value, back]}
        except Exception as e:
            bad = {'round_trip_exception': repr(e)}
    if bad:
        label = 'arch%s:%s:%s:size%d:%s' % (cfgov.get('arch_version'), acc_name, 'w' if iswrite else 'r', size, 'E1' if big else 'E0')
        acc.violation('C13:' + label, {'cell': list(key), 'value': value, 'fill': [f.hex() for f in fill], 'cfg': cfgov}, bad)


def shard_matrix(part, nparts, seed, reps):
    acc = Acc()
    rng = random.Random(seed)
    i = 0
    for (cfgov, a, u, ha), size, off, (bn, base), big, acc_name, mode, iswrite in itertools.product(
            configs(), (1, 2, 4, 8), range(8), BASES, (0, 1), ACCESSORS, ('svc', 'usr'), (False, True)):
        i += 1
        if i % nparts != part:
            continue
        for _ in range(reps):
            cell(acc, rng, cfgov, a, u, ha, size, off, bn, base, big, acc_name, mode, iswrite)
        if ha is None and bn == 'mid':
            # the same cell with the MPU on: privileged-only / user-read-only region (the privilege of every byte of a split access matters)
            for mpu in (1, 2):
                cell(acc, rng, cfgov, a, u, ha, size, off, bn, base, big, acc_name, mode, iswrite, mpu)
    acc.exhaustive = True
    return acc


def shard_fetch(seed, count):
    """the same program decodes to the same instructions with CPSR.E = 0 and 1 (fetch is always little-endian)"""
    acc = Acc()
    rng = random.Random(seed)
    rows = [n for n in e1prop.ROWS if n.startswith(('ADD_imm', 'SUB_imm', 'MOV_imm', 'AND_reg', 'EOR_imm', 'ORR_imm', 'LSL_imm', 'MVN_imm'))]
    for _ in range(count):
        name = rows[rng.randrange(len(rows))]
        tn, row = e1prop.ROWS[name]
        w = e1prop.build_word(row, rng.getrandbits(32), 0)
        thumb = tn != 'arm'
        if not thumb:
            w = (w & 0x0FFFFFFF) | (0xE << 28)
        code = e1.enc_arm(w) if not thumb else e1.enc_thumb(w, tn == 't32') + b'\x00\xbf'
        case = gen.step_case(rng, rng.choice(('v6', 'v7')), thumb, code, e=0, it=0, mpu=False, code_base=0x8000)
        c2 = dict(case)
        c2['state'] = dict(case['state'])
        c2['state']['cpsr'] |= 1 << 9
        r1 = e1.run(case)
        r2 = e1.run(c2)
        p1, p2 = dict(r1[2][0]), dict(r2[2][0])
        p2['cpsr'] &= ~(1 << 9)
        for k in list(p2):
            if k.startswith('spsr_'):
                p1[k] = p2[k] = 0
        d = {k: (p1[k], p2[k]) for k in p1 if p1[k] != p2[k]}
        took_exc = p1['R.PC'] != ((r1[1]['R.PC'] + len(code if not thumb else code[:-2])) & 0xFFFFFFFF)
        acc.case(True, ('fetch', w, case['state']['cpsr']), cls='fetch-E-independent', sample={'row': name, 'word': '%#x' % w})
        if d and not took_exc:
            acc.violation('C13:fetch-depends-on-E:' + e1prop.sig(d), case, {'E0_vs_E1': e1.fmt_diff(d)})
    return acc


# instruction-level: every load/store row (single, dual, exclusive, unprivileged, multiple) with the base aimed at every alignment under every
# (arch, SCTLR.A, SCTLR.U, CPSR.E) policy: the value that reaches the register (rotated legacy LDR, byte-reversed, sign-extended), the bytes
# written and the alignment fault are the instruction's, not the accessor's
LS_ROWS = sorted(n for n, (d, x) in REG.items() if x.__module__ in ('vf.ref.sem_ls', 'vf.ref.sem_lsm'))


def aim_unaligned(rng, row, w, case):
    f = row.extract(w)
    st = case['state']
    mode = gen.MODE_NAME[st['cpsr'] & 31]
    for fld in ('n', 'm'):
        if fld in f and isinstance(f[fld], int) and f[fld] <= 14:
            if fld == 'n':
                p = gen.DATA[0] + 0x40 + rng.randrange(0, 0x80)
                if rng.random() < 0.25:
                    p &= ~3
            else:
                if f.get('n') == f[fld]:
                    continue
                p = rng.choice((0, 1, 2, 3, 5, 6, 7, 9, 0x12, 0xFFFFFFFF, 0xFFFFFFFD, 0xFFFFFFF2))
            st[gen.bank_key(f[fld], mode)] = p & 0xFFFFFFFF
    if 'n' not in f:            # PUSH / POP: the stack pointer
        st[gen.bank_key(13, mode)] = gen.DATA[0] + 0x40 + rng.randrange(0, 0x80)


def classify_ls(res, case):
    out = []
    if res.status == 'abort':
        out.append('abort:' + str(res.detail))
    if res.status == 'ok' and res.cond_passed:
        out.append('E%d' % ((case['state']['cpsr'] >> 9) & 1))
        out.append('A%dU%d' % ((case['state']['sctlr'] >> 1) & 1, (case['state']['sctlr'] >> 22) & 1))
    return out


from vf.props.c03 import shape_list as _shape  # noqa: E402
PLAN = e1prop.Plan('C13', LS_ROWS, cfgs=('v6', 'v6', 'v7', 'v5', 'v6-nosec', 'v7-lpae'), classify=classify_ls,
                   # (MPU on with random regions in a quarter of the cases: fetches and accesses that abort with CPSR.E = 1 must report the interrupted E)
                   case_kw=lambda rng, row: {'mpu': (None if rng.random() < 0.25 else False), 'mmu': False, 'e': rng.getrandbits(1)}, tweak_case=aim_unaligned, tweak_word=_shape,
                   hooked=(False, False, True))


from vf.props import c02 as _c02  # noqa: E402
PLAN_DUAL = _c02.make_dual_plan('C13')


def _vmsa_plan():
    # the alignment policy under VMSA: unaligned accesses are checked byte by byte against the attributes of the page each byte lies in (Normal next to
    # Device / Strongly-ordered pages, permissions, missing pages) - C15's table builder and windows, judged here for the access model
    from vf.props import c15
    return e1prop.Plan('C13', c15.ROWS, cfgs=c15.PLAN.cfgs, classify=classify_ls, tweak_case=c15.tweak, hooked=(True, True, False),
                       nontrivial=lambda res: res.status == 'abort' or e1prop.default_nontrivial(res), case_kw=c15.PLAN.case_kw)


PLAN_VMSA = _vmsa_plan()


def _pmsa_plan():
    # ... and under PMSA: region boundaries are not page-aligned (32-byte regions, sub-regions), so an unaligned access can begin in a region that
    # permits it and end in one that does not - every byte is checked on its own. C14's region builder, judged here for the byte footprint
    from vf.props import c14
    rows = [r for r in c14.ROWS if r in set(LS_ROWS)]
    return e1prop.Plan('C13', rows, cfgs=('v7', 'v6', 'v7'), classify=classify_ls, tweak_case=c14.tweak,
                       nontrivial=lambda res: res.status == 'abort' or e1prop.default_nontrivial(res), case_kw=c14.PLAN.case_kw)


def __getattr__(name):
    # built on first use (vf.props.c14 imports modules that import this one)
    if name == 'PLAN_PMSA':
        globals()['PLAN_PMSA'] = _pmsa_plan()
        return globals()['PLAN_PMSA']
    raise AttributeError(name)


def run(ctx):
    ctx.rule = ('Direct calls of mem_a_get/set, mem_u_get/set, mem_u_unpriv_get/set for the complete matrix size {1,2,4,8} x address offset 0..7 x base '
                '{mid-device, just below a device end, just below 2^32 (wrap to 0), 0, across the boundary of two abutting devices, inside the overlap of two devices with an access to the other one between store and load} x CPSR.E x SCTLR.A x SCTLR.U (where the architecture version has '
                'the bit) x arch {5,6,7} x privileged/User (+ Hyp mode with HSCTLR.A on the virtualization config) x read/write (and, for the mid-device base, MPU off / privileged-only region / user-read-only region), with random data and '
                'random surrounding memory in every cell (N repetitions). Oracle: vf/ref/machine.py MemA/MemU (alignment fault / legacy align-down / '
                'byte-by-byte, BigEndianReverse, exact byte footprint via full memory comparison, DFSR/DFAR on faults) + store-then-load round trip. '
                'Plus: single instructions executed with CPSR.E=0 and 1 must decode identically (little-endian fetch). Plus: every load/store/load-store-multiple encoding row executed by emulate_cycle() with the base register at alignment 0..3 (75 % unaligned), CPSR.E random, SCTLR.A/U random per architecture version, compared with the reference interpreter on the complete state (rotated legacy LDR result, byte-reversed data, alignment aborts). Non-trivial: unaligned, or E=1, or '
                'size 8, or next to a device end / 2^32; distinct = (cell, data).')
    ctx.technique = 'exhaustive enumeration of the access-policy matrix with random data, differential against a reference memory model'
    ctx.assumptions = ['vf/ref/machine.py MemA/MemU is a faithful reading of DDI 0406C B2.4', 'accesses that overhang the end of a device are excluded (C16 covers them)']
    np_ = 16
    tasks = [(shard_matrix, (i, np_, ctx.shard_seed(i), ctx.n(2, 24))) for i in range(np_)]
    tasks += [(shard_fetch, (ctx.shard_seed(100 + i), ctx.n(800, 15000))) for i in range(4)]
    tasks += [(e1prop.shard, ('vf.props.c13:PLAN', ctx.shard_seed(200 + i), ctx.n(300, 6000))) for i in range(16)]
    tasks += [(e1prop.shard, ('vf.props.c13:PLAN_DUAL', ctx.shard_seed(300 + i), ctx.n(150, 3000))) for i in range(8)]
    tasks += e1prop.history_tasks(ctx, 'vf.props.c13:PLAN')
    tasks += [(e1prop.shard, ('vf.props.c13:PLAN_VMSA', ctx.shard_seed(500 + i), ctx.n(200, 4000))) for i in range(8)]
    tasks += [(e1prop.shard, ('vf.props.c13:PLAN_PMSA', ctx.shard_seed(600 + i), ctx.n(300, 6000))) for i in range(8)]
    ctx.pmap(_dispatch, tasks)
    for b, v in list(ctx.acc.viol.items()):
        if isinstance(v['case'], dict) and 'poke' in v['case']:
            try:
                v['case'] = e1prop.minimise(PLAN, v['case'], b)
            except Exception:
                pass
    ctx.acc.exhaustive = True
    ctx.acc.extra['exhaustive_part'] = 'configuration matrix cells (data and surrounding memory sampled)'


def _dispatch(fn, args):
    return fn(*args)


def replay(case, bucket=None):
    if 'cell' in case:
        arch, hyp, a, u, ha, size, off, bn, big, acc_name, mode, iswrite = case['cell'][:12]
        mpu = case['cell'][12] if len(case['cell']) > 12 else 0
        cfgov = case['cfg']
        base = dict(BASES)[bn]
        acc = Acc()
        for s in range(20):
            cell(acc, random.Random(s), cfgov, a, u, ha, size, off, bn, base, big, acc_name, mode, iswrite, mpu)
        return sorted(acc.viol)
    if bucket and bucket.startswith('C13:fetch-depends'):
        r = diff.run(case)
        return [e1prop.sig(r.diffs)] if r.diffs else []
    return e1prop.replay(PLAN, case)
