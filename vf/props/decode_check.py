"""Generic decode check used by C06 (ARM) and C07 (Thumb): joint path enumeration + region members + random words."""
import random

from vf import target
from vf.runner import Acc
from vf.props import decode_common as dc
from vf.props import operands as opnd
from vf.ref.enc import UNDEF, NOTIMPL, UNPRED, NOPISH, decode as table_decode


class Spec:
    def __init__(self, prop, nbits, table, decoder, thumb, fixed=(), popcount_rows=(), skip=None, randword=None):
        self.prop, self.nbits, self.table, self.decoder, self.thumb = prop, nbits, table, decoder, thumb
        self.fixed, self.popcount_rows, self.skip, self.randword = list(fixed), popcount_rows, skip, randword
        self.joint = None

    def cpu(self, cfg=None):
        cpu = target.new_cpu(cfg)
        cpu.registers.cpsr.t = 1 if self.thumb else 0
        cpu.opcode_len = self.nbits
        return cpu

    def compute_joint(self):
        """done once in the parent before forking; shards inherit the result"""
        if self.joint is None:
            target.load_config(None)          # a decoder may consult the configuration: enumerate under the default one, like every concrete run
            ref_dec = dc.make_ref_dec(self.table, self.popcount_rows)
            self.joint = dc.joint_regions(self.decoder, ref_dec, self.nbits, self.fixed, self.skip)
        return self.joint


def check_word(acc, spec, cpu, w, a, row, label, rng, cfgov=None, strict=False):
    fo = [None]

    def full():
        if fo[0] is None:
            fo[0] = dc.full_outcome(spec.decoder, w, cpu, spec.nbits)
        return fo[0][0]
    ok, c = dc.compatible(a, row, full)
    defined = row is not None and row.cls not in (UNDEF, NOTIMPL, UNPRED, NOPISH, dc.HINTISH)
    fmt = '%#010x' if spec.nbits == 32 else '%#06x'
    acc.case(defined, (spec.nbits, w), cls=label,
             sample=lambda: {'word': fmt % w, 'armulator': a, 'reference_row': row.name if row else None})
    if not ok and cfgov is not None and strict and not (row is not None and row.cls in (NOTIMPL,)):
        # a configuration switch that only enables an unimplemented extension (VFP / SIMD present) must not change how words OUTSIDE that extension's
        # encoding space decode
        acc.violation('%s:class-under-%s:%s-vs-%s' % (spec.prop, strict, a, row.name if row else 'unallocated'),
                      {'word': w, 'nbits': spec.nbits, 'kind': 'class', 'cfg': cfgov}, {'armulator': a, 'expected': c, 'row': row.name if row else None})
        return
    if not ok and cfgov is not None:
        acc.cls('other-config:class-differs')        # class selection is decided on the default configuration (rule 7); here only operands
        return
    if not ok:
        acc.violation('%s:class:%s-vs-%s' % (spec.prop, a, row.name if row else 'unallocated'),
                      {'word': w, 'nbits': spec.nbits, 'kind': 'class'},
                      {'armulator': a, 'expected': c, 'row': row.name if row else None, 'after_from_bitarray': full()})
        return
    if defined:
        opnd.compare(acc, spec, cpu, w, row, rng, full, cfgov)


def get_spec(ref):
    import importlib
    mod, attr = ref.split(':')
    return getattr(importlib.import_module(mod), attr)


def region_shard(spec, idx, nshards, seed, per_region):
    spec = get_spec(spec)
    acc = Acc()
    rng = random.Random(seed)
    n_arm, joint = spec.compute_joint()
    cpu = spec.cpu()
    if idx == 0:
        acc.extra['armulator_regions_%d' % spec.nbits] = n_arm
        acc.extra['joint_regions_%d' % spec.nbits] = len(joint)
        used = {row.name for _, _, row, _ in joint if row is not None}
        acc.extra['reference_rows_%d' % spec.nbits] = len(spec.table)
        acc.extra['reference_rows_never_hit_%d' % spec.nbits] = [r.name for r in spec.table if r.name not in used]
    for j, (w, a, row, trace) in enumerate(joint):
        if j % nshards != idx:
            continue
        check_word(acc, spec, cpu, w, a, row, 'region-witness', rng)
        # other members of the region: both decoders must be constant on it (tracing-hole safety net) and compatible
        for m in dc.members(w, trace, spec.nbits, rng, per_region):
            a2 = dc.outcome_of(spec.decoder, m)
            row2, _ = table_decode(spec.table, m)
            if a2 != a or row2 is not row:
                # the partition is not what the traces promised (a decoder computed with a bit in a way the provenance tracking does not see). Before
                # calling that a harness error, judge the two concrete words on their own, untraced: a disagreement with the reference table on a
                # concrete word is a violation whatever the region machinery thought
                before = sum(acc.viol_n.values())
                aw = dc.outcome_of(spec.decoder, w)
                roww, _ = table_decode(spec.table, w)
                check_word(acc, spec, cpu, w, aw, roww, 'region-witness-rechecked', rng)
                check_word(acc, spec, cpu, m, a2, row2, 'region-member', rng)
                if sum(acc.viol_n.values()) == before:
                    acc.errors.append('region of %#x not constant: member %#x gives (%s, %s) vs (%s, %s)' % (
                        w, m, a2, row2.name if row2 else None, a, row.name if row else None))
                    return acc
                break
            check_word(acc, spec, cpu, m, a2, row2, 'region-member', rng)
    return acc


def random_shard(spec, seed, count):
    """independent of the path enumeration: random words compared directly"""
    spec = get_spec(spec)
    acc = Acc()
    rng = random.Random(seed)
    cpu = spec.cpu()
    for _ in range(count):
        w = spec.randword(rng)
        a = dc.outcome_of(spec.decoder, w)
        row, _ = table_decode(spec.table, w)
        check_word(acc, spec, cpu, w, a, row, 'random-word', rng)
    return acc


def corner_shard(spec, idx, nshards, seed, per_row, cfgname=None):
    """row-directed: for every reference row, words whose fields take corner values (0, 1, max, max-1, single bits) in every combination
    of "one field at a corner, the others random" - the special cases of operand extraction (imm5 == 0 means 32, rotation 0, register 15,
    all-ones register lists, ...) sit at these corners and a uniformly random word reaches each with probability 2^-width"""
    spec = get_spec(spec)
    acc = Acc()
    rng = random.Random(seed)
    cfgov = None
    if cfgname is not None:
        # operand extraction that depends on the architecture version (UNPREDICTABLE conditions, register restrictions): same words, other configuration
        from vf import gen
        cfgov = gen.CONFIGS[cfgname]
        target.load_config(cfgov)
    cpu = spec.cpu(cfgov)
    for j, row in enumerate(spec.table):
        if j % nshards != idx or row.cls in (UNDEF, NOTIMPL, UNPRED, NOPISH, dc.HINTISH):
            continue
        letters = sorted(row.fields)
        if cfgname == 'v7-vfp':
            # the strict pass: random members of every row as well (the question is whether ANY word of the row decodes differently)
            for _ in range(24 * per_row):
                w = row.build(**{l: rng.getrandbits(len(row.fields[l])) for l in letters})
                row2, _ = table_decode(spec.table, w)
                if row2 is row:
                    check_word(acc, spec, cpu, w, dc.outcome_of(spec.decoder, w), row, 'row-member:' + cfgname, rng, cfgov, strict=cfgname)
        for k in letters:
            width = len(row.fields[k])
            mx = (1 << width) - 1
            corners = sorted({0, 1, mx, mx - 1 if mx else 0, 1 << (width - 1), (1 << (width - 1)) - 1 if width > 1 else 0} | {1 << b for b in range(width)})
            for cv in corners:
                for _ in range(per_row):
                    f = {l: rng.getrandbits(len(row.fields[l])) for l in letters}
                    f[k] = cv
                    if rng.random() < 0.5:
                        k2 = rng.choice(letters)
                        f[k2] = rng.choice((0, (1 << len(row.fields[k2])) - 1))
                    w = row.build(**f)
                    row2, _ = table_decode(spec.table, w)
                    if row2 is not row:
                        acc.cls('corner:other-row-has-priority')
                        continue
                    a = dc.outcome_of(spec.decoder, w)
                    check_word(acc, spec, cpu, w, a, row, 'field-corner' + (':' + cfgname if cfgname else ''), rng, cfgov, strict=cfgname if cfgname == 'v7-vfp' else False)
    if cfgname is not None:
        target.load_config(None)
    return acc


PATH_MEMBERS = 3


def cp15_shard(spec, part, nparts, seed):
    """every CP15 register name (CRn, opc1, CRm, opc2) as MCR and as MRC word: coprocessor register transfers are one encoding whatever register they name
    (a table look-up on the operands creates no decoder path, so the names are enumerated); class, operands and the class of the object from_bitarray
    returns are checked like for any other word"""
    spec = get_spec(spec)
    acc = Acc()
    rng = random.Random(seed)
    cpu = spec.cpu()
    idx = 0
    for crn in range(16):
        for opc1 in range(8):
            for crm in range(16):
                for opc2 in range(8):
                    idx += 1
                    if idx % nparts != part:
                        continue
                    for load in (0, 1):
                        rt = rng.randrange(13)
                        w = 0xEE000F10 | (opc1 << 21) | (load << 20) | (crn << 16) | (rt << 12) | (opc2 << 5) | crm
                        if spec.skip and spec.skip(w):
                            continue
                        row, _ = table_decode(spec.table, w)
                        check_word(acc, spec, cpu, w, dc.outcome_of(spec.decoder, w), row, 'cp15-register-name', rng)
    return acc


def undef_shard(spec, cfgname, seed, per_row):
    """words of the UNDEFINED rows of the reference table under a configuration that switches an extension on (Multiprocessing, Virtualization, ThumbEE,
    VFP/SIMD, the R profile): what an extension adds lives in its own rows - a word of an UNDEFINED row stays UNDEFINED whatever is configured"""
    from vf import gen
    spec = get_spec(spec)
    acc = Acc()
    rng = random.Random(seed)
    cfgov = gen.CONFIGS[cfgname]
    target.load_config(cfgov)
    try:
        cpu = spec.cpu(cfgov)
        for row in spec.table:
            if row.cls != UNDEF:
                continue
            letters = sorted(row.fields)
            for _ in range(per_row):
                w = row.build(**{l: rng.getrandbits(len(row.fields[l])) for l in letters})
                if spec.skip and spec.skip(w):
                    continue
                row2, _ = table_decode(spec.table, w)
                if row2 is row:
                    check_word(acc, spec, cpu, w, dc.outcome_of(spec.decoder, w), row, 'undefined-row-member:' + cfgname, rng, cfgov, strict=cfgname)
        # the UNDEFINED words next to real encodings: members of every other row with ONE fixed bit flipped that land in an UNDEFINED row (the catch-all
        # rows are wide; the words a decoder change is likely to touch are the neighbours of the encodings it handles)
        for row in spec.table:
            if row.cls == UNDEF:
                continue
            letters = sorted(row.fields)
            fixed_bits = [b for b in range(row.n) if (row.mask >> b) & 1]
            for _ in range(max(2, per_row // 10)):
                w0 = row.build(**{l: rng.getrandbits(len(row.fields[l])) for l in letters})
                for b in fixed_bits:
                    w = w0 ^ (1 << b)
                    if spec.skip and spec.skip(w):
                        continue
                    row2, _ = table_decode(spec.table, w)
                    if row2 is not None and row2.cls == UNDEF:
                        check_word(acc, spec, cpu, w, dc.outcome_of(spec.decoder, w), row2, 'undefined-neighbour:' + cfgname, rng, cfgov, strict=cfgname)
    finally:
        target.load_config(None)
    return acc


def operand_path_shard(spec, idx, nshards, seed, limit):
    """paths THROUGH from_bitarray: for every path of the class-selection decoder, the provenance-tracking word is pushed on through the selected
    class's from_bitarray (operand extraction, its special cases - imm5 == 0, Rd == SP with LSL #0..3, register-list counts - and its UNPREDICTABLE
    tests), every branch there is negated in turn, and the witness of every resulting path is compared with the reference operand decode. A special
    case somebody adds to (or drops from) one encoding creates (or removes) a path here, however few words it covers. Thumb: enumerated outside an
    IT block and inside one (decode reads the IT position)."""
    from vf.sym import sym
    spec = get_spec(spec)
    acc = Acc()
    rng = random.Random(seed)
    dc.patch()
    cpu = spec.cpu()
    regions = [(w, tr, o) for w, tr, o in sym.enumerate_paths(lambda w: dc.outcome_of(spec.decoder, w), spec.nbits, fixed=list(spec.fixed))]
    truncated = 0
    for j, (w0, tr, o) in enumerate(regions):
        if j % nshards != idx or o == 'None' or o.startswith('EXC'):
            continue
        for it in ((0, 0x44) if spec.thumb else (0,)):
            cpu.registers.cpsr.value = (cpu.registers.cpsr.value & ~0x0600FC00) | ((it & 3) << 25) | ((it >> 2) << 10)
            n = 0
            try:
                for w, _tr2, _out in sym.enumerate_paths(lambda x: dc.full_outcome(spec.decoder, x, cpu, spec.nbits)[0], spec.nbits, pre=list(tr), fixed=list(spec.fixed),
                                                         limit=limit):
                    n += 1
                    if spec.skip and spec.skip(w):
                        continue
                    a = dc.outcome_of(spec.decoder, w)
                    row, _ = table_decode(spec.table, w)
                    check_word(acc, spec, cpu, w, a, row, 'operand-path', rng)
                    # other members of the same path (same decisions, the bits no decision looked at drawn at random): a condition that is missing from
                    # a test - a special case that forgot one of its conjuncts - creates no path of its own, it makes one path too wide
                    for wm in dc.members(int(w), list(_tr2) + list(spec.fixed), spec.nbits, rng, PATH_MEMBERS):
                        if wm == int(w) or (spec.skip and spec.skip(wm)):
                            continue
                        rowm, _ = table_decode(spec.table, wm)
                        check_word(acc, spec, cpu, wm, dc.outcome_of(spec.decoder, wm), rowm, 'operand-path-member', rng)
                    for w3 in sym.boundary_words(int(w), list(sym.HINTS), spec.nbits):
                        if spec.skip and spec.skip(w3):
                            continue
                        row3, _ = table_decode(spec.table, w3)
                        check_word(acc, spec, cpu, w3, dc.outcome_of(spec.decoder, w3), row3, 'comparison-boundary', rng)
            except AssertionError:
                acc.cls('operand-path:tracer-gave-up')          # prefix mismatch: the traced run is not deterministic for this class; its region witnesses still run
            if n >= limit:
                truncated += 1
            # ... and the paths of the REFERENCE operand decode inside the same class-selection region: a special case armulator lacks does not split
            # armulator's paths, but it splits the reference's (Rd == SP allows LSL #0..#3: the reference compares the amount with 3)
            try:
                for w2, _tr3, _o3 in sym.enumerate_paths(lambda x: opnd.ref_outcome(spec, x, cpu.registers.cpsr.value), spec.nbits,
                                                         fixed=list(spec.fixed) + list(tr), limit=max(limit // 2, 100)):
                    if spec.skip and spec.skip(w2):
                        continue
                    row2, _ = table_decode(spec.table, w2)
                    check_word(acc, spec, cpu, w2, dc.outcome_of(spec.decoder, w2), row2, 'reference-operand-path', rng)
                    for w3 in sym.boundary_words(int(w2), list(sym.HINTS), spec.nbits):
                        if spec.skip and spec.skip(w3):
                            continue
                        row3, _ = table_decode(spec.table, w3)
                        check_word(acc, spec, cpu, w3, dc.outcome_of(spec.decoder, w3), row3, 'comparison-boundary', rng)
            except AssertionError:
                acc.cls('operand-path:reference-tracer-gave-up')
    acc.extra['operand_path_regions_truncated_%d' % spec.nbits] = truncated
    return acc


def replay_word(spec, w, cfgov=None):
    acc = Acc()
    if cfgov is not None:
        target.load_config(cfgov)
    try:
        cpu = spec.cpu(cfgov)
        a = dc.outcome_of(spec.decoder, w)
        row, _ = table_decode(spec.table, w)
        strict = 'v7-vfp' if (cfgov or {}).get('have_adv_simd_or_vfp') else ('extension' if cfgov else False)
        for sd in range(4):          # the operand comparison draws flags / IT position: a few draws
            check_word(acc, spec, cpu, w, a, row, 'replay', random.Random(sd), cfgov, strict=strict)
    finally:
        if cfgov is not None:
            target.load_config(None)
    return sorted(acc.viol)


def history_shard(spec_ref, other_ref, seed, count):
    """decode depends on nothing but the word (and the current instruction set): ONE long-lived instance decodes a word through
    ArmV6.decode_instruction() in this instruction set, then the same numeric word in the other instruction set, then again in this
    one - after having decoded many other words before; every answer must equal the stateless decoder's answer"""
    spec = get_spec(spec_ref)
    other = get_spec(other_ref)
    acc = Acc()
    rng = random.Random(seed)
    cpu = spec.cpu()
    n_arm, joint = spec.compute_joint()
    words = [w for w, a, row, tr in joint]

    def via_instance(sp, w):
        cpu.registers.cpsr.t = 1 if sp.thumb else 0
        cpu.opcode = w
        cpu.opcode_len = sp.nbits
        try:
            r = cpu.decode_instruction(w)
        except NotImplementedError:
            return 'EXC:NotImplemented'
        except Exception as e:
            return 'EXC:' + type(e).__name__
        return r.__name__ if isinstance(r, type) else 'None'
    for _ in range(count):
        w = rng.choice(words) if rng.random() < 0.8 else spec.randword(rng)
        if spec.nbits == 32 and not spec.thumb and rng.random() < 0.5:
            w = (w & 0x0FFFFFFF) | (rng.choice((0xE, 0xF)) << 28)       # numeric range shared with 32-bit Thumb encodings
        seq = [(spec, via_instance(spec, w)), (other, via_instance(other, w)), (spec, via_instance(spec, w))]
        acc.case(True, ('hist', spec.nbits, spec.thumb, w), cls='history-independent-decode',
                 sample=lambda: {'word': '%#010x' % w, 'answers': [a for _, a in seq]})
        for i, (sp, got) in enumerate(seq):
            want = dc.outcome_of(sp.decoder, w)
            if got != want:
                acc.violation('%s:decode-depends-on-history:%s' % (spec.prop, 'arm' if not sp.thumb else 'thumb'),
                              {'word': w, 'nbits': spec.nbits, 'kind': 'history', 'step': i}, {'stateless': want, 'via_instance': got, 'sequence': [a for _, a in seq]})
                break
    return acc


def replay_history(spec, other, w):
    cpu = spec.cpu()
    out = []
    for sp in (spec, other, spec):
        cpu.registers.cpsr.t = 1 if sp.thumb else 0
        cpu.opcode, cpu.opcode_len = w, sp.nbits
        try:
            r = cpu.decode_instruction(w)
            got = r.__name__ if isinstance(r, type) else 'None'
        except NotImplementedError:
            got = 'EXC:NotImplemented'
        except Exception as e:
            got = 'EXC:' + type(e).__name__
        want = dc.outcome_of(sp.decoder, w)
        if got != want:
            out.append('%s vs %s' % (want, got))
    return out
