"""Generic decode check used by C06 (ARM) and C07 (Thumb): joint path enumeration + region members + random words."""
import random

from vf import target
from vf.runner import Acc
from vf.props import decode_common as dc
from vf.props import operands as opnd
from vf.ref.enc import UNDEF, NOTIMPL, UNPRED, NOPISH, decode as table_decode


class Spec:
    def __init__(self, prop, nbits, table, decoder, thumb, fixed=(), popcount_rows=(), skip=None, randword=None):
        self.prop, self.nbits, self.table, self.decoder, self.thumb = prop, nbits, table, decoder, thumb
        self.fixed, self.popcount_rows, self.skip, self.randword = list(fixed), popcount_rows, skip, randword
        self.joint = None

    def cpu(self, cfg=None):
        cpu = target.new_cpu(cfg)
        cpu.registers.cpsr.t = 1 if self.thumb else 0
        cpu.opcode_len = self.nbits
        return cpu

    def compute_joint(self):
        """done once in the parent before forking; shards inherit the result"""
        if self.joint is None:
            ref_dec = dc.make_ref_dec(self.table, self.popcount_rows)
            self.joint = dc.joint_regions(self.decoder, ref_dec, self.nbits, self.fixed, self.skip)
        return self.joint


def check_word(acc, spec, cpu, w, a, row, label, rng):
    fo = [None]

    def full():
        if fo[0] is None:
            fo[0] = dc.full_outcome(spec.decoder, w, cpu, spec.nbits)
        return fo[0][0]
    ok, c = dc.compatible(a, row, full)
    defined = row is not None and row.cls not in (UNDEF, NOTIMPL, UNPRED, NOPISH, dc.HINTISH)
    fmt = '%#010x' if spec.nbits == 32 else '%#06x'
    acc.case(defined, (spec.nbits, w), cls=label,
             sample=lambda: {'word': fmt % w, 'armulator': a, 'reference_row': row.name if row else None})
    if not ok:
        acc.violation('%s:class:%s-vs-%s' % (spec.prop, a, row.name if row else 'unallocated'),
                      {'word': w, 'nbits': spec.nbits, 'kind': 'class'},
                      {'armulator': a, 'expected': c, 'row': row.name if row else None, 'after_from_bitarray': full()})
        return
    if defined:
        opnd.compare(acc, spec, cpu, w, row, rng, full)


def get_spec(ref):
    import importlib
    mod, attr = ref.split(':')
    return getattr(importlib.import_module(mod), attr)


def region_shard(spec, idx, nshards, seed, per_region):
    spec = get_spec(spec)
    acc = Acc()
    rng = random.Random(seed)
    n_arm, joint = spec.compute_joint()
    cpu = spec.cpu()
    if idx == 0:
        acc.extra['armulator_regions_%d' % spec.nbits] = n_arm
        acc.extra['joint_regions_%d' % spec.nbits] = len(joint)
        used = {row.name for _, _, row, _ in joint if row is not None}
        acc.extra['reference_rows_%d' % spec.nbits] = len(spec.table)
        acc.extra['reference_rows_never_hit_%d' % spec.nbits] = [r.name for r in spec.table if r.name not in used]
    for j, (w, a, row, trace) in enumerate(joint):
        if j % nshards != idx:
            continue
        check_word(acc, spec, cpu, w, a, row, 'region-witness', rng)
        # other members of the region: both decoders must be constant on it (tracing-hole safety net) and compatible
        for m in dc.members(w, trace, spec.nbits, rng, per_region):
            a2 = dc.outcome_of(spec.decoder, m)
            row2, _ = table_decode(spec.table, m)
            if a2 != a or row2 is not row:
                acc.errors.append('region of %#x not constant: member %#x gives (%s, %s) vs (%s, %s)' % (
                    w, m, a2, row2.name if row2 else None, a, row.name if row else None))
                return acc
            check_word(acc, spec, cpu, m, a2, row2, 'region-member', rng)
    return acc


def random_shard(spec, seed, count):
    """independent of the path enumeration: random words compared directly"""
    spec = get_spec(spec)
    acc = Acc()
    rng = random.Random(seed)
    cpu = spec.cpu()
    for _ in range(count):
        w = spec.randword(rng)
        a = dc.outcome_of(spec.decoder, w)
        row, _ = table_decode(spec.table, w)
        check_word(acc, spec, cpu, w, a, row, 'random-word', rng)
    return acc


def replay_word(spec, w):
    acc = Acc()
    cpu = spec.cpu()
    a = dc.outcome_of(spec.decoder, w)
    row, _ = table_decode(spec.table, w)
    check_word(acc, spec, cpu, w, a, row, 'replay', random.Random(0))
    return sorted(acc.viol)
