"""Operand-extraction comparison for C06/C07: reference operand decode (vf/ref/sem.py) vs from_bitarray attributes."""


def compare(acc, spec, cpu, w, row, rng, full):
    return
