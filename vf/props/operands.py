"""Operand-extraction comparison for C06/C07: the reference operand decode (decode stage of vf/ref/sem_*.py) vs the
attributes of the object armulator's from_bitarray returns, under several processor states (flags / IT position)."""
from vf import target, gen, diff, known
from vf.props import decode_common as dc
from vf.ref import step as rstep  # noqa: F401  (loads all semantics)
from vf.ref.core import REG
from vf.ref.machine import Machine, Unpred, Undef, NotImpl, Skip

ALIAS = {'round': 'round_'}
# known findings visible at operand level: (row, operand) -> (key, exact quirk prediction)
KNOWN_OPERANDS = {('CBZ_T1', 'imm32'): ('cbz-scale', lambda want, got: got == 2 * want),
                  ('PUSH_T2', 'unaligned_allowed'): ('push-t2-unaligned', lambda want, got: want == 0 and got == 1)}
SKIP_KEYS = {'op', 'size', 'signed', 'kind', 'pfx', 'sub', 'double', 'unsigned', 'load', 'to_thumb', 'unpriv'}
NSTATES = 3
IT_LAST = [x for x in gen.IT_STATES if x and (x & 0xF) == 0x8]
IT_NOT_LAST = [x for x in gen.IT_STATES if x and (x & 0xF) != 0x8]
assert IT_LAST and IT_NOT_LAST


def norm(v):
    if isinstance(v, bool):
        return int(v)
    if hasattr(v, 'name') and hasattr(v, 'value') and not isinstance(v, int):
        return v.name
    return v


def ref_outcome(spec, w, cpsr):
    """outcome token of the reference decode for a (possibly provenance-tracking) word: row name + ok / unpred / undef; used for path discovery only"""
    from vf.ref.enc import decode as table_decode
    row, _ = table_decode(spec.table, w)
    if row is None:
        return 'unallocated'
    h = REG.get(row.name)
    if h is None:
        return row.name
    M = Machine({'cpsr': int(cpsr), 'sctlr': 0, 'scr': 0, 'R.PC': 0}, [], diff.full_cfg(None))
    M.word = w
    f = dict(row.extract(w))
    f['_w'] = w
    f['_row'] = row.name
    try:
        # (written so that only the should-be bits are looked at: ~w would depend on - and concretise - every bit of the word)
        if (row.sbz and (w & row.sbz) != 0) or (row.sbo and (w & row.sbo) != row.sbo):
            return row.name + ':unpred'
        h[0](M, f)
        return row.name + ':ok'
    except Unpred:
        return row.name + ':unpred'
    except Undef:
        return row.name + ':undef'
    except (NotImpl, Skip):
        return row.name + ':skip'


def compare(acc, spec, cpu, w, row, rng, full, cfgov=None):
    h = REG.get(row.name)
    if h is None:
        acc.cls('operands:no-reference-decode')
        return
    cfg = diff.full_cfg(cfgov)
    for si in range(NSTATES):
        # processor state the decode may legitimately depend on: APSR.C, IT position (Thumb); everything else random
        flags = rng.getrandbits(4)
        # Thumb: the three IT positions decode may depend on, one each per word: outside a block, inside and not last, last
        it = 0
        if spec.thumb and si == 1:
            it = rng.choice(IT_NOT_LAST)
        elif spec.thumb and si == 2:
            it = rng.choice(IT_LAST)
        cpsr = gen.cpsr_value(nzcvq=flags << 1 | rng.getrandbits(1), ge=rng.getrandbits(4), it=it, t=1 if spec.thumb else 0,
                              m=rng.choice((0b10000, 0b10011, 0b11111, 0b10010)))
        cpu.registers.cpsr.value = cpsr
        for n in range(8):
            cpu.registers._R[target.RNAMES['R%dusr' % n]] = rng.getrandbits(32)
        M = Machine({'cpsr': cpsr, 'sctlr': 0, 'scr': 0, 'R.PC': 0}, [], cfg)
        M.word = w
        f = dict(row.extract(w))
        f['_w'] = w
        f['_row'] = row.name
        try:
            if (w & row.sbz) or (~w & row.sbo):
                raise Unpred('sbz/sbo')
            ops = h[0](M, f)
            ref = 'ok'
        except Unpred:
            ref = 'unpred'
        except Undef:
            ref = 'undef'
        except (NotImpl, Skip):
            ref = 'skip'
        name, obj = dc.full_outcome(spec.decoder, w, cpu, spec.nbits)
        acc.evals += 1
        if ref in ('unpred', 'skip'):
            acc.cls('operands:' + ref)
            if name.startswith('EXC:') and name not in ('EXC:UndefinedInstructionException', 'EXC:NotImplemented'):
                acc.violation('%s:operands:%s:host-error' % (spec.prop, row.name), {'word': w, 'nbits': spec.nbits, 'cpsr': cpsr, 'cfg': cfgov}, {'outcome': name})
            continue
        if ref == 'undef':
            if not (name in dc.UND or name.startswith('UNPRED:')):
                acc.violation('%s:operands:%s:should-be-undefined' % (spec.prop, row.name), {'word': w, 'nbits': spec.nbits, 'cpsr': cpsr, 'cfg': cfgov}, {'outcome': name})
            continue
        acc.cls('operands:compared')
        if obj is None:
            acc.violation('%s:operands:%s:valid-encoding-rejected' % (spec.prop, row.name), {'word': w, 'nbits': spec.nbits, 'cpsr': cpsr, 'cfg': cfgov},
                          {'outcome': name, 'reference_operands': {k: norm(v) for k, v in ops.items()}})
            return
        if name not in [c.__name__ for c in type(obj).__mro__]:
            # from_bitarray of the selected class handed back an object of an unrelated class (an alias 'SEE ...' implemented at operand level): the word
            # then executes as that other instruction. Accepted only if that other instruction is what the reference table says this word is - it is not,
            # the class-selection check has just matched the table's row with the selected class
            acc.violation('%s:operands:%s:decoded-as-another-class' % (spec.prop, row.name), {'word': w, 'nbits': spec.nbits, 'cpsr': cpsr, 'cfg': cfgov},
                          {'selected_class': name, 'object_class': type(obj).__name__, 'reference_operands': {k: norm(v) for k, v in ops.items()}})
            return
        bad = {}
        for k, v in ops.items():
            if k in SKIP_KEYS or v is None:
                continue
            ak = ALIAS.get(k, k)
            if not hasattr(obj, ak):
                continue
            got = norm(getattr(obj, ak))
            want = norm(v)
            if isinstance(got, str) != isinstance(want, str):
                continue
            if k == 'imm32' and isinstance(got, int) and isinstance(want, int):
                got, want = got & 0xFFFFFFFF, want & 0xFFFFFFFF        # the value of a sign-extended immediate, whatever its Python representation
            if got != want:
                q = KNOWN_OPERANDS.get((row.name, k))
                if q and q[0] in known.listed(spec.prop) and q[1](want, got):
                    acc.known_hit(q[0])
                    continue
                bad[k] = (want, got)
        if bad:
            acc.violation('%s:operands:%s:%s' % (spec.prop, row.name, '+'.join(sorted(bad))), {'word': w, 'nbits': spec.nbits, 'cpsr': cpsr, 'cfg': cfgov},
                          {'operands(expected,observed)': bad, 'class': name})
            return
