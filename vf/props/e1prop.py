"""Shared driver for the E1 (stepdiff) properties: Hypothesis draws (row, field bits, register tweak, entropy); the body
builds the word from the reference encoding table, expands the entropy into several generated machine states, runs
armulator and the reference machine on each and buckets discrepancies (no assertion per case, see DESIGN.md 2.7)."""
import random

import hypothesis
from hypothesis import given, settings, strategies as st, HealthCheck, Phase

from vf import gen, e1, diff, target, known
from vf.runner import Acc
from vf.ref.enc_arm import ARM
from vf.ref.enc_t16 import T16
from vf.ref.enc_t32 import T32
from vf.ref.core import REG

TABLES = {'arm': ARM, 't16': T16, 't32': T32}
ROWS = {}
for _tn, _t in TABLES.items():
    for _r in _t:
        ROWS.setdefault(_r.name, (_tn, _r))

REGFIELDS = 'dnmsatu'
VECS = 6


def mixed(ex):
    """Hypothesis draws -> uniformly distributed generator. Measured on this Hypothesis version: in a tuple of bounded integers 75 % of the 32-bit draws
    are below 2^16 (bit 20 set in 10 % of them) and index 0 of a 5-way choice is drawn 52 % of the time - as field bits of an instruction word that
    leaves S / P / U / W / Rn / opcode bits at zero most of the time. Hypothesis therefore only supplies the example stream (distinct tuples, seeded by
    VERIF_SEED); every value used to build a case is derived from a hash of the whole tuple."""
    import hashlib
    return random.Random(int.from_bytes(hashlib.blake2b(repr(ex).encode(), digest_size=16).digest(), 'big'))


def build_word(row, raw, tweak):
    """word with the row's fixed bits, field bits from `raw`, register fields nudged towards 13/14/15/aliases by `tweak`"""
    nb = row.n
    w = (raw & ~row.mask & ~row.sbz & ((1 << nb) - 1)) | row.value | row.sbo
    k = 0
    regs = [c for c in REGFIELDS if c in row.fields and len(row.fields[c]) == 4]
    for c in regs:
        sel = (tweak >> (4 * k)) & 15
        k += 1
        if sel < 6:
            continue            # keep the random value
        if sel < 9:
            v = (13, 14, 15)[sel - 6]
        elif sel < 12 and len(regs) > 1:
            other = regs[(regs.index(c) + 1) % len(regs)]
            v = 0
            for p in row.fields[other]:
                v = (v << 1) | ((w >> p) & 1)
        else:
            v = sel & 7
        for j, p in enumerate(reversed(row.fields[c])):
            w = (w & ~(1 << p)) | (((v >> j) & 1) << p)
    # 16-bit encodings with a split register number (D:ddd / N:nnn): SP / LR / PC more often than 1/16 each
    for hi, lo in (('D', 'd'), ('N', 'n')):
        if hi in row.fields and lo in row.fields and len(row.fields[hi]) == 1 and len(row.fields[lo]) == 3:
            sel = (tweak >> 24) & 7
            if sel < 3:
                v = (15, 13, 14)[sel]
                w = (w & ~(1 << row.fields[hi][0])) | ((v >> 3) << row.fields[hi][0])
                for j, p_ in enumerate(reversed(row.fields[lo])):
                    w = (w & ~(1 << p_)) | (((v >> j) & 1) << p_)
    if 'c' in row.fields and len(row.fields['c']) == 4 and row.n == 32 and row.fields['c'][0] == 31:
        sel = (tweak >> 28) & 7
        if sel < 4:
            w = (w & 0x0FFFFFFF) | (0xE << 28)       # AL more often than 1/16
        elif (w >> 28) == 15:
            w = (w & 0x0FFFFFFF) | (0xE << 28)
    return w


def field_corner(row, w, entropy):
    """in 30 % of the draws one non-register field of the encoding is put at a corner (0, 1, max, max-1, top bit): imm5 = 0 (shift by 32), rotation 0,
    saturate-to 1/32, width-minus-1 = 0/31, lsb = 31, offset 0/max ... - a uniform draw reaches each with probability 2^-width only"""
    rng = random.Random(entropy ^ 0xC0FFEE)
    if row.name.startswith(('SRS', 'CPS')) and 'm' in row.fields and len(row.fields['m']) == 5 and rng.random() < 0.75:
        # a 5-bit mode number: only 9 of the 32 values name a mode (the rest is UNPREDICTABLE and only checked for totality)
        v = rng.choice((0b10000, 0b10001, 0b10010, 0b10011, 0b10110, 0b10111, 0b11010, 0b11011, 0b11111))
        for j, p_ in enumerate(reversed(row.fields['m'])):
            w = (w & ~(1 << p_)) | (((v >> j) & 1) << p_)
        return w
    # immediate-shifted register operand: every (type, amount) special case - LSL #0, LSR/ASR #32 (imm5 = 0), RRX, ROR #1, amount 31 - far more
    # often than 1 in 128 words
    sh = [k for k in ('t', 'y') if k in row.fields and len(row.fields[k]) == 2]
    if sh and 'i' in row.fields and len(row.fields['i']) == 5 and rng.random() < 0.3:
        for k, v in ((sh[0], rng.randrange(4)), ('i', rng.choice((0, 0, 0, 1, 31, 16)))):
            for j, p_ in enumerate(reversed(row.fields[k])):
                w = (w & ~(1 << p_)) | (((v >> j) & 1) << p_)
        return w
    if rng.random() >= 0.3:
        return w
    cands = [k for k in sorted(row.fields) if k not in REGFIELDS and k not in 'cr' and len(row.fields[k]) >= 2]
    if not cands:
        return w
    k = rng.choice(cands)
    poss = row.fields[k]
    mx = (1 << len(poss)) - 1
    v = rng.choice((0, 0, mx, 1, mx - 1, 1 << (len(poss) - 1)))
    for j, p_ in enumerate(reversed(poss)):
        w = (w & ~(1 << p_)) | (((v >> j) & 1) << p_)
    return w


def sig(diffs):
    cats = set()
    for k, v in diffs.items():
        if k == 'cpsr':
            x = (v[0] ^ v[1]) if isinstance(v[0], int) and isinstance(v[1], int) else -1
            if x & 0xF0000000:
                cats.add('nzcv')
            if x & 0x08000000:
                cats.add('q')
            if x & 0x000F0000:
                cats.add('ge')
            if x & 0x0600FC00:
                cats.add('it')
            if x & 0x010003FF:
                cats.add('cpsr-ctl')
        elif k.startswith('bystander:'):
            cats.add('another-instance-changed')
        elif k == 'R.PC':
            cats.add('pc')
        elif k.startswith('R.'):
            cats.add('reg')
        elif k.startswith('mem'):
            cats.add('mem')
        elif k.startswith('spsr'):
            cats.add('spsr')
        else:
            cats.add(k)
    return '+'.join(sorted(cats))


class Plan:
    """what one E1 property generates: row names, configs, and options passed to gen.step_case"""

    def __init__(self, prop, rows, cfgs=('v6', 'v7'), nontrivial=None, classify=None, case_kw=None, tweak_case=None,
                 steps=1, hooked=(False,), accept=None, tweak_word=None):
        self.prop = prop
        self.rows = [r for r in rows if r in ROWS]
        self.missing = [r for r in rows if r not in ROWS]
        self.cfgs = list(cfgs)
        self.nontrivial = nontrivial
        self.classify = classify
        self.case_kw = case_kw or (lambda rng, row: {})
        self.tweak_case = tweak_case
        self.steps = steps
        self.hooked = hooked
        self.accept = accept
        self.tweak_word = tweak_word      # (row, word, entropy) -> word: shapes field values after build_word (pure function of its arguments)


def default_nontrivial(res):
    """condition passed and something other than PC / IT state changed (in the reference)"""
    if not res.cond_passed or res.status not in ('ok', 'abort', 'undef', 'svc', 'smc'):
        return False
    M, pre = res.M, res.pre
    for k, v in M.s.items():
        if k == 'R.PC':
            continue
        if pre.get(k) != v:
            if k == 'cpsr' and not ((pre[k] ^ v) & ~0x0600FC00):
                continue
            return True
    for i, (b, e, arr) in enumerate(M.mem):
        if bytes(arr) != pre.get('mem%d' % i):
            return True
    return False


def one_case(acc, plan, case, rowname, wordrepr):
    res = diff.run(case)
    nt = (plan.nontrivial or default_nontrivial)(res)
    row = res.row or rowname
    cls = row
    key = (wordrepr, case['state']['cpsr'], tuple(sorted((k, v) for k, v in case['state'].items() if k.startswith('R.'))))
    acc.case(nt and res.status not in ('unpred', 'skip'), key, cls=cls,
             sample=lambda: {'row': row, 'word': wordrepr, 'cfg': case['cfg'], 'cpsr': '%#010x' % case['state']['cpsr'],
                             'status': res.status, 'cond_passed': res.cond_passed})
    acc.cls('status:' + res.status)
    if res.cond_passed is False:
        acc.cls('cond-failed')
    if plan.classify:
        for c in plan.classify(res, case):
            acc.cls(c)
    if res.status in ('unpred', 'skip'):
        acc.excluded += 1
        # UNPREDICTABLE / unmodelled: only totality and the C10 range invariant are required
        if res.exc is not None and not target.escape_ok(res.exc):
            acc.violation('%s:%s:host-error:%s' % (plan.prop, row, type(res.exc).__name__), case, {'exception': repr(res.exc)})
        elif res.range_bad:
            acc.violation('%s:%s:out-of-range' % (plan.prop, row), case, {'keys': res.range_bad, 'reference': res.status})
        elif res.status == 'skip' and 'instruction fetch aborts' in str(res.detail) and res.exc is None and res.post is not None and res.step == 0:
            # armulator reports an aborting instruction fetch through its Data Abort path (a Prefetch Abort is not implemented, so there is no exact
            # oracle) - but whatever entry it takes, (1) the SPSR of the mode it entered must hold the interrupted CPSR, and (2) the instruction whose
            # fetch aborted was not executed: an exception mode was entered, the unbanked registers and every memory byte are what they were
            pre, post = res.pre, res.post
            m = post['cpsr'] & 31
            name = gen.MODE_NAME.get(m)
            acc.cls('fetch-abort')
            if name and m != (pre['cpsr'] & 31) and ('spsr_' + name) in post and post['spsr_' + name] != pre['cpsr']:
                acc.violation('%s:fetch-abort:spsr-is-not-the-interrupted-cpsr' % plan.prop, case,
                              {'cpsr_before': pre['cpsr'], 'spsr_' + name: post['spsr_' + name], 'entered': name})
            changed = [k for k in post if (k.startswith('mem') or (k.startswith('R.R') and k.endswith('usr') and k[3:-3].isdigit() and int(k[3:-3]) < 8)) and post[k] != pre.get(k)]
            if name not in ('abt', 'hyp', 'mon') or changed:
                acc.violation('%s:fetch-abort:instruction-executed-although-its-fetch-aborts' % plan.prop, case,
                              {'mode_after': name, 'changed': changed[:6], 'pc_after': post.get('R.PC')})
        return res
    if res.range_bad:
        acc.violation('%s:%s:out-of-range' % (plan.prop, row), case, {'keys': res.range_bad})
        return res
    if not res.diffs and res.status == 'ok' and res.exc is None and case.get('steps', 1) == 1 and not case.get('inject') and \
            (case['state'].get('cpsr', 0) + case['state'].get('R.R1usr', 0)) % 13 == 0:
        reexecute_check(acc, plan, case, row, res)
    if res.diffs:
        if plan.accept and plan.accept(acc, res, case):
            return res
        for key in known.match(plan.prop, res, case):
            r2 = diff.run(case, quirks=(key,))
            if not r2.diffs and r2.status not in ('unpred', 'skip', 'host-error'):
                acc.known_hit(key)
                return res
            if r2.status in ('unpred', 'skip') and not (r2.exc is not None and not target.escape_ok(r2.exc)):
                # inside the finding's region the quirk leads to behaviour the architecture leaves open: nothing exact to compare with
                acc.excluded += 1
                acc.cls('excluded:known-finding-then-unpredictable:' + key)
                return res
        for key in known.match_elsewhere(plan.prop, res, case):
            r2 = diff.run(case, quirks=(key,))
            if (not r2.diffs and r2.status != 'host-error') and not (r2.exc is not None and not target.escape_ok(r2.exc)):
                acc.excluded += 1
                acc.cls('excluded:finding-listed-under-another-property:' + key)
                return res
        b = '%s:%s:%s:%s%s' % (plan.prop, row, res.status, 'condfail:' if res.cond_passed is False else '', sig(res.diffs))
        acc.violation(b, case, {'diffs(expected,observed)': e1.fmt_diff(res.diffs), 'ref_status': res.status, 'ref_detail': res.detail,
                                'step': res.step})
    return res


def reexecute_check(acc, plan, case, row, res):
    """a decoded opcode object is a value: an embedder may keep it (a decoded-instruction cache for a loop body, shared by several processors) and hand it
    to execute_instruction() again. One object, decoded once, is executed on two fresh instances built from the same case; both must end in the state
    the ordinary step produced."""
    try:
        a, b = e1.build(case), e1.build(case)
        instr = a.fetch_instruction()
        b.fetch_instruction()
        cls = a.decode_instruction(instr)
        op = cls.from_bitarray(instr, a) if cls else None
        if op is None:
            return
        # a disassembler / tracer looks ahead: decoding ANOTHER word is a pure query, it leaves the instruction about to execute alone
        other = (instr ^ 0xF0000000) if a.opcode_len == 32 and not (a.registers.cpsr.value >> 5) & 1 else 0xBF00
        try:
            a.decode_instruction(other)
            b.decode_instruction(other)
        except Exception:       # noqa: BLE001
            pass
        snaps = []
        for cpu in (a, b):
            cpu.execute_instruction(op)
            cpu.increment_pc_if_needed()
            snaps.append(target.snapshot(cpu, True))
    except Exception:       # noqa: BLE001 - an instruction that ends in an exception is handled by emulate_cycle, not by this embedder-level path
        return
    acc.cls('opcode-object-executed-again')
    direct_execute_check(acc, plan, case, row)
    for i_, sn in enumerate(snaps):
        d = {k: (res.post.get(k), v) for k, v in sn.items() if k in res.post and res.post.get(k) != v}
        if d:
            acc.violation('%s:%s:opcode-object-%s-execution:%s' % (plan.prop, row, ('first', 'second')[i_], sig(d)), case, {'diffs(ordinary step, this execution)': e1.fmt_diff(d)})
            return


def direct_execute_check(acc, plan, case, row):
    """the way the repository's own tests drive an instruction: fetch, decode, `opcode.execute(processor)`. After an ordinary cycle (a NOP in front of the
    instruction) the directly executed instruction must end where two ordinary cycles end. ARM state / Thumb outside IT blocks only."""
    st = case['state']
    if (st['cpsr'] & 0x0600FC00) or case.get('inject') or (st['cpsr'] >> 24) & 1:
        return
    thumb = bool((st['cpsr'] >> 5) & 1)
    nop = e1.enc_thumb(0xBF00) if thumb else e1.enc_arm(0xE1A00000)
    try:
        c2 = dict(case)
        pc0 = st['R.PC']
        code = bytes.fromhex(case['poke'][0][1]) if isinstance(case['poke'][0][1], str) else case['poke'][0][1]
        if case['poke'][0][0] != pc0:
            return
        c2['poke'] = [[pc0, (nop + code).hex()]] + [p_ for p_ in case['poke'][1:]]
        d, c = e1.build(c2), e1.build(c2)
        e1_ = target.step_budget(d)
        e2_ = target.step_budget(d)
        if e1_ is not None or e2_ is not None:
            return
        want = target.snapshot(d, True)
        if target.step_budget(c) is not None:
            return
        instr = c.fetch_instruction()
        cls = c.decode_instruction(instr)
        op = cls.from_bitarray(instr, c) if cls else None
        if op is None:
            return
        c.registers.changed_registers = [False] * 16
        if hasattr(c.registers, 'itstate_restored'):
            c.registers.itstate_restored = False
        op.execute(c)
        c.increment_pc_if_needed()
        got = target.snapshot(c, True)
    except Exception:       # noqa: BLE001 - exceptions are emulate_cycle's business; this path only judges instructions that complete
        return
    acc.cls('opcode-executed-directly')
    if (want['cpsr'] & 31) != (st['cpsr'] & 31):
        return                      # an exception was taken in the ordinary run: nothing to compare this path with
    dd = {k: (want.get(k), v) for k, v in got.items() if want.get(k) != v}
    if dd:
        acc.violation('%s:%s:opcode-executed-directly:%s' % (plan.prop, row, sig(dd)), case, {'diffs(two ordinary cycles, NOP + direct execute)': e1.fmt_diff(dd)})


def shard(plan_ref, seed, examples):
    import importlib
    mod, attr = plan_ref.split(':')
    plan = getattr(importlib.import_module(mod), attr)
    acc = Acc()
    if plan.missing:
        acc.errors.append('rows not in the reference tables: %s' % plan.missing)
        return acc
    nrows = len(plan.rows)
    strat = st.tuples(st.integers(0, nrows - 1), st.integers(0, 2 ** 32 - 1), st.integers(0, 2 ** 31 - 1), st.integers(0, 2 ** 64 - 1),
                      st.integers(0, len(plan.cfgs) - 1))

    @hypothesis.seed(seed)
    @settings(max_examples=examples, deadline=None, database=None, phases=[Phase.generate], report_multiple_bugs=False,
              suppress_health_check=list(HealthCheck))
    @given(strat)
    def body(ex):
        mx = mixed(ex)
        ri, raw, tweak, entropy, ci = mx.randrange(nrows), mx.getrandbits(32), mx.getrandbits(31), mx.getrandbits(64), mx.randrange(len(plan.cfgs))
        name = plan.rows[ri]
        tn, row = ROWS[name]
        w = build_word(row, raw, tweak)
        w = field_corner(row, w, entropy)
        if plan.tweak_word:
            w = plan.tweak_word(row, w, entropy)
        rng = random.Random(entropy)
        cfgname = plan.cfgs[ci]
        thumb = tn != 'arm'
        code = e1.enc_arm(w) if not thumb else e1.enc_thumb(w, tn == 't32') + b'\x00\xbf\x00\xbf'
        for _ in range(VECS):
            kw = plan.case_kw(rng, row)
            if thumb and 'pc_off' not in kw:
                kw['pc_off'] = rng.choice((0, 2))        # Thumb instructions at both 0 and 2 mod 4 (Align(PC,4) matters)
            hooked = plan.hooked[rng.randrange(len(plan.hooked))]
            if 'code_base' not in kw and kw.get('mmu', False) is False and kw.get('mpu') is False and rng.random() < 0.05:
                kw.update(code_base=0xFFFFFF00, pc_top=True)          # the instruction in the last 2..8 bytes below 2^32
            straddle = tn == 't32' and gen.CONFIGS[cfgname].get('memory_system_architecture', 'PMSA') == 'PMSA' and rng.random() < 0.05
            if straddle:
                kw.update(code_base=0x8000, pc_off=0x3E, mpu=True)
                kw.pop('pc_top', None)
            case = gen.step_case(rng, cfgname, thumb, code, steps=plan.steps, hooked=hooked, **kw)
            if plan.tweak_case:
                plan.tweak_case(rng, row, w, case)
            if straddle:
                straddle_regions(rng, case)
            one_case(acc, plan, case, name, '%#x' % w)
    body()
    return acc


def straddle_regions(rng, case):
    """a 32-bit Thumb instruction whose two halfwords lie in different MPU regions (PC = 0x807E): the second halfword is a separate fetch with its own
    permission check - it aborts when the second region denies the access, and the instruction executes normally when it does not"""
    st_ = case['state']
    st_['R.PC'] = 0x807E
    n = gen.DEFAULT_MPU_REGIONS
    for r_ in range(n):
        st_['drsrs[%d]' % r_] = 0
    regions = [(0, 6, 3), (0x8000, 6, 3), (0x8080, 6, rng.choice((0, 1, 3, 3, 5, 6, 2))), (gen.DATA[0], 8, 3), (0xFFFF0000, 6, 3)]
    if rng.random() < 0.3:
        regions.pop(2)               # no region behind the first: background fault (or the default map for privileged code with SCTLR.BR)
    for i, (base, rsize, ap) in enumerate(regions):
        st_['drsrs[%d]' % i], st_['drbars[%d]' % i], st_['dracrs[%d]' % i] = (rsize << 1) | 1, base, ap << 8
    st_['mpuir'] = n << 8
    st_['sctlr'] = (st_['sctlr'] | 1) & ~(1 << 17) | (rng.getrandbits(1) << 17)
    case['poke'] = [p_ for p_ in case['poke'] if p_[0] != 0x8040] + [[0x807E, case['poke'][0][1]]]


def shard_repeat(plan_ref, seed, examples):
    """the same encoding executed twice by ONE instance with different processor state in between (X ; flag-setter ; [IT EQ ;] X): anything an
    implementation remembers about an encoding from its first execution (decoded operands, carry-in of the immediate, "sets flags outside an IT
    block") must not leak into the second. Every step is compared with the reference machine (which has no memory across steps by construction)."""
    import importlib
    mod, attr = plan_ref.split(':')
    plan = getattr(importlib.import_module(mod), attr)
    acc = Acc()
    nrows = len(plan.rows)
    t16rows = [r for r in plan.rows if ROWS[r][0] == 't16']
    immrows = [r for r in plan.rows if (ROWS[r][0] == 'arm' and len(ROWS[r][1].fields.get('i', ())) == 12 and '_imm_' in r and not r.startswith(('LDR', 'STR', 'PLD', 'ADR'))) or
               (ROWS[r][0] == 't32' and len(ROWS[r][1].fields.get('i', ())) == 12 and '_imm_' in r and r.endswith(('_T1', '_T2', '_T3')) and not r.startswith(('LDR', 'STR', 'PLD', 'ADR', 'ADDW', 'SUBW')))]
    strat = st.tuples(st.integers(0, nrows - 1), st.integers(0, 2 ** 32 - 1), st.integers(0, 2 ** 31 - 1), st.integers(0, 2 ** 64 - 1),
                      st.integers(0, len(plan.cfgs) - 1))

    @hypothesis.seed(seed)
    @settings(max_examples=examples, deadline=None, database=None, phases=[Phase.generate], report_multiple_bugs=False,
              suppress_health_check=list(HealthCheck))
    @given(strat)
    def body(ex):
        mx = mixed(ex)
        ri, raw, tweak, entropy, ci = mx.randrange(nrows), mx.getrandbits(32), mx.getrandbits(31), mx.getrandbits(64), mx.randrange(len(plan.cfgs))
        name = plan.rows[ri]
        pick = mx.random()
        if t16rows and pick < 0.3:
            name = t16rows[mx.randrange(len(t16rows))]          # 16-bit encodings decide 'sets flags' from the IT position: the state most likely to be remembered wrongly
        elif immrows and pick < 0.6:
            name = immrows[mx.randrange(len(immrows))]          # modified-immediate forms take their shifter carry-out from APSR.C when the rotation is 0
        tn, row = ROWS[name]
        w = field_corner(row, build_word(row, raw, tweak), entropy)
        if name in immrows and mx.random() < 0.6:
            if tn == 'arm':
                w &= ~(0xF << 8)                                 # rotation 0: carry-out = carry-in
            else:
                w &= ~((1 << 26) | (7 << 12))                    # i:imm3 = 0000: the 00XY pattern, carry-out = carry-in
            if 'S' in row.fields and mx.random() < 0.7:
                w |= 1 << row.fields['S'][0]
        rng = random.Random(entropy)
        cfgname = plan.cfgs[ci]
        thumb = tn != 'arm'
        if not thumb:
            x = e1.enc_arm(w)
            mid = [e1.enc_arm(z) for z in rng.choice(((0xE1500000,), (0xE1700000,), (0xE3500001,), (0xE1B00000 | rng.randrange(1, 8),)))]   # CMP r0,r0 / CMN r0,r0 / CMP r0,#1 / MOVS r0,rK
        else:
            x = e1.enc_thumb(w, tn == 't32')
            mid = [e1.enc_thumb(0x4280)]                                    # CMP r0,r0  (Z=1, C=1)
            if rng.random() < 0.7:
                mid.append(e1.enc_thumb(0xBF08 if rng.random() < 0.7 else 0xBF18))      # IT EQ (passes) / IT NE (fails): second X inside an IT block
        loop = rng.random() < 0.4
        if loop:
            # the second execution happens at the SAME address (a loop): X ; flag setter ; B back to X
            mid = mid[:1]
            back = -(len(x) + len(mid[0]) + (4 if thumb else 8))
            mid = mid + [e1.enc_thumb(0xE000 | ((back >> 1) & 0x7FF)) if thumb else e1.enc_arm(0xEA000000 | ((back >> 2) & 0xFFFFFF))]
            code = x + b''.join(mid) + (b'\x00\xbf' * 4 if thumb else e1.enc_arm(0xE1A00000) * 2)
        else:
            code = x + b''.join(mid) + x + (b'\x00\xbf' * 4 if thumb else e1.enc_arm(0xE1A00000) * 2)
        for _ in range(3):
            kw = plan.case_kw(rng, row)
            kw.pop('it', None)
            hooked = plan.hooked[rng.randrange(len(plan.hooked))]
            case = gen.step_case(rng, cfgname, thumb, code, steps=2 + len(mid), hooked=hooked, it=0, **kw)
            if plan.tweak_case:
                plan.tweak_case(rng, row, w, case)
            res = diff.run(case)
            reached = res.status not in ('unpred', 'skip') and res.step == 1 + len(mid) and res.row == name
            acc.case(bool(reached), ('rep', w, case['state']['cpsr'], len(mid), cfgname), cls='repeat:' + ('loop:' if loop else '') + ('second-execution-compared' if reached else 'ended-early'),
                     sample=lambda: {'row': name, 'word': '%#x' % w, 'code': code.hex(), 'steps': 2 + len(mid)})
            if res.status in ('unpred', 'skip'):
                acc.excluded += 1
                if res.exc is not None and not target.escape_ok(res.exc):
                    acc.violation('%s:repeat:host-error:%s' % (plan.prop, type(res.exc).__name__), case, {'exc': repr(res.exc)})
                continue
            if res.diffs:
                if any(k for k in known.match(plan.prop, res, case)) or any(k for k in known.match_elsewhere(plan.prop, res, case)):
                    acc.excluded += 1
                    continue
                acc.violation('%s:repeat:%s:step%d:%s' % (plan.prop, res.row, res.step, sig(res.diffs)), case,
                              {'diffs(expected,observed)': e1.fmt_diff(res.diffs), 'ref_status': res.status, 'step': res.step})
    body()
    return acc


_REGIONS = {}


def decoder_regions():
    """paths of armulator's two 32-bit class-selection decoders (provenance-tracking int, ~0.2 s each): [(table name, witness word, path literals)].
    A decoder change that carves a new special case out of an encoding (one extra comparison) creates a new path, hence a new witness here -
    which random field values would reach with probability 2^-(number of bits compared)."""
    if not _REGIONS:
        from vf.props import c06, c07, decode_common as dc
        from vf.sym import sym
        _REGIONS['arm'] = [(w, tr) for w, tr, _ in sym.enumerate_paths(lambda w: dc.outcome_of(c06.decoder, w), 32)]
        _REGIONS['t32'] = [(w, list(tr) + list(c07.TOP3)) for w, tr, _ in sym.enumerate_paths(lambda w: dc.outcome_of(c07.dec32, w), 32, fixed=list(c07.TOP3))]      # (members must stay 32-bit Thumb words)
    return _REGIONS


def shard_witness(plan_ref, part, nparts, seed, per_region):
    """executes witnesses and solver-generated members of every decoder path whose reference row belongs to the plan (complete E1 comparison)"""
    import importlib
    from vf.props import decode_common as dc
    from vf.ref.enc import decode as table_decode
    from vf.props.c05 import passing_flags
    mod, attr = plan_ref.split(':')
    plan = getattr(importlib.import_module(mod), attr)
    rows = set(plan.rows)
    acc = Acc()
    rng = random.Random(seed)
    idx = 0
    for tn, regs in sorted(decoder_regions().items()):
        table = TABLES[tn]
        for w0, trace in regs:
            idx += 1
            if idx % nparts != part:
                continue
            words, seen_w = [w0], {w0}
            for _try in range(3):
                for m in dc.members(w0, trace, 32, rng, per_region):
                    if m not in seen_w and len(words) <= per_region:
                        seen_w.add(m)
                        words.append(m)
            for w in words:
                row, _f = table_decode(table, w)
                if row is None or row.name not in rows:
                    continue
                thumb = tn != 'arm'
                code = e1.enc_arm(w) if not thumb else e1.enc_thumb(w, True) + b'\x00\xbf\x00\xbf'
                for _ in range(3):
                    kw = plan.case_kw(rng, row)
                    if thumb and 'pc_off' not in kw:
                        kw['pc_off'] = rng.choice((0, 2))
                    case = gen.step_case(rng, plan.cfgs[rng.randrange(len(plan.cfgs))], thumb, code, hooked=plan.hooked[rng.randrange(len(plan.hooked))], **kw)
                    if not thumb and (w >> 28) < 14:
                        case['state']['cpsr'] = (case['state']['cpsr'] & 0x0FFFFFFF) | (passing_flags(rng, w >> 28) << 28)
                    if plan.tweak_case:
                        plan.tweak_case(rng, row, w, case)
                    acc.cls('decoder-path-witness')
                    one_case(acc, plan, case, row.name, '%#x' % w)
    return acc


def witness_tasks(ctx, plan_ref, base=950, nparts=8):
    return [(shard_witness, (plan_ref, i, nparts, ctx.shard_seed(base + i), ctx.n(10, 60))) for i in range(nparts)]


def history_tasks(ctx, plan_ref, base=800, nparts=8, quick=350, thorough=6000):
    """histories on one long-lived instance (vf/props/history.py): the plan's instruction several times between instructions and events that change
    rarely observed state, every step compared with the reference"""
    from vf.props import history as _h
    return [(_h.shard_history, (plan_ref, ctx.shard_seed(base + i), ctx.n(quick, thorough))) for i in range(nparts)]


def replay_multi(case):
    res = diff.run(case)
    if res.status in ('unpred', 'skip'):
        return ['host-error'] if (res.exc is not None and not target.escape_ok(res.exc)) else []
    return [sig(res.diffs)] if res.diffs else []


def replay(plan, case):
    if case.get('steps', 1) > 1 and plan.steps == 1:
        return replay_multi(case)
    acc = Acc()
    one_case(acc, plan, case, '?', case['poke'][0][1])
    return sorted(acc.viol)


def minimise(plan, case, bucket):
    """structural minimiser: zero registers / flags while the same bucket still fails (no random choices)"""
    def fails(c):
        a = Acc()
        one_case(a, plan, c, '?', '')
        return bucket in a.viol
    if not fails(case):
        return case
    cur = case
    for k in sorted(cur['state']):
        if not (k.startswith('R.') and k != 'R.PC' or k.startswith('spsr_')):
            continue
        if cur['state'][k] == 0:
            continue
        c2 = dict(cur)
        c2['state'] = dict(cur['state'])
        c2['state'][k] = 0
        if fails(c2):
            cur = c2
    return cur


def run_plan(ctx, plan_ref, plan, shards=32, quick=120, thorough=2400, witnesses=True, repeat=True, history=True):
    tasks = [(shard, (plan_ref, ctx.shard_seed(i), ctx.n(quick, thorough))) for i in range(shards)]
    if witnesses:
        tasks += witness_tasks(ctx, plan_ref)
    if repeat:
        tasks += [(shard_repeat, (plan_ref, ctx.shard_seed(900 + i), ctx.n(120, 2400))) for i in range(8)]
    if history:
        tasks += history_tasks(ctx, plan_ref)
    ctx.pmap(_dispatch, tasks)
    # minimise the first case of every violation bucket
    for b, v in list(ctx.acc.viol.items()):
        try:
            v['case'] = minimise(plan, v['case'], b)
        except Exception:
            pass
    ctx.acc.extra['rows_generated'] = len(plan.rows)
    ctx.acc.extra['rows_with_reference_semantics'] = sum(1 for r in plan.rows if r in REG)


def _dispatch(fn, args):
    return fn(*args)
