"""C07 — Thumb decode: 16-bit encodings by brute force over all 65 536 halfwords, 32-bit encodings by joint path
enumeration; first-halfword length rule through fetch_instruction; operands vs the reference operand decode."""
import random

from vf import target, e1
from vf.runner import Acc
from vf.props import decode_check as chk
from vf.props import decode_common as dc
from vf.ref.enc import decode as table_decode
from vf.ref.enc_t16 import T16
from vf.ref.enc_t32 import T32

from armulator.armv6.opcodes.decoders import thumb_instruction_set_encoding_16_bit as d16
from armulator.armv6.opcodes.decoders import thumb_instruction_set_encoding_32_bit as d32


def dec16(w):
    return d16.decode_instruction(w)


def dec32(w):
    return d32.decode_instruction(w)


def rand32(rng):
    return (rng.choice((0b11101, 0b11110, 0b11111)) << 27) | rng.getrandbits(27)


TOP3 = [('eq', tuple((b, 1) for b in (29, 30, 31)), True)]
SPEC16 = chk.Spec('C07', 16, T16, dec16, True)
SPEC32 = chk.Spec('C07', 32, T32, dec32, True, fixed=TOP3, skip=lambda w: ((w >> 27) & 3) == 0, randword=rand32)


def shard16(lo, hi, seed):
    acc = Acc()
    rng = random.Random(seed)
    cpu = SPEC16.cpu()
    for w in range(lo, hi):
        if (w >> 11) in (0b11101, 0b11110, 0b11111):
            continue
        a = dc.outcome_of(dec16, w)
        row, _ = table_decode(T16, w)
        chk.check_word(acc, SPEC16, cpu, w, a, row, 't16-all', rng)
    acc.exhaustive = True
    return acc


def shard_fetch(lo, hi, seed):
    """a halfword starts a 32-bit instruction iff its top five bits are 11101 / 11110 / 11111, whatever follows"""
    acc = Acc()
    rng = random.Random(seed)
    cpu = target.new_cpu(None, False, [(0x8000, 0x100)])
    cpu.registers.cpsr.value = 0x1F3
    cpu.registers.sctlr.m = 0
    for hw in range(lo, hi):
        want = 32 if (hw >> 11) in (0b11101, 0b11110, 0b11111) else 16
        for hw2 in (0, 0xFFFF, rng.getrandbits(16)):
            cpu.registers.branch_to(0x8000)
            cpu.registers.cpsr.value = 0x1F3 | (rng.getrandbits(5) << 27) | (rng.choice((0, 0, 1)) << 9)
            target.poke(cpu, 0x8000, e1.enc_thumb(hw, False) + e1.enc_thumb(hw2, False))
            try:
                got = cpu.fetch_instruction()
                ln = cpu.opcode_len
            except Exception as ex:
                got, ln = repr(ex), None
            exp = ((hw << 16) | hw2) if want == 32 else hw
            acc.case(want == 32, ('fetch', hw, hw2), cls='fetch-length')
            if ln != want or got != exp:
                acc.violation('C07:fetch-length', {'kind': 'fetch', 'hw': hw, 'hw2': hw2, 'cpsr': cpu.registers.cpsr.value},
                              {'expected_len': want, 'observed_len': ln, 'expected_word': exp, 'observed_word': got})
    # the second halfword of a 32-bit instruction is a separate fetch with its own access check: first halfword in the last halfword of an accessible
    # MPU region, the next two bytes in no region (background fault) / in a region that denies the access. A 16-bit instruction there is fetched
    # normally, a 32-bit one takes the abort (armulator reports it through its Data Abort path) - it is never completed from bytes it may not read
    from armulator.armv6.arm_exceptions import DataAbortException
    cpu2 = target.new_cpu(None, False, [(0x8000, 0x100)])
    base_state = {'mpuir': 12 << 8, 'drsrs[0]': (6 << 1) | 1, 'drbars[0]': 0x8000, 'dracrs[0]': 3 << 8, 'drsrs[1]': 0, 'drbars[1]': 0x8080, 'dracrs[1]': 0}
    for r_ in range(2, 12):
        base_state['drsrs[%d]' % r_] = 0
    for hw in range(lo, hi):
        want = 32 if (hw >> 11) in (0b11101, 0b11110, 0b11111) else 16
        variant = rng.randrange(3)
        st_ = dict(base_state)
        user = False
        if variant == 1:
            st_['drsrs[1]'] = (6 << 1) | 1                  # a region follows, AP = no access
        elif variant == 2:
            st_['drsrs[1]'] = (6 << 1) | 1                  # a region follows, privileged only; the fetch is made in User mode
            st_['dracrs[1]'] = 1 << 8
            user = True
        target.apply_state(cpu2, st_)
        cpu2.registers.sctlr.value = (cpu2.registers.sctlr.value | 1) & ~(1 << 17)
        cpu2.registers.cpsr.value = (0x1F0 if user else 0x1F3) | (rng.getrandbits(5) << 27) | (rng.choice((0, 0, 1)) << 9)
        cpu2.registers.branch_to(0x807E)
        hw2 = rng.getrandbits(16)
        target.poke(cpu2, 0x807E, e1.enc_thumb(hw, False) + e1.enc_thumb(hw2, False))
        try:
            got = cpu2.fetch_instruction()
            ln = cpu2.opcode_len
        except DataAbortException:
            got, ln = 'abort', None
        except Exception as ex:
            got, ln = repr(ex), None
        acc.case(want == 32, ('fetch-edge', hw, variant), cls='fetch-second-halfword-denied')
        ok = (got == 'abort') if want == 32 else (ln == 16 and got == hw)
        if not ok:
            acc.violation('C07:fetch-second-halfword', {'kind': 'fetch', 'hw': hw, 'hw2': hw2, 'cpsr': cpu2.registers.cpsr.value, 'variant': variant},
                          {'expected': 'abort on the second halfword' if want == 32 else 'the 16-bit instruction', 'observed_len': ln, 'observed': got})
    acc.exhaustive = True
    return acc


# decode must depend on nothing but the word (and the carry flag / IT position where the architecture says so) ALSO when the word is decoded by a
# running processor: the same word executed twice by one instance - at another address, and again at the same address (a loop) - with different
# flags / IT state in between; every step compared with the reference (e1prop.shard_repeat)
from vf.props import e1prop as _e1p  # noqa: E402
from vf.ref import step as _rstep  # noqa: E402,F401
from vf.ref.core import REG as _REG  # noqa: E402
PLAN_REPEAT = _e1p.Plan('C07', sorted(n for n in _REG if n in _e1p.ROWS and _e1p.ROWS[n][0] in ('t16', 't32')), cfgs=('v6', 'v7', 'v5'),
                        case_kw=lambda rng, row: {'mpu': False, 'mmu': False, 'e': 0}, hooked=(False, True))


def run(ctx):
    ctx.rule = ('16-bit: all 65 536 halfwords are decoded and compared with the 16-bit reference table (vf/ref/enc_t16.py) - exhaustive. '
                '32-bit: joint path enumeration of thumb_instruction_set_encoding_32_bit.decode_instruction with vf/ref/enc_t32.py; witness '
                '+ N solver-generated members of every joint region (N=24 quick, 400 thorough) + random 32-bit Thumb words compared directly. '
                'Length rule: every first halfword x {0, 0xFFFF, random} second halfword through fetch_instruction(): length 32 iff '
                'bits<15:11> in {11101,11110,11111}. For defined rows operands are compared with the reference operand decode under '
                'several IT/flag states. Non-trivial: reference row is a defined instruction (or a 32-bit fetch); distinct = distinct word.')
    ctx.technique = 'exhaustive enumeration (16-bit) + concolic path enumeration as a generator (32-bit) + differential testing against reference tables'
    ctx.assumptions = ['vf/ref/enc_t16.py / enc_t32.py are faithful transcriptions of the Thumb encoding diagrams',
                       'answers valid for some supported architecture variant are accepted (DESIGN.md 3.2 rule 7)']
    SPEC32.compute_joint()
    tasks = [(shard16, (lo, lo + 4096, ctx.shard_seed(lo))) for lo in range(0, 65536, 4096)]
    tasks += [(shard_fetch, (lo, lo + 4096, ctx.shard_seed(lo + 1))) for lo in range(0, 65536, 4096)]
    tasks += [(chk.region_shard, ('vf.props.c07:SPEC32', i, 16, ctx.shard_seed(200 + i), ctx.n(24, 400))) for i in range(16)]
    tasks += [(chk.random_shard, ('vf.props.c07:SPEC32', ctx.shard_seed(300 + i), ctx.n(6000, 150000))) for i in range(16)]
    tasks += [(chk.history_shard, ('vf.props.c07:SPEC32', 'vf.props.c06:SPEC', ctx.shard_seed(400 + i), ctx.n(3000, 60000))) for i in range(4)]
    tasks += [(chk.corner_shard, ('vf.props.c07:SPEC32', i, 16, ctx.shard_seed(600 + i), ctx.n(4, 40))) for i in range(16)]
    for k, cn in enumerate(('v5', 'v7', 'v4', 'v7-vfp')):
        tasks += [(chk.corner_shard, ('vf.props.c07:SPEC32', i, 8, ctx.shard_seed(800 + 20 * k + i), ctx.n(2, 20), cn)) for i in range(8)]
    tasks += [(chk.cp15_shard, ('vf.props.c07:SPEC32', i, 4, ctx.shard_seed(1400 + i))) for i in range(4)]
    tasks += [(chk.undef_shard, ('vf.props.c07:SPEC32', cn, ctx.shard_seed(1200 + k), ctx.n(40, 600))) for k, cn in enumerate(('v7-mp', 'v7-virt', 'v7-tee', 'v7r', 'v7-vfp'))]
    tasks += [(_e1p.shard_repeat, ('vf.props.c07:PLAN_REPEAT', ctx.shard_seed(900 + i), ctx.n(150, 3000))) for i in range(8)]
    tasks += _e1p.history_tasks(ctx, 'vf.props.c07:PLAN_REPEAT', quick=250)
    tasks += [(chk.operand_path_shard, ('vf.props.c07:SPEC32', i, 16, ctx.shard_seed(1100 + i), ctx.n(300, 3000))) for i in range(16)]
    ctx.pmap(_dispatch, tasks)
    ctx.acc.exhaustive = True
    ctx.acc.extra['exhaustive_part'] = 'all 16-bit halfwords; 32-bit class selection via the joint region partition; fetch-length rule over all first halfwords'


def _dispatch(fn, args):
    return fn(*args)


def replay(case, bucket=None):
    if 'poke' in case:
        return _e1p.replay_multi(case)
    if case.get('kind') == 'history':
        from vf.props import c06
        return chk.replay_history(SPEC32, c06.SPEC, case['word'])
    if case.get('kind') == 'fetch':
        a = shard_fetch(case['hw'], case['hw'] + 1, 1)
        return sorted(a.viol)
    return chk.replay_word(SPEC16 if case.get('nbits') == 16 else SPEC32, case['word'])
