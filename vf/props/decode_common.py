"""Engine E2: joint path enumeration of armulator's decoders and the reference encoding tables (class selection)."""
import random
import sys

from vf import target
from vf.runner import Acc
from vf.sym import sym
from vf.ref.enc import UNDEF, NOTIMPL, UNPRED, NOPISH

HINTISH = 'HINTISH'
UND = ('None', 'EXC:UndefinedInstructionException')
_patched = [False]


def patch():
    if not _patched[0]:
        sym.patch_armulator()
        _patched[0] = True


def traced_bit_count():
    import armulator.armv6.opcodes.decoders.arm_branch_branch_with_link_and_block_data_transfer as m
    return m.bit_count


def sym_fields(row, w):
    f = {}
    for k in row.fields:
        if k == 'x':
            continue
        v = None
        for hi, lo in row.runs(k):
            width = hi - lo + 1
            part = (w >> lo) & ((1 << width) - 1)
            v = part if v is None else (v << width) + part
        f[k] = v
    return f


def make_ref_dec(table, popcount_rows=()):
    bc = None

    def ref_dec(w):
        nonlocal bc
        for row in table:
            if (w & row.mask) == row.value:
                if row.guard is None:
                    return row
                f = sym_fields(row, w)
                if row.name in popcount_rows:
                    if bc is None:
                        bc = traced_bit_count()
                    if f['c'] != 15 and bc(f['r'], 1, 16) >= 2:
                        return row
                    continue
                if row.guard(f):
                    return row
        return None
    return ref_dec


def outcome_of(decoder, w):
    """armulator class-selection outcome for a (possibly symbolic) word"""
    try:
        r = decoder(w)
    except NotImplementedError:
        return 'EXC:NotImplemented'
    except Exception as e:
        return 'EXC:' + type(e).__name__
    return r.__name__ if isinstance(r, type) else 'None'


def full_outcome(decoder, w, cpu, nbits):
    """decode + from_bitarray on a concrete word: class name, 'None', 'UNPRED' (from_bitarray returned None) or EXC:*"""
    try:
        r = decoder(w)
    except NotImplementedError:
        return 'EXC:NotImplemented', None
    except Exception as e:
        return 'EXC:' + type(e).__name__, None
    if not isinstance(r, type):
        return 'None', None
    cpu.opcode = w
    cpu.opcode_len = nbits
    try:
        o = r.from_bitarray(w, cpu)
    except NotImplementedError:
        return 'EXC:NotImplemented', None
    except Exception as e:
        return 'EXC:' + type(e).__name__, None
    if o is None:
        return 'UNPRED:' + r.__name__, None
    return r.__name__, o


def compatible(a, row, full):
    """a: class-selection outcome; full(): lazily computed decode+from_bitarray outcome. returns (ok, expected token)"""
    c = row.cls if row is not None else UNDEF
    if c == UNDEF:
        if a in UND:
            return True, c
        fo = full()
        return fo in UND or fo.startswith('UNPRED:'), c        # UNPREDICTABLE reading of an unallocated word is tolerated only via UND
    if c == NOTIMPL:
        ok = a in UND + ('EXC:NotImplemented',)
        return ok or full() in UND + ('EXC:NotImplemented',), c
    if c == NOPISH:
        return a in UND + ('EXC:NotImplemented',) or a.startswith('Nop'), c
    if c == HINTISH:
        return a in UND + ('EXC:NotImplemented',) or a.startswith('Nop') or a.startswith('Pld'), c
    if c == UNPRED:
        return not a.startswith('EXC:') or a in ('EXC:UndefinedInstructionException', 'EXC:NotImplemented'), c
    return a == c, c


def joint_regions(decoder, ref_dec, nbits, fixed=(), skip=None):
    """yields (witness, armulator outcome, ref row, n_armulator_regions)"""
    patch()
    regions = list(sym.enumerate_paths(lambda w: outcome_of(decoder, w), nbits, fixed=list(fixed)))
    out = []
    for w, trace, a in regions:
        if skip and skip(w):
            continue
        for w2, trace2, row in sym.enumerate_paths(ref_dec, nbits, fixed=list(fixed) + trace):
            if isinstance(row, tuple):      # ('EXC', name) from the enumeration wrapper
                raise RuntimeError('reference decoder raised on %#x: %r' % (w2, row))
            out.append((w2, a, row, trace + trace2))
    return len(regions), out


def members(w, trace, nbits, rng, k):
    """extra members of the region described by `trace` (a list of literals): solve with random fills"""
    out = []
    for _ in range(k):
        m = sym.solve(list(trace), nbits, rng)
        if m is not None:
            out.append(m)
    return out
