"""C09 — multiply, divide, saturating, packed-SIMD, extend, bit-field instructions are bit-exact (E1 vs vf/ref/sem_mul.py)."""
from vf import gen
from vf.props import e1prop
from vf.ref import step  # noqa: F401
from vf.ref.core import REG

ROWS = sorted(n for n, (d, x) in REG.items() if x.__module__ == 'vf.ref.sem_mul')
M32 = 0xFFFFFFFF
LANE = [0x7F, 0x80, 0xFF, 0x00, 0x01, 0x7FFF, 0x8000, 0xFFFF, 0x0001, 0x7F80, 0x807F]


def lane_value(rng):
    r = rng.random()
    if r < 0.3:
        return (rng.choice(LANE) & 0xFFFF) << 16 | (rng.choice(LANE) & 0xFFFF)
    if r < 0.5:
        return sum((rng.choice(LANE) & 0xFF) << (8 * i) for i in range(4))
    if r < 0.65:
        return rng.choice((0x80000000, 0x7FFFFFFF, 0xFFFFFFFF, 0, 1, 0x10000, 0x8000, 0xFFFF0000, 0x40000000, 0xC0000000))
    return rng.getrandbits(32)


def tweak(rng, row, w, case):
    """operands from lane-boundary corners, products that are multiples of 2^32 / 2^64, INT_MIN / -1, divisor 0"""
    f = row.extract(w)
    st = case['state']
    mode = gen.MODE_NAME[st['cpsr'] & 31]
    for fld in ('n', 'm', 'a', 'h', 'l'):
        v = f.get(fld)
        if isinstance(v, int) and v <= 14 and rng.random() < 0.7:
            st[gen.bank_key(v, mode)] = lane_value(rng)
    if row.name.startswith(('SDIV', 'UDIV')):
        st['sctlr'] = st.get('sctlr', 0) | (rng.getrandbits(1) << 19)      # SCTLR.DZ on the 7-R profile; the same bit is WXN elsewhere and must not trap
    if row.name.startswith(('SDIV', 'UDIV')) and isinstance(f.get('m'), int) and f['m'] <= 14 and rng.random() < 0.4:
        st[gen.bank_key(f['m'], mode)] = rng.choice((0, 0, 1, 0xFFFFFFFF, 2, 0x80000000))
    if row.name.startswith(('MUL', 'MLA', 'UMULL', 'UMLAL', 'SMULL', 'SMLAL')) and rng.random() < 0.3:
        for fld, v in (('n', rng.choice((0x10000, 0x80000000, 0x100000))), ('m', rng.choice((0x10000, 2, 0x1000, 0x80000000)))):
            if isinstance(f.get(fld), int) and f[fld] <= 14:
                st[gen.bank_key(f[fld], mode)] = v
    nm = row.name
    def getr(fld):
        v = f.get(fld)
        return st.get(gen.bank_key(v, mode)) if isinstance(v, int) and v <= 14 else None
    def setr(fld, val):
        v = f.get(fld)
        if isinstance(v, int) and v <= 14:
            st[gen.bank_key(v, mode)] = val & M32
    if nm.startswith(('SMLAD', 'SMUAD', 'SMLSD', 'SMUSD', 'SMLALD', 'SMLSLD', 'SMLA', 'SMUL', 'SMLAW', 'SMULW', 'QD', 'QADD', 'QSUB')) and rng.random() < 0.2:
        # extreme products: (-2^15)^2 twice sums to +2^31, which does not fit the signed 32-bit intermediate
        setr('n', rng.choice((0x80008000, 0x80008000, 0x8000, 0x80000000, 0x7FFF8000, 0x80007FFF)))
        setr('m', rng.choice((0x80008000, 0x80008000, 0x8000, 0x80000000, 0x7FFF8000, 0x80007FFF)))
        if f.get('a') not in (f.get('n'), f.get('m')):
            setr('a', rng.choice((0, 1, 0x7FFFFFFF, 0x80000000, 0xFFFFFFFF, 0xFFFFFFFE, rng.getrandbits(32))))
        return
    if rng.random() < 0.25 and getr('n') is not None and getr('m') is not None:
        # accumulators chosen so that the exact result is 0 modulo 2^32 / 2^64 (Z from the truncated result, wrap of the accumulate)
        n_, m_ = getr('n'), getr('m')
        sn, sm = (n_ - (1 << 32) if n_ >> 31 else n_), (m_ - (1 << 32) if m_ >> 31 else m_)
        if nm.startswith('UMLAL') and len({f.get('h'), f.get('l'), f.get('n'), f.get('m')}) == 4:
            acc_ = (-(n_ * m_)) % (1 << 64)
            setr('h', acc_ >> 32); setr('l', acc_)
        elif nm.startswith(('SMLAL_', 'SMLALD', 'SMLSLD')) and len({f.get('h'), f.get('l'), f.get('n'), f.get('m')}) == 4:
            acc_ = (-(sn * sm)) % (1 << 64)
            setr('h', acc_ >> 32); setr('l', acc_)
        elif nm.startswith(('MLA_', 'SMLAD', 'SMMLA')) and f.get('a') not in (f.get('n'), f.get('m')):
            setr('a', -(sn * sm))
        elif nm.startswith('MLS_') and f.get('a') not in (f.get('n'), f.get('m')):
            setr('a', sn * sm)


def classify(res, case):
    out = []
    if res.status == 'ok' and res.cond_passed:
        x = res.pre['cpsr'] ^ res.M.s['cpsr']
        if x & (1 << 27):
            out.append('q-set')
        if x & 0xF0000:
            out.append('ge-changed')
        if x & 0xC0000000:
            out.append('nz-changed')
    return out


PLAN = e1prop.Plan('C09', ROWS, cfgs=('v6', 'v7', 'v7r', 'v5', 'v4', 'v7-virt'), classify=classify, tweak_case=tweak,
                   case_kw=lambda rng, row: {'mpu': False, 'mmu': False, 'e': 0})


def run(ctx):
    ctx.rule = ('Hypothesis draws (encoding row of MUL/MLA/MLS, long/halfword/dual/most-significant-word multiplies, SDIV/UDIV, QADD.., SSAT/USAT(16), '
                'the 36 parallel add/sub, SEL, USAD8/USADA8, extend(+add), BFC/BFI/SBFX/UBFX, PKH, REV*, RBIT, CLZ - ARM and Thumb; field bits; '
                'entropy; config incl. the 7-R profile with SCTLR.DZ); operand registers come from lane-boundary corners (0x7F/0x80/0xFF, '
                '0x7FFF/0x8000), INT_MIN/-1, divisor 0, products that are multiples of 2^32/2^64, prior Q and GE random; emulate_cycle() '
                'is compared with the reference machine on the complete snapshot. Non-trivial: condition passed and state other than PC '
                'changed; distinct = (word, CPSR, registers).')
    ctx.technique = 'property-based differential testing against an independent reference interpreter (Hypothesis-driven generation)'
    ctx.assumptions = ['vf/ref (tables + sem_mul.py) is a faithful reading of DDI 0406C', 'flag bits that are UNKNOWN on ARMv4 are not compared']
    e1prop.run_plan(ctx, 'vf.props.c09:PLAN', PLAN, shards=32, quick=700, thorough=12000)


def replay(case, bucket=None):
    return e1prop.replay(PLAN, case)
