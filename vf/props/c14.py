"""C14 — PMSA protection: MPU regions grant or deny access and report faults correctly.
(a) direct translate_address() on generated region sets vs the reference region match / AP table;
(b) load/store instructions (single, dual, multiple, SRS/RFE) with the MPU on: denied access at any position of a
    multi-word transfer, no write-back, Data Abort bookkeeping (full-state differential)."""
import random

from vf import gen, e1, target, diff
from vf.runner import Acc
from vf.props import e1prop
from vf.props.c02 import aim_base
from vf.ref import step  # noqa: F401
from vf.ref.core import REG
from vf.ref.machine import Machine, Abort, Unpred, Skip, M32

from armulator.armv6.arm_exceptions import DataAbortException

NREG = 12


def gen_regions(rng):
    """0..12 regions by construction: nested / overlapping / identical, sizes 4 bytes .. 4 GiB, subregion disables, all AP values"""
    st_ = {}
    anchors = [0x20000, 0x20000, 0x20080, 0x8000, 0, 0xFFFF0000, 0x80000000, 0x1FF00]
    n = rng.choice((0, 1, 2, 3, 5, 8, 12, 12))
    for r in range(NREG):
        if r >= n:
            st_['drsrs[%d]' % r] = rng.getrandbits(16) & ~1 if rng.random() < 0.3 else 0
            st_['drbars[%d]' % r] = 0
            st_['dracrs[%d]' % r] = 0
            continue
        rsize = rng.choice((1, 2, 3, 4, 6, 7, 8, 9, 11, 15, 16, 17, 23, 30, 31))
        lsb = rsize + 1
        base = rng.choice(anchors) + rng.choice((0, 0, 1, -1, 2)) * (1 << min(lsb, 30))
        base = (base & M32) >> lsb << lsb if lsb < 32 else 0
        en = 1 if rng.random() < 0.85 else 0
        sd = rng.getrandbits(8) if rng.random() < 0.5 else 0
        if rng.random() < 0.008:
            rsize = 0                                   # UNPREDICTABLE size: controlled fraction
        if rng.random() < 0.008 and lsb > 2:
            base |= 1 << rng.randrange(2, lsb)          # UNPREDICTABLE misaligned base
        st_['drsrs[%d]' % r] = (sd << 8) | (rsize << 1) | en
        st_['drbars[%d]' % r] = base & M32
        st_['dracrs[%d]' % r] = (rng.getrandbits(1) << 12) | ((rng.choice((4, 7)) if rng.random() < 0.02 else rng.choice((0, 1, 2, 3, 3, 5, 6))) << 8) | (rng.getrandbits(3) << 3) | rng.getrandbits(3)
    st_['mpuir'] = rng.choice((n, n, NREG, max(n - 1, 0))) << 8
    return st_


def probe_addresses(rng, st_):
    out = set()
    for r in range(NREG):
        rsr = st_['drsrs[%d]' % r]
        lsb = ((rsr >> 1) & 31) + 1
        base = st_['drbars[%d]' % r]
        size = 1 << lsb
        pts = [base, base + size]
        if lsb >= 8:
            pts += [base + k * (size >> 3) for k in range(1, 8)]
        for p in pts:
            for d in (-8, -4, -2, -1, 0, 1, 2, 4):
                out.add((p + d) & M32)
    out |= {rng.getrandbits(32) for _ in range(6)} | {0, M32, 0x20040, 0x8000}
    return sorted(out)


def shard_translate(seed, count):
    acc = Acc()
    rng = random.Random(seed)
    cfgov = gen.CONFIGS['v6']
    cfg = diff.full_cfg(cfgov)
    for _ in range(count):
        regs = gen_regions(rng)
        cpu = target.new_cpu(cfgov, False, [(0, 0x40)])
        m_on, br = (1 if rng.random() < 0.9 else 0), rng.getrandbits(1)
        st_ = dict(regs)
        st_['sctlr'] = m_on | (br << 17) | (rng.getrandbits(1) << 13)
        st_['cpsr'] = gen.cpsr_value(m=gen.MODES['svc'])
        st_['dfsr'] = rng.getrandbits(14)
        st_['dfar'] = rng.getrandbits(32)
        target.apply_state(cpu, st_)
        if rng.random() < 0.3:
            # the way system software programs the MPU: through the field accessors, reprogramming regions that held something else before
            # (every subregion-disable bit first set then set to its final value; enable last) - the final register values are the same
            for r in range(NREG):
                reg = cpu.registers.drsrs[r]
                want = regs['drsrs[%d]' % r]
                reg.en = 0
                for n in rng.sample(range(8), 8):
                    reg.set_sd_n(n, 1)
                reg.rsize = rng.getrandbits(5)
                for n in rng.sample(range(8), 8):
                    reg.set_sd_n(n, (want >> (8 + n)) & 1)
                reg.rsize = (want >> 1) & 31
                reg.en = want & 1
                reg.value = (reg.value & 0xFF3F) | (want & ~0xFF3F & 0xFFFFFFFF)       # bits without an accessor
                if reg.value != want:
                    acc.violation('C14:region-programming:DRSR', {'regs': st_, 'region': r, 'kind': 'programming'}, {'wanted': want, 'register_holds': reg.value})
                    reg.value = want
            acc.cls('translate:programmed-through-accessors')
        pre = target.snapshot(cpu, False)
        addrs = probe_addresses(rng, regs)
        rng.shuffle(addrs)
        for va in addrs[:40]:
            ispriv, iswrite = bool(rng.getrandbits(1)), bool(rng.getrandbits(1))
            size = rng.choice((1, 2, 4, 8))
            target.apply_state(cpu, {'dfsr': pre['dfsr'], 'dfar': pre['dfar']})
            M = Machine(pre, [], cfg)
            try:
                pa = M.translate(va, ispriv, iswrite, size, True)
                ref = ('ok', pa)
            except Abort as ab:
                M.report_abort(ab)
                ref = ('abort', ab.kind)
            except Unpred as e:
                ref = ('unpred', str(e))
            try:
                d = cpu.translate_address(va, ispriv, iswrite, size, True)
                got = ('ok', d.paddress.physicaladdress)
            except DataAbortException as e:
                got = ('abort', e.abort_type.name.lower())
            except Exception as e:
                got = ('host-error', repr(e))
            post = target.snapshot(cpu, False)
            # non-trivial: MPU on and (>=2 enabled regions contain the address, or within one access of a boundary, or a fault)
            nhit = 0
            near = False
            for r in range(min((regs['mpuir'] >> 8), NREG)):
                rsr = regs['drsrs[%d]' % r]
                lsb = ((rsr >> 1) & 31) + 1
                if rsr & 1 and (lsb == 32 or (va >> lsb) == (regs['drbars[%d]' % r] >> lsb)):
                    nhit += 1
                b = regs['drbars[%d]' % r]
                if min(abs(va - b), abs(va - (b + (1 << lsb)))) <= 8:
                    near = True
            nontriv = m_on and (nhit >= 2 or near or ref[0] == 'abort')
            acc.case(bool(nontriv) and ref[0] != 'unpred', (tuple(sorted(regs.items())), st_['sctlr'], va, ispriv, iswrite), cls='translate:' + ref[0] + (':' + ref[1] if ref[0] == 'abort' else ''),
                     sample=lambda: {'sctlr.M': m_on, 'sctlr.BR': br, 'regions(rsr,rbar,racr)': [[hex(regs['drsrs[%d]' % r]), hex(regs['drbars[%d]' % r]), hex(regs['dracrs[%d]' % r])] for r in range(regs['mpuir'] >> 8)][:6],
                                     'va': '%#x' % va, 'priv': ispriv, 'write': iswrite, 'matching_regions': nhit, 'reference': list(ref)})
            if nhit >= 2:
                acc.cls('overlap')
            if ref[0] == 'unpred':
                acc.excluded += 1
                if got[0] == 'host-error':
                    acc.violation('C14:translate:host-error', {'regs': st_, 'va': va, 'ispriv': ispriv, 'iswrite': iswrite}, {'got': list(got)})
                continue
            bad = None
            if got != ref:
                bad = {'reference': list(ref), 'armulator': list(got)}
            else:
                dd = diff.compare(M, post, pre)
                if dd:
                    bad = {'state(expected,observed)': e1.fmt_diff(dd)}
            if bad:
                acc.violation('C14:translate:%s-vs-%s' % (ref[0] + (':' + str(ref[1]) if ref[0] == 'abort' else ''), got[0] + (':' + str(got[1]) if got[0] == 'abort' else '')),
                              {'regs': st_, 'va': va, 'ispriv': ispriv, 'iswrite': iswrite, 'size': size}, bad)
    return acc


# ------------------------------------------------------------------------------------------------ via instructions
ROWS = sorted(n for n, (d, x) in REG.items() if x.__module__ in ('vf.ref.sem_ls', 'vf.ref.sem_lsm') and n in e1prop.ROWS and n not in ('PUSH_T2',))


def tweak(rng, row, w, case):
    """MPU on: code and vectors accessible; the data device is cut into allowed / denied pieces so that a multi-word transfer
    crosses a permission boundary at a random position"""
    st_ = case['state']
    for r in range(NREG):
        st_['drsrs[%d]' % r] = 0
        st_['drbars[%d]' % r] = 0
        st_['dracrs[%d]' % r] = 0
    st_['drsrs[0]'] = (31 << 1) | 1
    st_['dracrs[0]'] = 3 << 8                                        # everything RW for everybody
    # region 1: the 256-byte data device with a random AP; region 2: a 32/64-byte window inside it with another AP; subregions of region 1 disabled at random
    st_['drsrs[1]'] = (rng.getrandbits(8) << 8 if rng.random() < 0.4 else 0) | (7 << 1) | 1
    st_['drbars[1]'] = gen.DATA[0]
    st_['dracrs[1]'] = rng.choice((0, 1, 2, 3, 5, 6)) << 8
    rs = rng.choice((4, 5, 3))
    st_['drsrs[2]'] = (rs << 1) | (1 if rng.random() < 0.8 else 0)
    st_['drbars[2]'] = gen.DATA[0] + rng.randrange(0, 256 >> (rs + 1)) * (1 << (rs + 1))
    st_['dracrs[2]'] = rng.choice((0, 1, 2, 3, 5, 6)) << 8
    st_['mpuir'] = rng.choice((3, 3, 12, 2)) << 8
    st_['sctlr'] = (st_['sctlr'] | 1) & ~(1 << 13)
    if rng.random() < 0.2:
        st_['drsrs[0]'] = 0                                          # no catch-all: background region rule (BR)
        st_['sctlr'] |= rng.getrandbits(1) << 17
        # keep code and vectors reachable
        st_['drsrs[3]'] = (15 << 1) | 1
        st_['drbars[3]'] = case['state']['R.PC'] & 0xFFFF0000
        st_['dracrs[3]'] = 3 << 8
        st_['drsrs[4]'] = (7 << 1) | 1
        st_['drbars[4]'] = 0
        st_['dracrs[4]'] = 3 << 8
        st_['mpuir'] = 12 << 8
    st_['vbar'] = 0
    aim_base(rng, row, w, case)
    f = row.extract(w)
    mode = gen.MODE_NAME[st_['cpsr'] & 31]
    if 'n' not in f or row.name.startswith(('PUSH', 'POP', 'SRS')):
        k = gen.bank_key(13, mode)
        if row.name.startswith('SRS') and f.get('m') in gen.MODE_NAME:
            k = gen.bank_key(13, gen.MODE_NAME[f['m']])
        st_[k] = gen.DATA[0] + 4 * rng.randrange(2, 0x3E)
    else:
        k = gen.bank_key(f['n'], mode) if f['n'] <= 14 else None
    dev = [m_ for m_ in case['mems'] if m_[0] == gen.DATA[0]]
    if k and dev and 'drsrs[11]' in st_ and (dev[0][0] + dev[0][1]) % 4 in (2, 3) and rng.random() < 0.2:
        # an unaligned access that starts in the last byte(s) of the data device, continues in the device behind it and meets a no-access word two or one
        # bytes further on: the bytes in front of the aborting one belong to two devices
        e_ = dev[0][0] + dev[0][1]
        a_ = e_ - 1
        imm = f.get('i', 0) if ('i' in f and 'U' in f and f.get('P', 1) and len(row.fields.get('i', ())) in (8, 12)) else 0
        st_[k] = (a_ - imm if f.get('U', 1) else a_ + imm) & 0xFFFFFFFF
        st_['drsrs[11]'] = (1 << 1) | 1
        st_['drbars[11]'] = (a_ + 4) & ~3
        st_['dracrs[11]'] = 0
        st_['mpuir'] = 12 << 8
        st_['sctlr'] &= ~2                      # SCTLR.A off: the access is made byte by byte where the architecture version supports it
        return
    if k and 'drsrs[11]' in st_ and rng.random() < 0.08:
        # the access hits the word that holds the instruction itself, inside a small region that may be read (the fetch has just read it) but not
        # written at this privilege: the permission of a store is decided by its own direction, not by what an earlier access to the same word was allowed
        pc = st_['R.PC'] & ~3
        imm = f.get('i', 0) if (f.get('P', 1) and 'i' in f and not row.name.endswith(('_T1', '_T2')) or 'P' not in f and 'i' in f and len(row.fields.get('i', ())) == 12) else 0
        st_[k] = (pc - imm if f.get('U', 1) else pc + imm) & 0xFFFFFFFF
        st_['drsrs[11]'] = (4 << 1) | 1
        st_['drbars[11]'] = pc & ~31
        st_['dracrs[11]'] = rng.choice((5, 6, 6, 2, 3, 1)) << 8
        st_['mpuir'] = 12 << 8
        return
    if k and 'drsrs[11]' in st_ and rng.random() < 0.2:
        # the smallest region there is (4 bytes) with a restrictive AP on one word of the transfer: the second word of a doubleword access, one slot
        # of a multiple transfer - every word is checked on its own
        st_['drsrs[11]'] = (1 << 1) | 1
        st_['drbars[11]'] = ((st_[k] & ~7) + 4 * rng.randrange(-2, 6)) & 0xFFFFFFFC
        st_['dracrs[11]'] = rng.choice((0, 1, 2, 5, 6)) << 8
        st_['mpuir'] = 12 << 8
        if row.name.startswith(('LDRD', 'STRD')) and rng.random() < 0.7:
            st_[k] &= ~7


def classify(res, case):
    out = []
    if res.status == 'abort':
        out.append('abort:' + res.detail)
        M, pre = res.M, res.pre
        if any(bytes(arr) != pre.get('mem%d' % i) for i, (b, e, arr) in enumerate(M.mem)) or \
                any(k.startswith('R.') and k not in ('R.PC', 'R.LRabt') and pre[k] != v for k, v in M.s.items()):
            out.append('abort-after-partial-transfer')
    return out


def nontrivial(res):
    return res.status == 'abort' or e1prop.default_nontrivial(res)


from vf.props.c03 import shape_list as _shape_list  # noqa: E402


def shape_list(row, w, entropy):
    """register lists as in C03; doubleword immediates mostly small so that the one-word regions placed next to the base fall inside the access"""
    w = _shape_list(row, w, entropy)
    if row.name.startswith(('LDRD_imm', 'STRD_imm')) and 'i' in row.fields and (entropy >> 7) % 3:
        v = (0, 4, 8, 0)[(entropy >> 9) & 3]
        for j, p_ in enumerate(reversed(row.fields['i'])):
            w = (w & ~(1 << p_)) | (((v >> j) & 1) << p_)
    return w


PLAN = e1prop.Plan('C14', ROWS, cfgs=('v6', 'v7', 'v6-nosec'), classify=classify, nontrivial=nontrivial, tweak_case=tweak, tweak_word=shape_list,
                   case_kw=lambda rng, row: {'mpu': True, 'e': rng.choice((0, 0, 1)), 'code_base': 0x8000,
                                             'mode': rng.choice(('usr', 'usr', 'svc', 'irq', 'sys', 'abt'))})


def run(ctx):
    ctx.rule = ('(a) translate_address(va, priv, write) on generated MPU configurations: 0..12 regions built by construction (sizes 4 B..4 GiB, aligned '
                'bases, nested / overlapping / identical, 8 subregion-disable bits, every AP incl. reserved ones, MPUIR.DRegion 0..12, a small controlled '
                'fraction with UNPREDICTABLE size/base), SCTLR.M/BR, addresses at every region and subregion boundary +-{1,2,4,8} plus random; oracle = '
                'highest-numbered matching enabled region + AP table + background rule, and DFSR/DFAR on faults (full register comparison). '
                '(b) every LDR/STR/LDRD/STRD/LDM/STM/PUSH/POP/SRS/RFE encoding executed with the MPU on and the data window cut into regions of different AP '
                'so that the denied access falls at any position of the transfer: complete post-state vs the reference (earlier words transferred, no '
                'write-back, DFSR.FS/WnR, DFAR, LR_abt = instr+8, SPSR_abt, CPSR, PC = vector+0x10). Non-trivial: MPU on and (>=2 regions overlap the '
                'address, or within 8 bytes of a boundary, or a fault); distinct = (regions, address, access) / (word, state).')
    ctx.technique = 'property-based differential testing against a reference MPU model (constructed region sets, boundary-directed addresses)'
    ctx.assumptions = ['vf/ref/machine.py translate_p / check_ap / abort reporting are faithful readings of DDI 0406C B5', 'UNPREDICTABLE region encodings are excluded from exact comparison']
    tasks = [(shard_translate, (ctx.shard_seed(i), ctx.n(400, 9000))) for i in range(16)]
    ctx.pmap(_dispatch, tasks)
    e1prop.run_plan(ctx, 'vf.props.c14:PLAN', PLAN, shards=16, quick=900, thorough=15000)


def _dispatch(fn, args):
    return fn(*args)


def replay(case, bucket=None):
    if case.get('kind') == 'programming':
        # deterministic re-run of the accessor sequence for that region: all subregion bits set, then the wanted value
        cpu = target.new_cpu(gen.CONFIGS['v6'], False, [(0, 0x40)])
        reg = cpu.registers.drsrs[case['region']]
        want = case['regs']['drsrs[%d]' % case['region']]
        reg.value = 0
        for n in range(8):
            reg.set_sd_n(n, 1)
        reg.rsize = 31
        reg.en = 1
        for n in range(8):
            reg.set_sd_n(n, (want >> (8 + n)) & 1)
        reg.rsize = (want >> 1) & 31
        reg.en = want & 1
        return ['DRSR holds %#x, programmed %#x' % (reg.value & 0xFF3F, want & 0xFF3F)] if (reg.value & 0xFF3F) != (want & 0xFF3F) else []
    if 'regs' in case:
        cfgov = gen.CONFIGS['v6']
        cpu = target.new_cpu(cfgov, False, [(0, 0x40)])
        target.apply_state(cpu, case['regs'])
        pre = target.snapshot(cpu, False)
        M = Machine(pre, [], diff.full_cfg(cfgov))
        try:
            ref = ('ok', M.translate(case['va'], case['ispriv'], case['iswrite'], case.get('size', 4), True))
        except Abort as ab:
            M.report_abort(ab)
            ref = ('abort', ab.kind)
        except Unpred:
            return []
        try:
            got = ('ok', cpu.translate_address(case['va'], case['ispriv'], case['iswrite'], case.get('size', 4), True).paddress.physicaladdress)
        except DataAbortException as e:
            got = ('abort', e.abort_type.name.lower())
        if got != ref:
            return ['%r vs %r' % (ref, got)]
        d = diff.compare(M, target.snapshot(cpu, False), pre)
        return [str(sorted(d))] if d else []
    return e1prop.replay(PLAN, case)
