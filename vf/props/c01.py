"""C01 — data-processing instructions compute the architectural result and flags (E1 differential vs vf/ref/sem_dp.py)."""
from vf.props import e1prop
from vf.ref import sem_dp  # noqa: F401
from vf.ref.core import REG

ROWS = sorted(n for n, (d, x) in REG.items() if x.__module__ == 'vf.ref.sem_dp')


def classify(res, case):
    out = []
    M, pre = res.M, res.pre
    if res.status == 'ok' and res.cond_passed:
        x = pre['cpsr'] ^ M.s['cpsr']
        if x & 0x20000000:
            out.append('carry-changed')
        if x & 0x10000000:
            out.append('overflow-changed')
        if M.branched:
            out.append('pc-written')
    return out


PLAN = e1prop.Plan('C01', ROWS, cfgs=('v6', 'v7', 'v5', 'v4', 'v6-nosec', 'v7-virt'), classify=classify,
                   case_kw=lambda rng, row: {'mpu': False, 'mmu': False, 'e': 0})


def run(ctx):
    ctx.rule = ('Hypothesis draws (encoding row of the data-processing family, field bits, register-number tweak towards SP/LR/PC/aliases, '
                'cond with AL bias, entropy, configuration arch 4..7); the word is built from the reference encoding table; the entropy is '
                'expanded into %d machine states (all 34 core registers from corners/pointers/random, NZCVQ/GE/IT/AIF/mode random and valid); '
                'emulate_cycle() is compared with the reference machine on the complete snapshot (registers of every bank, CPSR, SPSRs, '
                'system registers, all memory bytes). UNPREDICTABLE cases are only checked for totality. Non-trivial: condition passed and '
                'something other than PC/ITSTATE changed; distinct = (word, CPSR, core registers). Plus the same encoding executed twice by one instance (X ; flag-setting instruction ; [IT] ; X), '
                'every step compared: nothing remembered from the first execution (carry-in of the immediate, set-flags-outside-IT) may leak into the second.' % e1prop.VECS)
    ctx.technique = 'property-based differential testing against an independent reference interpreter (Hypothesis-driven generation)'
    ctx.assumptions = ['vf/ref (tables + sem_dp.py + machine.py) is a faithful reading of DDI 0406C',
                       'MPU off and CPSR.E=0 here (protection and endianness are C14 / C13)']
    e1prop.run_plan(ctx, 'vf.props.c01:PLAN', PLAN, shards=32, quick=700, thorough=12000)       # incl. the repeat shard (X ; flag setter ; [IT] ; X on one instance)


def replay(case, bucket=None):
    return e1prop.replay(PLAN, case)
