"""C04 — control flow: PC advance, branch targets, link values, interworking (E1 differential vs vf/ref/sem_br.py)."""
from vf.props import e1prop
from vf.ref import step  # noqa: F401  (loads every semantics module)
from vf.ref.core import REG

BR = sorted(n for n, (d, x) in REG.items() if x.__module__ == 'vf.ref.sem_br')
# instructions that read or write the PC through other families
EXTRA = ['ADR_A1', 'ADR_A2', 'ADR_T1', 'ADR_T2', 'ADR_T3', 'ADD_reg_A1', 'MOV_reg_A1', 'ADD_reg_T2', 'MOV_reg_T1', 'ADD_imm_A1', 'SUB_imm_A1',
         'LDR_lit_A1', 'LDR_lit_T1', 'LDR_lit_T2', 'LDR_imm_A1', 'LDR_reg_A1', 'POP_A1', 'POP_T1', 'POP_T2', 'LDM_A1', 'STR_imm_A1', 'PUSH_A1',
         'NOP_A1', 'NOP_T1', 'NOP_T2', 'MUL_A1', 'UXTB_T1', 'AND_imm_T1']
# every word load and load-multiple form can write the PC (interworking branch): all of them, with the destination forced to PC in 40 % of the draws
PC_LOADS = sorted(n for n, (d, x) in REG.items() if (x.__module__ == 'vf.ref.sem_ls' and n.startswith('LDR_')) or
                  (x.__module__ == 'vf.ref.sem_lsm' and n.startswith(('LDM', 'POP'))))
ROWS = BR + [r for r in EXTRA if r in REG] + [r for r in PC_LOADS if r not in EXTRA]


def to_pc(row, w, entropy):
    import random
    rng = random.Random(entropy ^ 0x9C)
    if row.name == 'TBB_TBH_T1':
        if rng.random() < 0.4:
            for p_ in row.fields['n']:
                w |= 1 << p_                    # the branch table follows the instruction: Rn = PC
        return w
    if row.name not in PC_LOADS or rng.random() >= 0.4:
        return w
    if 't' in row.fields and len(row.fields['t']) == 4:
        for p_ in row.fields['t']:
            w |= 1 << p_
    elif 'r' in row.fields and len(row.fields['r']) == 16:
        w |= 1 << row.fields['r'][0]
    elif 'P' in row.fields and len(row.fields['P']) == 1:
        w |= 1 << row.fields['P'][0]
    return w


def aim(rng, row, w, case):
    if row.name in PC_LOADS:
        from vf.props import c02, c03
        (c03.tweak if row.name.startswith(('LDM', 'POP')) else c02.aim_base)(rng, row, w, case)
        # the loaded words are plausible branch targets (ARM / Thumb addresses inside the code device, some misaligned)
        import struct
        from vf import gen
        words = [(case['state']['R.PC'] & ~0xFF) + 4 * rng.randrange(0, 0x30) + rng.choice((0, 0, 1, 1, 2, 3)) for _ in range(gen.DATA[1] // 4)]
        case['poke'].append([gen.DATA[0], struct.pack('<%dI' % len(words), *[x & 0xFFFFFFFF for x in words]).hex()])
        st = case['state']
        f = row.extract(w)
        if row.name.startswith(('LDM', 'POP')) and 'drsrs[0]' in st and rng.random() < 0.25:
            # the word that loads the PC (the highest of the transfer) lies in a one-word no-access MPU region: the Data Abort comes after every other
            # register was read - the base register must still be what it was, so that the handler can return to the instruction and run it again
            mode = gen.MODE_NAME[st['cpsr'] & 31]
            n = 13 if (row.name.startswith('POP') or 'n' not in f) else f['n']
            if n <= 14:
                regs = f.get('r', 0) | ((f.get('P', 0) & 1) << 15 if 'P' in f and len(row.fields.get('P', ())) == 1 and not row.name.startswith('LDM_A') else 0)
                nwords = max(bin(regs).count('1'), 1)
                base_ = st[gen.bank_key(n, mode)]
                name = row.name
                if 'DA' in name:
                    top = base_
                elif 'DB' in name:
                    top = base_ - 4
                elif 'IB' in name:
                    top = base_ + 4 * nwords
                else:
                    top = base_ + 4 * (nwords - 1)
                for r_ in range(12):
                    st['drsrs[%d]' % r_] = 0
                st['drsrs[0]'], st['drbars[0]'], st['dracrs[0]'] = (31 << 1) | 1, 0, 3 << 8
                st['drsrs[11]'], st['drbars[11]'], st['dracrs[11]'] = (1 << 1) | 1, top & 0xFFFFFFFC, 0
                st['mpuir'] = 12 << 8
                st['sctlr'] = (st['sctlr'] | 1) & ~(1 << 13)
                if 'vbar' in st:
                    st['vbar'] = 0


def classify(res, case):
    out = []
    M, pre = res.M, res.pre
    if res.status == 'ok' and res.cond_passed and M.branched:
        out.append('branch-taken')
        if M.s['R.PC'] < pre['R.PC']:
            out.append('backward')
        if (M.s['cpsr'] ^ pre['cpsr']) & 0x20:
            out.append('instruction-set-switch')
        if abs(M.s['R.PC'] - pre['R.PC']) > 0x80000000:
            out.append('wrapped')
    elif res.status == 'ok':
        out.append('pc-advanced')
    return out


def nontrivial(res):
    return res.status == 'ok' and bool(res.cond_passed) and res.M.branched


def case_kw(rng, row):
    kw = {'mpu': False, 'mmu': False, 'e': 1 if rng.random() < 0.2 else 0}          # branch tables (TBB/TBH) and PC loads are data accesses: they follow CPSR.E
    if rng.random() < 0.4:
        kw['code_base'] = rng.choice((0, 0xFFFFFF00, 0xFFFF0000, 0x7FFFFF80, 0x80000000))     # instruction addresses next to 0 / 2^31 / 2^32: targets and link values wrap
    if row.n == 16 or row.name.endswith(('_T1', '_T2', '_T3', '_T4')):
        kw['pc_off'] = rng.choice((0, 2))
    if row.name == 'TBB_TBH_T1':
        kw['e'] = 1 if rng.random() < 0.4 else 0          # the table is data: halfword entries are byte-reversed with CPSR.E = 1
        if rng.random() < 0.7:
            kw['it'] = 0
    return kw


def post_check(acc, res, case):
    return False


PLAN = e1prop.Plan('C04', ROWS, cfgs=('v6', 'v7', 'v5', 'v4', 'v7-virt', 'v7-jz'), classify=classify, nontrivial=nontrivial, case_kw=case_kw, tweak_word=to_pc, tweak_case=aim)


def run(ctx):
    ctx.rule = ('Hypothesis draws (branch / PC-reading / PC-writing encoding row, offset and register field bits, entropy, arch 4..7); '
                'the word is built from the reference table and executed at instruction addresses 0, mid-space, 0xFFFF0000, and the last '
                'bytes below 2^32 (both 0 and 2 mod 4 in Thumb) from %d generated states; emulate_cycle() is compared with the '
                'reference machine on the complete snapshot (PC, LR, T bit, everything else unchanged). Non-trivial: a taken branch / PC '
                'write; distinct = (word, CPSR, registers).' % e1prop.VECS)
    ctx.technique = 'property-based differential testing against an independent reference interpreter (Hypothesis-driven generation)'
    ctx.assumptions = ['vf/ref (tables + sem_br.py + machine.py) is a faithful reading of DDI 0406C']
    e1prop.run_plan(ctx, 'vf.props.c04:PLAN', PLAN, shards=32, quick=500, thorough=10000)
    # invariant: PC alignment after every step is part of the full-state comparison (the reference never leaves PC misaligned)


def replay(case, bucket=None):
    return e1prop.replay(PLAN, case)
