"""Engine E1: run a case on armulator and on the reference machine, compare complete post-states."""
import json

from vf import e1, target
from vf.ref.machine import Machine, M32
from vf.ref import step as rstep
from vf.ref.snapshot_keys import KEYS

_cfg_cache = {}
_IDX = __import__('re').compile(r'\[\d+\]')


def _strip(k):
    return _IDX.sub('[]', k)


def full_cfg(overrides):
    key = json.dumps(overrides or {}, sort_keys=True)
    c = _cfg_cache.get(key)
    if c is None:
        c = json.loads(json.dumps(target.DEFAULT_CONFIG))
        for k, v in (overrides or {}).items():
            if k == 'reset_values':
                c['reset_values'].update(v)
            else:
                c[k] = v
        _cfg_cache[key] = c
    return c


FAULT_KEYS = ('dfsr', 'dfar', 'hsr', 'hdfar', 'hpfar', 'ifsr', 'ifar')


class Result:
    __slots__ = ('status', 'detail', 'diffs', 'row', 'M', 'pre', 'post', 'exc', 'step', 'cond_passed', 'range_bad')

    def __init__(self):
        self.status = 'ok'
        self.detail = ''
        self.diffs = {}
        self.row = None
        self.M = None
        self.exc = None
        self.step = 0
        self.cond_passed = None
        self.range_bad = []


def compare(M, post, pre):
    """post: armulator snapshot; M: reference machine after the step. returns dict of differing keys"""
    d = {}
    s = M.s
    for k, v in post.items():
        if k.startswith('mem'):
            continue
        if k not in KEYS and _strip(k) not in KEYS:
            continue            # not architectural state (see vf/ref/snapshot_keys.py)
        if k in M.unknown:
            if not isinstance(v, int) or not (0 <= v <= M32):
                d[k] = ('UNKNOWN but out of range', v)
            continue
        if k not in s:
            continue
        if s[k] != v:
            ub = M.unknown_bits.get(k)
            if ub and isinstance(v, int) and isinstance(s[k], int) and not ((s[k] ^ v) & ~ub):
                continue
            d[k] = (s[k], v)
    for i, (b, e, arr) in enumerate(M.mem):
        got = post.get('mem%d' % i)
        if got is None:
            continue
        if len(got) != len(arr):
            d['mem%d.len' % i] = (len(arr), len(got))
            continue
        if bytes(arr) != got:
            for j in range(len(arr)):
                if arr[j] != got[j] and (id(arr), j) not in M.unknown_mem:
                    d['mem%d+%#x' % (i, j)] = (arr[j], got[j])
                    if len(d) > 12:
                        break
    return d


def apply_inject(M, api):
    if isinstance(api, (list, tuple)) and api and api[0] == 'set':
        M.s[api[1]] = api[2]
        M.thumb = bool((M.s['cpsr'] >> 5) & 1)
        return True
    if isinstance(api, (list, tuple)) and api and api[0] == 'hub':
        if api[1] == 'swap':
            (b1, e1_, a1), (b2, e2_, a2) = M.mem[api[2]], M.mem[api[3]]
            M.mem[api[2]], M.mem[api[3]] = (b2, e2_, a1), (b1, e1_, a2)
        elif api[1] == 'move':
            b1, e1_, a1 = M.mem[api[2]]
            M.mem[api[2]] = (api[3], api[3] + (e1_ - b1), a1)
        elif api[1] == 'pop':
            M.mem.pop()
        else:
            return False
        return True
    if api in ('swap_registers', 'swap_cpsr'):
        return True                 # a register file replaced by a deep copy of itself is the same register file
    if api == 'take_data_abort':
        from vf.ref.machine import Abort
        M.take_data_abort(Abort('permission', 0, False))
        return True
    if api == 'take_physical_irq_exception':
        M.take_irq()
    elif api == 'take_physical_fiq_exception':
        M.take_fiq()
    elif api == 'send_event_local':
        M.s['event_register'] = True
    else:
        return False
    return True


def run(case, stop_on=('unpred', 'skip'), quirks=()):
    """returns Result for the first step that disagrees or cannot be compared; 'ok' if all steps agree"""
    cpu, pre, posts, excs = e1.run(case)
    cfg = full_cfg(case.get('cfg'))
    M = Machine(pre, [tuple(m) for m in case['mems']], cfg, case.get('hooked', False))
    M.quirks = frozenset(quirks)
    res = Result()
    res.M, res.pre = M, pre
    prev = pre
    by = e1.bystander_check()
    if by:
        res.status, res.diffs, res.post, res.exc = 'ok', by, posts[-1] if posts else pre, None
        return res
    inject = case.get('inject') or {}
    for i, post in enumerate(posts):
        res.step = i
        api = inject.get(str(i))
        mems_prev = [(b_, e_ - b_) for b_, e_, _a in M.mem]         # (the map as it was before an injected change of it)
        if api:
            # what the embedder did before this step (e1.run made the same call on the instance)
            if not apply_inject(M, api):
                res.status, res.detail, res.post, res.exc = 'skip', 'injection without reference semantics: ' + api, post, excs[i]
                return res
        st, detail = rstep.step(M)
        res.status, res.detail = st, detail
        res.row = getattr(M, 'row', None)
        res.cond_passed = getattr(M, 'cond_passed', None)
        res.post = post
        res.exc = excs[i]
        res.range_bad = e1.in_range(post)
        if st in ('unpred', 'skip'):
            return res
        if st == 'notimpl':
            # accepted outcomes: NotImplementedError from a documented site with core state unchanged, or Undefined taken
            if excs[i] is not None and target.escape_ok(excs[i]):
                d = {k: (prev.get(k), v) for k, v in post.items() if k not in FAULT_KEYS and prev.get(k) != v}
                # transfers the instruction had architecturally completed before it reached the unimplemented hook (earlier words of an
                # LDM/LDRD/STM whose later word faults, the fault report needing the hook) are not "state changed": accept exactly the
                # values the reference had produced at the point where it hit the same hook
                for k in list(d):
                    if k.startswith('mem') and k[3:].isdigit():
                        if bytes(M.mem[int(k[3:])][2]) == post[k]:
                            del d[k]
                    elif M.s.get(k) == post[k] or k in M.unknown:
                        del d[k]
                if d:
                    res.diffs = d
                    res.status = 'notimpl-state-changed'
                elif i + 1 < len(posts) and any(int(k_) > i for k_ in inject):
                    # the embedder caught the error and carries on with this instance (an interrupt is delivered next): the state is what it was
                    # (fault registers excepted): the reference goes on from armulator's snapshot
                    M = Machine(post, [(b_, e_ - b_) for b_, e_, _a in M.mem], cfg, case.get('hooked', False))
                    M.quirks = frozenset(quirks)
                    res.M = M
                    prev = post
                    continue
            elif excs[i] is None:
                M2 = Machine(prev, mems_prev, cfg, case.get('hooked', False))
                if api:
                    apply_inject(M2, api)
                M2.take_undef()
                d = compare(M2, post, prev)
                if d:
                    res.diffs = d
                    res.status = 'notimpl-unexpected-completion'
            else:
                res.diffs = {'exception': (None, repr(excs[i]))}
                res.status = 'host-error'
            return res
        if excs[i] is not None:
            res.diffs = {'exception': (None, repr(excs[i]))}
            res.status = 'host-error' if not target.escape_ok(excs[i]) else 'unexpected-notimpl'
            return res
        d = compare(M, post, prev)
        if d:
            res.diffs = d
            return res
        if i + 1 < len(posts) and (M.unknown or M.unknown_bits or M.unknown_mem):
            # an UNKNOWN value was produced and more steps follow: continue from the value armulator chose (any value is architecturally allowed),
            # otherwise a later instruction that consumes it would be compared against a different operand
            for k in M.unknown:
                if k in post:
                    M.s[k] = post[k]
            for k, ub in M.unknown_bits.items():
                if k in post and isinstance(post[k], int):
                    M.s[k] = (M.s[k] & ~ub) | (post[k] & ub)
            if M.unknown_mem:
                for j, (b, e, arr) in enumerate(M.mem):
                    got = post.get('mem%d' % j)
                    if got is not None and len(got) == len(arr):
                        for (aid, off) in [x for x in M.unknown_mem if x[0] == id(arr)]:
                            arr[off] = got[off]
            M.unknown.clear()
            M.unknown_bits.clear()
            M.unknown_mem.clear()
            M.thumb = bool((M.s['cpsr'] >> 5) & 1)
        prev = post
    return res
