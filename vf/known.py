"""Known findings: key -> predicate over (reference result, case).  A discrepancy is attributed to a finding only if the
key is listed in KNOWN_FINDINGS.txt for the property, the predicate matches AND the reference with that quirk enabled
reproduces the observed post-state exactly (checked by the caller)."""
from vf.runner import load_known

_LISTED = None

PRED = {
    'cbz-scale': lambda res, case: res.row == 'CBZ_T1',
    'push-t2-unaligned': lambda res, case: res.row == 'PUSH_T2',
}


def listed(prop):
    global _LISTED
    if _LISTED is None:
        _LISTED = load_known()
    return [k for (p, k) in _LISTED if p == prop]


def match(prop, res, case):
    return [k for k in listed(prop) if k in PRED and PRED[k](res, case)]
