"""Known findings: key -> predicate over (reference result, case).  A discrepancy is attributed to a finding only if the
key is listed in KNOWN_FINDINGS.txt for the property, the predicate matches AND the reference with that quirk enabled
reproduces the observed post-state exactly (checked by the caller)."""
from vf.runner import load_known

_LISTED = None

def _sp(case):
    from vf import gen
    st = case['state']
    return st.get(gen.bank_key(13, gen.MODE_NAME.get(st['cpsr'] & 31, 'usr')), 0)


PRED = {
    'cbz-scale': lambda res, case: res.row == 'CBZ_T1',
    'bfi-source-bits': lambda res, case: res.row in ('BFI_A1', 'BFI_T1'),
    'mrs-app-view': lambda res, case: res.row in ('MRS_A1_app', 'MRS_T1_app') and (case['state']['cpsr'] & 31) != 0b10000,
    'push-t2-unaligned': lambda res, case: res.row == 'PUSH_T2' and _sp(case) & 3 != 0,
}


def listed(prop):
    global _LISTED
    if _LISTED is None:
        _LISTED = load_known()
    return [k for (p, k) in _LISTED if p == prop]


def match(prop, res, case):
    return [k for k in listed(prop) if k in PRED and PRED[k](res, case)]


def match_elsewhere(prop, res, case):
    """keys of findings listed under OTHER properties whose predicate matches: the discrepancy belongs to that property's check
    (which prints the KNOWN-FINDING line); the caller excludes the case only if the quirk reproduces the observed state exactly"""
    global _LISTED
    if _LISTED is None:
        _LISTED = load_known()
    mine = set(listed(prop))
    return sorted({k for (p, k) in _LISTED if p != prop and k not in mine and k in PRED and PRED[k](res, case)})
