"""Case execution: build a fresh ArmV6 for a case, apply the generated state, step, snapshot."""
import struct

from vf import target

M32 = 0xFFFFFFFF


def make_case(cfg, mems, state, poke, steps=1, hooked=False):
    return {'cfg': cfg or {}, 'hooked': bool(hooked), 'mems': [list(m) for m in mems], 'state': state,
            'poke': [[a, d.hex() if isinstance(d, (bytes, bytearray)) else d] for a, d in poke], 'steps': steps}


def _scramble_loaded_configuration(path):
    """what an earlier user of the process may have left behind: configuration values edited in memory (never written to a file). An instance created
    from a configuration file afterwards gets what the file says, so this must have no effect. The scrambled values are a function of the file
    (so that a case behaves the same in a long-running shard and in a fresh replay process)."""
    try:
        import json
        from armulator.armv6.configurations import configurations
        cfg = getattr(configurations, 'configs', None)
        on_file = json.load(open(path))
        if isinstance(cfg, dict):
            for k, v in on_file.items():
                if isinstance(v, bool):
                    cfg[k] = not v
                elif k == 'arch_version' and isinstance(v, int):
                    cfg[k] = 4 if v >= 6 else 7
    except Exception:      # noqa: BLE001 - a refactored configuration module must not break the harness
        pass


_CLONE = {}


def build(case):
    target.load_config(case.get('cfg') or None)          # (the same file the instance is about to be created from: the scramble is self-contained)
    _scramble_loaded_configuration(target.config_path(case.get('cfg') or None))
    cpu = target.new_cpu(case.get('cfg') or None, case.get('hooked', False), [tuple(m) for m in case['mems']])
    target.budget_cpu(cpu, case.get('hooked', False))
    _CLONE.clear()
    if (case['state'].get('cpsr', 0) ^ case['state'].get('R.R0usr', 0)) % 37 == 0:
        # one case in 37 (a function of the case): a deep copy of the freshly constructed instance is set aside before the embedder programs the original
        # (registers written in place through their accessors, memory filled) and steps it - a copy is a separate processor, nothing may reach it
        import copy
        _CLONE['cpu'] = copy.deepcopy(cpu)
        _CLONE['snap'] = target.snapshot(_CLONE['cpu'], True)
    target.apply_state(cpu, case['state'])
    for a, d in case.get('poke', ()):
        target.poke(cpu, a, bytes.fromhex(d) if isinstance(d, str) else d)
    return cpu


# ---------------------------------------------------------------------------------------------- bystander instance
# One further ArmV6 stays alive in every worker process with a recognisable state and its own small memory. Nothing a case does - constructing
# instances, stepping them, taking exceptions - may change it ("every other register and memory byte is left unchanged" includes the ones of
# another processor object). Re-armed after a report so that one defect does not cascade.
_BY = {}


def _arm_bystander():
    cpu = target.new_cpu(None, False, [(0x4000, 0x40)])
    st = {'R.R%dusr' % i: 0x5E000000 + i for i in range(13)}
    st.update({'R.PC': 0x4010, 'R.SPsvc': 0x5E5E0000, 'R.LRirq': 0x5E5E0004, 'cpsr': 0x600001D3, 'spsr_svc': 0x100001D0})
    target.apply_state(cpu, st)
    target.poke(cpu, 0x4000, bytes(range(0x40)))
    _BY['cpu'] = cpu
    _BY['snap'] = target.snapshot(cpu, True)


def bystander_check():
    """{} or {key: (expected, observed)} for the bystander; call after a case has run"""
    if 'cpu' not in _BY:
        _arm_bystander()
        return {}
    d = {}
    if 'cpu' in _CLONE:
        now = target.snapshot(_CLONE['cpu'], True)
        d.update({'bystander:deepcopy-taken-before:' + k: (_CLONE['snap'].get(k), now.get(k)) for k in now if now.get(k) != _CLONE['snap'].get(k)})
        _CLONE.clear()
    now = target.snapshot(_BY['cpu'], True)
    if now == _BY['snap']:
        return d
    d.update({'bystander:' + k: (_BY['snap'].get(k), now.get(k)) for k in now if now.get(k) != _BY['snap'].get(k)})
    _arm_bystander()
    return d


def embedder_op(cpu, api):
    """one thing an embedder does to an instance between steps. Strings name an API of Registers / ArmV6 (interrupt entry, reset, event); 'swap_registers'
    replaces the register file by a deep copy of itself (save / restore of the processor state); 'take_data_abort' delivers an asynchronous abort;
    ['set', key, value] writes a system register through the Python API (what an MCR handler or a debugger does)"""
    if isinstance(api, (list, tuple)) and api and api[0] == 'set':
        target.apply_state(cpu, {api[1]: api[2]})
    elif isinstance(api, (list, tuple)) and api and api[0] == 'hub':
        # the memory map is the embedder's: windows of attached controllers re-assigned in place (remap / bank switch), a device unplugged
        ms = cpu.mem.memories
        if api[1] == 'swap':
            a, b = ms[api[2]], ms[api[3]]
            a.beginning, a.end, b.beginning, b.end = b.beginning, b.end, a.beginning, a.end
        elif api[1] == 'move':
            a = ms[api[2]]
            a.beginning, a.end = api[3], api[3] + (a.end - a.beginning)
        elif api[1] == 'pop':
            ms.pop()
    elif api == 'swap_registers':
        import copy
        cpu.registers = copy.deepcopy(cpu.registers)
    elif api == 'swap_cpsr':
        import copy
        cpu.registers.cpsr = copy.copy(cpu.registers.cpsr)        # a per-task / checkpointed status register object installed by the embedder
    elif api == 'take_data_abort':
        from armulator.armv6.arm_exceptions import DataAbortException
        from armulator.armv6.enums import DAbort
        cpu.registers.take_data_abort_exception(DataAbortException(DAbort.ASYNC_EXTERNAL, False))
    else:
        (getattr(cpu.registers, api, None) or getattr(cpu, api))()


def run(case, with_mem=True):
    """returns (cpu, pre, [post per step], [exception or None per step])"""
    if 'cpu' not in _BY:
        _arm_bystander()
    cpu = build(case)
    pre = target.snapshot(cpu, with_mem)
    posts, excs = [], []
    inject = case.get('inject') or {}
    for i in range(case.get('steps', 1)):
        api = inject.get(str(i))
        if api:
            # what an embedder does between steps: interrupt injection, reset, event signalling (the states reached this way are valid machine states)
            try:
                embedder_op(cpu, api)
            except Exception as ex:       # noqa: BLE001 - reported by the caller like an escaping step exception
                excs.append(ex)
                posts.append(target.snapshot(cpu, with_mem))
                break
        e = target.step_budget(cpu)
        excs.append(e)
        posts.append(target.snapshot(cpu, with_mem))
        if e is not None:
            # an embedder that catches the documented NotImplementedError of a mock hook and carries on (here: delivers an interrupt next) keeps using the instance
            if target.escape_ok(e) and any(int(k) > i for k in inject):
                continue
            break
    return cpu, pre, posts, excs


def enc_arm(word):
    return struct.pack('<I', word & M32)


def enc_thumb(word, is32=None):
    """16-bit halfword, or 32-bit Thumb instruction given as (hw1 << 16) | hw2"""
    if is32 is None:
        is32 = word > 0xFFFF
    if is32:
        return struct.pack('<HH', (word >> 16) & 0xFFFF, word & 0xFFFF)
    return struct.pack('<H', word)


def diff(a, b, ignore=()):
    return {k: (a.get(k), b.get(k)) for k in b if k not in ignore and a.get(k) != b.get(k)}


def fmt_diff(d):
    out = {}
    for k, (x, y) in d.items():
        if isinstance(x, (bytes, bytearray)) and isinstance(y, (bytes, bytearray)):
            idx = [i for i in range(min(len(x), len(y))) if x[i] != y[i]][:8]
            out[k] = {'bytes_differ_at': idx, 'was': [x[i] for i in idx], 'now': [y[i] for i in idx]}
        else:
            out[k] = [x, y]
    return out


def in_range(snap):
    """C10 range invariant over a snapshot: core registers, SPSRs, ELR_hyp, PC in 0..2^32-1; returns offending keys"""
    bad = []
    for k, v in snap.items():
        if k.startswith('R.') or k.startswith('spsr_') or k in ('elr_hyp', 'cpsr'):
            if not isinstance(v, int) or isinstance(v, bool) and False or not (0 <= v <= M32):
                bad.append(k)
    return bad
