#!/bin/sh
# usage: mutwt.sh <seeded-name>   -> creates /tmp/wt/m-<name> (scratch worktree of /repo with the seeded patch applied); mutwt.sh -r <name> removes it
if [ "$1" = "-r" ]; then git -C /repo worktree remove --force /tmp/wt/m-$2; exit 0; fi
mkdir -p /tmp/wt
git -C /repo worktree add -q --detach /tmp/wt/m-$1 HEAD && (git -C /tmp/wt/m-$1 apply /verif/seeded/$1/patch.diff || git -C /tmp/wt/m-$1 apply --3way /verif/seeded/$1/patch.diff) && echo /tmp/wt/m-$1
