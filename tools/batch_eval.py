#!/usr/bin/env python3
"""Re-run every seeded defect against the quick check of the property it was written for (scratch worktrees of /repo; nothing is applied in /repo).
usage: batch_eval.py [name-prefix ...]   -> batch_eval.json + one line per seeded defect; uses the vf/ next to this script (works from a vp-run snapshot)."""
import json
import os
import subprocess
import sys
import time

ROOT = os.path.dirname(os.path.dirname(os.path.abspath(__file__)))


def sh(cmd):
    return subprocess.run(cmd, shell=True, capture_output=True, text=True)


def main():
    names = sorted(d for d in os.listdir(os.path.join(ROOT, 'seeded')) if os.path.exists(os.path.join(ROOT, 'seeded', d, 'patch.diff')))
    if len(sys.argv) > 1:
        names = [n for n in names if n.startswith(tuple(sys.argv[1:]))]
    out = {}
    for name in names:
        prop = name[:3]
        wt = '/tmp/wt/batch-%d' % os.getpid()
        sh('git -C /repo worktree add -q --detach %s HEAD' % wt)
        try:
            ap = sh('git -C %s apply %s/seeded/%s/patch.diff || git -C %s apply --3way %s/seeded/%s/patch.diff' % (wt, ROOT, name, wt, ROOT, name))
            if ap.returncode:
                out[name] = {'applies': False}
                print(name, 'PATCH DOES NOT APPLY (the tree moved on)', flush=True)
                continue
            t0 = time.time()
            r = sh('cd %s && VERIF_REPO=%s VERIF_WORK=/tmp/vfwork-%d VERIF_OUT=/tmp/vfout-%d PYTHONPATH=%s:%s PYTHONHASHSEED=0 /venv/bin/python -m vf.cli check %s --tier quick'
                   % (ROOT, wt, os.getpid(), os.getpid(), wt, ROOT, prop))
            viol = [l.split('#', 1)[-1].strip()[:120] for l in r.stdout.splitlines() if l.startswith('VIOLATION')]
            out[name] = {'applies': True, 'exit': r.returncode, 'violations': viol[:6], 'n': len(viol), 'seconds': round(time.time() - t0, 1)}
            print(name, 'exit', r.returncode, len(viol), viol[:2], flush=True)
        finally:
            sh('git -C /repo worktree remove --force %s' % wt)
            sh('rm -rf /tmp/vfwork-%d /tmp/vfout-%d' % (os.getpid(), os.getpid()))
    json.dump(out, open('batch_eval.json', 'w'), indent=1)
    missed = [n for n, v in out.items() if v.get('applies') and v.get('exit') != 1]
    print('caught', sum(1 for v in out.values() if v.get('exit') == 1), 'of', len(out), 'missed / error:', missed)


if __name__ == '__main__':
    main()
