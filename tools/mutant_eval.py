#!/usr/bin/env python3
"""Evaluate a seeded defect: confirm it (tests pass, demo fails with / passes without), run the checks against it.

usage: mutant_eval.py <seed_dir> <name> <property> [check ids ...]
  seed_dir holds patch.diff, demo.py, notes.md (as delivered by a sub-agent); results go to /verif/seeded/<name>/
The patch is applied in a scratch worktree of /repo (never in /repo itself); checks run with VERIF_REPO pointing there.
"""
import json
import os
import shutil
import subprocess
import sys
import time

WT = '/tmp/wt/eval-%d' % os.getpid()


def sh(cmd, **kw):
    return subprocess.run(cmd, shell=True, capture_output=True, text=True, **kw)


def main():
    seed, name, prop = sys.argv[1:4]
    checks = sys.argv[4:] or [prop]
    out = os.path.join('/verif/seeded', name)
    os.makedirs(out, exist_ok=True)
    sh('git -C /repo worktree add -q --detach %s HEAD' % WT)
    meta = {'property': prop, 'name': name, 'ran': []}
    try:
        env = 'PYTHONPATH=%s PYTHONDONTWRITEBYTECODE=1' % WT
        r0 = sh('cd %s && %s /venv/bin/python %s/demo.py' % (WT, env, seed))
        meta['demo_on_clean_tree_exit'] = r0.returncode
        ap = sh('git -C %s apply %s/patch.diff || git -C %s apply --3way %s/patch.diff' % (WT, seed, WT, seed))
        if ap.returncode:
            meta['apply_error'] = ap.stderr[-500:]
            print('PATCH DOES NOT APPLY', ap.stderr[-300:])
        t = sh('cd %s && %s /venv/bin/python -m pytest -q -p no:cacheprovider -n 8 2>&1 | tail -1' % (WT, env))
        meta['test_suite_with_patch'] = t.stdout.strip()
        r1 = sh('cd %s && %s /venv/bin/python %s/demo.py' % (WT, env, seed))
        meta['demo_on_patched_tree_exit'] = r1.returncode
        meta['confirmed'] = bool('686 passed' in t.stdout and 'failed' not in t.stdout and r0.returncode == 0 and r1.returncode != 0 and not ap.returncode)
        print('confirmed' if meta['confirmed'] else 'NOT CONFIRMED', meta)
        results = {}
        for c in checks:
            t0 = time.time()
            r = sh('cd /verif && VERIF_REPO=%s VERIF_WORK=/tmp/vfwork-%d VERIF_OUT=/tmp/vfout-%d PYTHONPATH=%s:/verif PYTHONHASHSEED=0 /venv/bin/python -m vf.cli check %s --tier quick' % (WT, os.getpid(), os.getpid(), WT, c))
            viol = [l for l in r.stdout.splitlines() if l.startswith('VIOLATION')]
            results[c] = {'exit': r.returncode, 'violations': [v.split('#', 1)[-1].strip()[:160] for v in viol][:8], 'n_violation_lines': len(viol),
                          'seconds': round(time.time() - t0, 1)}
            print(c, 'exit', r.returncode, len(viol), 'violation lines', [v.split('#', 1)[-1].strip()[:100] for v in viol][:3])
            if viol:
                # the replay file must still fail on the mutated tree and pass on /repo itself
                rp = viol[0].split('replay=')[1].split()[0]
                full = '/tmp/vfout-%d/%s' % (os.getpid(), rp)
                r_m = sh('cd /verif && VERIF_REPO=%s VERIF_WORK=/tmp/vfwork-%d PYTHONPATH=%s:/verif /venv/bin/python -m vf.cli replay %s' % (WT, os.getpid(), WT, full))
                r_c = sh('cd /verif && VERIF_WORK=/tmp/vfwork-%d PYTHONPATH=/repo:/verif /venv/bin/python -m vf.cli replay %s' % (os.getpid(), full))
                results[c]['replay_on_mutant_exit'] = r_m.returncode
                results[c]['replay_on_repo_exit'] = r_c.returncode
                print('   replay: mutant exit', r_m.returncode, '/repo exit', r_c.returncode, (r_m.stdout + r_c.stdout)[-200:].replace('\n', ' | ') if (r_m.returncode != 1 or r_c.returncode != 0) else '')
        meta['checks'] = results
        meta['caught_by'] = [c for c, v in results.items() if v['exit'] == 1]
        meta['ran'] = ['git apply patch.diff in a scratch worktree of /repo', 'full pytest suite', 'demo.py on clean and patched tree',
                       'vf.cli check <id> --tier quick with VERIF_REPO=<worktree> for: ' + ' '.join(checks)]
    finally:
        sh('git -C /repo worktree remove --force %s' % WT)
        sh('rm -rf /tmp/vfwork-%d /tmp/vfout-%d' % (os.getpid(), os.getpid()))
    for f in ('patch.diff', 'demo.py', 'notes.md'):
        if os.path.exists(os.path.join(seed, f)) and os.path.realpath(seed) != os.path.realpath(out):
            shutil.copy(os.path.join(seed, f), os.path.join(out, f))
    if os.path.exists(os.path.join(out, 'notes.md')):
        meta['needs_to_manifest'] = open(os.path.join(out, 'notes.md')).read()[:1500]
    json.dump(meta, open(os.path.join(out, 'meta.json'), 'w'), indent=1)


if __name__ == '__main__':
    main()
