#!/usr/bin/env python3
"""Which lines of the tree under test do the registered checks execute?  Diagnostic only (not a registered command): runs the quick checks with
VERIF_COV set (sys.monitoring line probe in vf/runner.py), merges the per-shard line sets and lists the executable lines of armulator/ that no
check reached, per file.  Output: /verif/coverage_report.txt (summary) - used to decide where generators need to go next."""
import glob, json, os, subprocess, sys, tempfile, shutil, types

REPO = os.environ.get('VERIF_REPO', '/repo')
props = sys.argv[1:] or ['C%02d' % i for i in range(1, 21)]
tier = os.environ.get('VERIF_TIER', 'quick')


def exec_lines(path):
    src = open(path).read()
    try:
        code = compile(src, path, 'exec')
    except SyntaxError:
        return set()
    out = set()
    stack = [code]
    while stack:
        c = stack.pop()
        if c.co_flags & 0x1:                    # function bodies only: module and class bodies run at import time, before the probe starts
            for _, _, ln in c.co_lines():
                if ln is not None and ln > 0 and ln != c.co_firstlineno:
                    out.add(ln)
        for k in c.co_consts:
            if isinstance(k, types.CodeType):
                stack.append(k)
    return out


work = tempfile.mkdtemp(prefix='vfcov')
per_prop = {}
try:
    for p in props:
        d = os.path.join(work, p)
        env = dict(os.environ, VERIF_COV=d, VERIF_OUT=os.path.join(work, 'out'), PYTHONPATH=REPO + ':/verif', PYTHONHASHSEED='0',
                   PYTHONDONTWRITEBYTECODE='1')
        r = subprocess.run(['/venv/bin/python', '-m', 'vf.cli', 'check', p, '--tier', tier], env=env, cwd='/verif', capture_output=True, text=True)
        lines = set()
        for f in glob.glob(os.path.join(d, '*.json')):
            lines |= {tuple(x) for x in json.load(open(f))}
        per_prop[p] = lines
        print(p, 'exit', r.returncode, len(lines), 'lines', flush=True)
    allcov = set().union(*per_prop.values())
    rep = []
    tot = hit = 0
    for root, _, files in os.walk(os.path.join(REPO, 'armulator')):
        for fn in sorted(files):
            if not fn.endswith('.py'):
                continue
            path = os.path.join(root, fn)
            rel = os.path.relpath(path, REPO)
            ex = exec_lines(path)
            cov = {l for (f, l) in allcov if f == rel}
            miss = sorted(ex - cov)
            tot += len(ex); hit += len(ex & cov)
            if miss:
                rep.append((rel, len(ex), miss))
    with open('/verif/coverage_report.txt', 'w') as f:
        f.write('line coverage of armulator/ by the %s checks %s: %d / %d executable lines (%.1f %%)\n' % (tier, ' '.join(props), hit, tot, 100.0 * hit / max(tot, 1)))
        for rel, n, miss in sorted(rep, key=lambda r: -len(r[2])):
            f.write('%s: %d of %d lines not reached: %s\n' % (rel, len(miss), n, ' '.join(map(str, miss))))
    print(open('/verif/coverage_report.txt').readline())
finally:
    shutil.rmtree(work, ignore_errors=True)
