#!/usr/bin/env python3
"""Regenerates MANIFEST.json from the table below (kept in one place so the manifest is always valid)."""
import json
import os

ROOT = os.path.dirname(os.path.dirname(os.path.abspath(__file__)))

# appended to the level text of every check that uses the shared E1 driver / of individual checks (legs added after the first version; DESIGN.md I.2, I.6)
E1_ADD = (' Every E1 plan additionally executes the witnesses and solver-generated members of every path of armulator\'s two 32-bit decoders that hit its rows, '
          'the same encoding twice on one instance (elsewhere and in a loop, different flags / IT state in between), instructions in the last bytes below 2^32, '
          'and checks a bystander instance and the scrambled in-memory configuration after every case; and it runs histories on one long-lived instance '
          '(vf/props/history.py: the plan\'s instruction several times between PSR writes by every route, exception round trips through handler stubs, injected interrupts, '
          'exclusive-monitor traffic, trapped coprocessor accesses, direct exception returns with single-bit PSR changes, the same word in both instruction sets, and what an embedder does between steps: system registers written through the API, the register file swapped for a deep copy, asynchronous aborts, carrying on after a NotImplementedError), every step compared with the reference; '
          'metamorphic embedder-level relations (a deep copy taken before programming stays untouched, a decoded opcode object executed again on two instances, an embedder-defined RAM subclass, large / odd-boundary devices).')
ADD = {
    'C02': ' The same rows also run under generated page tables (C15\'s builder) and MPU regions (C14\'s builder): every byte of an unaligned access is translated and checked on its own.',
    'C13': ' The load/store rows also run under generated page tables and MPU regions (permission boundaries inside an access).',
    'C06': ' Operand extraction: paths THROUGH from_bitarray of every selected class and through the reference operand decode are enumerated too (every branch negated in turn) plus the words next to every constant an order comparison used; field-corner words per row under arch 4/5/6/7 and a strict pass with VFP/SIMD configured; running decode (same word twice on one instance).',
    'C07': ' Operand extraction: paths THROUGH from_bitarray of every selected class and through the reference operand decode are enumerated too (every branch negated in turn) plus the words next to every constant an order comparison used; field-corner words per row under arch 4/5/6/7 and a strict pass with VFP/SIMD configured; running decode (same word twice on one instance).',
    'C08': ' Entries caused by instructions (SVC, UDF, BKPT, SMC, trapped WFI / WFE / coprocessor accesses, aborting loads) are also taken inside IT blocks with a passing condition on every configuration.',
    'C15': ' Also: long-descriptor cells for the Hyp translation regime (HTTBR / HTCR / HMAIR, faults reported in HSR / HDFAR), Non-secure guest cells under generated stage-2 tables (stage 1 off or short descriptors; faults on the output address and on the stage-1 walk with HSR / HDFAR / HPFAR), 32-bit Thumb instructions across a page boundary.',
    'C17': ' Field-view histories: field reads, field writes, whole-register writes and slice writes interleaved on one long-lived register object per class; every register class constructed under a configuration that gives it a reset value.',
    'C10': ' A second E1 plan runs every other encoding row at the 2^31/2^32 operand edges (range invariant after every instruction, also for unmodelled outcomes). The banking machine also performs register dumps over all mode numbers; the examples of a shard share one process, so state kept at class or module level by one configuration meets instances of another.',
    'C11': ' The same entries are also caused by instructions (SVC, UDF, SMC, BKPT, trapped WFI/WFE/coprocessor accesses, aborting loads) through emulate_cycle(); ThumbEE interrupted states; implementation-defined vectors at 0.',
    'C12': ' Plus direct calls of cpsr_write_by_instr / spsr_write_by_instr over configuration x mode x 16 byte masks x return flag x NMFI/AW/FW/RFR, and reference-free entry + canonical-return round trips.',
    'C16': ' Devices and accesses cover the 40-bit physical space, maps of up to 12 devices, from_memory_list called twice with the same list, instruction-level edge steps with a value differential.',
    'C18': ' One instance steps through 140 000 (600 000 thorough) distinct words with UNDEFINED words repeated. Also: every load/store path of both decoders under a valid stage-2 table whose data pages fault, every coprocessor encoding x p0..p15 under random trap controls, IRQ/FIQ/reset/event injections between program steps, the memory map re-arranged while a program runs (a two-page device used, unplugged or moved, used again), Hyp MMU on, register-object integrity.',
    'C19': ' The second clause also runs under VMSA (short- and long-descriptor tables from C15\'s builder) and with accesses straddling an accessible and a protected MPU region; Monitor mode after a User-mode step is a violation.',
    'C20': ' Further legs: fresh-interpreter scripts (an instance created after instances of other configurations must equal the trace of a process that only ever loaded its configuration), the interleaving machine also injects IRQ / FIQ / reset and computes its expectations after the history (the harness never touches the module-level configuration in between), memory-hub access histories, Non-secure guests under stage-2 translation. Two legs with a schedule finer than whole steps, owned by the harness: a device whose reads let a peer processor run one instruction (each trace must equal the solo trace), and one instance pre-empted at a generated source line of its step (sys.settrace) while a peer executes an instruction.',
}
PY = 'PYTHONPATH=/repo:/verif PYTHONHASHSEED=0 PYTHONDONTWRITEBYTECODE=1 /venv/bin/python'

# property -> (engine, technique, level text, level note, design ref)
CLAIMED = {
    'C17': ('E3 unitdiff',
            'exhaustive small-width enumeration + random differential testing against a bit-list reference model',
            'Every bit primitive compared with an independent bit-list implementation of the ARM ARM pseudocode on every argument '
            'tuple at widths 1..7 (quick) / 1..9 (thorough), all modified-immediate inputs, all immediate-shift decodes, and '
            '16/32/64-bit corner/random operands with every shift amount 0..255; every register field cell (class x field x value x '
            'background) against a hand-written architectural bit-position table. Exhaustive on the small-width part, sampled above it.',
            'Trusted: vf/ref/bits.py and vf/ref/fields.py as readings of DDI 0406C.', 'DESIGN.md section 5 C17'),
}
CLAIMED['C16'] = ('E5 stateful',
    'stateful model-based property testing (Hypothesis rule-based machine) against an in-memory byte model',
    'Generated device layouts and read/write histories on MemoryControllerHub are compared after every step with a per-device byte-array '
    'model and the first-match rule (lengths, every byte, read values, no host exception); plus a deterministic boundary sweep. '
    'Exploration only: the space of layouts x histories is sampled, with the device-end and overlap classes forced by construction.',
    'Trusted: the in-memory model in vf/props/c16.py; RAM is the only device type.', 'DESIGN.md section 5 C16')
CLAIMED['C18'] = ('E4 totality',
    'exhaustive enumeration of 16-bit encodings + random/corpus-seeded fuzzing of words and programs with a validity oracle',
    'emulate_cycle() is run on every 16-bit Thumb halfword in every IT position, on random and test-suite-derived ARM / 32-bit Thumb words and '
    'on random multi-step programs, in generated valid states on ten configurations (arch 4..7, PMSA/VMSA, security, LPAE, virtualization), stock '
    'and with the mock hooks implemented; any escaping exception other than NotImplementedError from a documented hook is a violation, a '
    'deterministic hub-access budget catches hangs. Exhaustive for 16-bit words per (config, IT position); sampled for 32-bit words.',
    'Trusted: the list of documented not-implemented sites (DESIGN.md appendix A.7); states are valid per section 3.2 rule 5.', 'DESIGN.md section 5 C18')

for _p, _t in (('C06', 'ARM'), ('C07', 'Thumb')):
    CLAIMED[_p] = ('E2 decodediff',
        'concolic path enumeration as a generator + differential testing against reference encoding tables',
        _t + ' class selection is decided for every word: all paths of the armulator decoder are enumerated jointly with a reference encoding '
        'table written from the manual, giving a finite partition into regions on which both are constant; the witness and solver-generated '
        'members of every region are executed and must be compatible (right class / undefined / not-implemented), random words are compared '
        'directly as an independent backstop' + (', all 65 536 16-bit halfwords are brute-forced and the 16/32-bit length rule is checked over every first halfword' if _p == 'C07' else '') +
        '. Operands of defined rows are compared with the reference operand decode on region members (sampled).',
        'Trusted: vf/ref/enc_*.py tables and the operand formulae of vf/ref/sem.py; the path tracer is validated every run by requiring each region to be constant on its members.',
        'DESIGN.md section 3.4 and 5 C06/C07')

E1_TEXT = ('Differential stepping: generated instruction words (built from the reference encoding tables, register fields biased to SP/LR/PC and '
           'aliases) are executed by emulate_cycle() from generated valid machine states and the complete post-state (all banked registers, CPSR, '
           'SPSRs, system registers, every memory byte) is compared with an independent reference interpreter written from the ARM ARM pseudocode; '
           'UNPREDICTABLE cases are checked for totality and register range only. Sampled exploration concentrated on boundary classes; ')
E1_NOTE = 'Trusted: the reference model vf/ref (encoding tables, semantics, machine) as a reading of DDI 0406C; listed known findings are matched by exact quirk-adjusted prediction.'
CLAIMED['C01'] = ('E1 stepdiff', 'property-based differential testing against an independent reference interpreter (Hypothesis-driven generation)',
                  E1_TEXT + 'covers all 153 data-processing encodings (A1/A2/T1..T4) on arch 4..7.', E1_NOTE, 'DESIGN.md section 5 C01')
CLAIMED['C04'] = ('E1 stepdiff', 'property-based differential testing against an independent reference interpreter (Hypothesis-driven generation)',
                  E1_TEXT + 'covers every branch encoding (B/BL/BLX/BX/BXJ/CBZ/TBB/TBH), IT, and PC-reading/PC-writing forms of other families, at instruction '
                  'addresses near 0 and 2^32 and at both Thumb alignments.', E1_NOTE, 'DESIGN.md section 5 C04')

CLAIMED['C02'] = ('E1 stepdiff', 'property-based differential testing against an independent reference interpreter (Hypothesis-driven generation)',
                  E1_TEXT + 'covers every LDR/STR-family encoding (byte/halfword/word/dual, immediate/literal/register, unprivileged, exclusive) with all P/U/W, '
                  'bases aimed into / at the edges of / across mapped memory and at 0 / 2^32, alignment 0..3, CPSR.E, SCTLR.A/U, arch 5/6/7, stock and hooked monitors.',
                  E1_NOTE, 'DESIGN.md section 5 C02')
CLAIMED['C03'] = ('E1 stepdiff + metamorphic round trip', 'property-based differential testing against a reference interpreter + metamorphic store;load round trips',
                  E1_TEXT + 'covers LDM/STM IA/IB/DA/DB, PUSH/POP (all encodings), user-bank and exception-return forms, SRS, RFE in every mode; '
                  'plus a reference-free round trip (store-multiple; clobber; matching load-multiple restores every listed register and the base) for nine encoding pairs.',
                  E1_NOTE, 'DESIGN.md section 5 C03')

CLAIMED['C09'] = ('E1 stepdiff', 'property-based differential testing against an independent reference interpreter (Hypothesis-driven generation)',
                  E1_TEXT + 'covers MUL/MLA/MLS, long / halfword / dual / most-significant-word multiplies, SDIV/UDIV (incl. 7-R divide-by-zero trapping), QADD.., '
                  'SSAT/USAT(16), the 36 parallel add/sub instructions, SEL, USAD8/USADA8, extend(+add), BFC/BFI/SBFX/UBFX, PKH, REV*, RBIT, CLZ (ARM and Thumb) with '
                  'lane-boundary, INT_MIN/-1, divisor-0 and product-multiple-of-2^32 operands and prior Q/GE.', E1_NOTE, 'DESIGN.md section 5 C09')
CLAIMED['C12'] = ('E1 stepdiff', 'property-based differential testing against an independent reference interpreter (Hypothesis-driven generation)',
                  E1_TEXT + 'covers MSR/MRS/CPS/SETEND with values that attempt forbidden changes, SUBS PC,LR / ERET / RFE / LDM^ exception returns, SVC/SMC/BKPT/UDF, '
                  'hints and events, barriers, preloads and coprocessor instructions under random CPACR/NSACR/HCPTR, on configurations with and without the Security '
                  'and Virtualization Extensions, stock and with the mock hooks implemented.', E1_NOTE, 'DESIGN.md section 5 C12')

CLAIMED['C05'] = ('exhaustive table + E1 identity/metamorphic', 'exhaustive enumeration of the condition table + property-based testing with identity and metamorphic oracles',
                  'The 15x16 condition table is enumerated completely through five instruction forms (ARM MOVcc, Thumb Bcc T1/T3, IT then-slot, ITE else-slot) against the table written '
                  'by meaning. Every encoding row of the three reference tables is executed with a failing condition from generated states and must change nothing but PC '
                  '(+length) and ITSTATE (identity oracle, no reference semantics involved); ARM words with a passing condition must equal their cond=AL twin. Exhaustive for the '
                  'table, sampled for operands.', 'Trusted: legality (UNPREDICTABLE/UNDEFINED) of generated words comes from the reference decode.', 'DESIGN.md section 5 C05')
CLAIMED['C08'] = ('exhaustive IT start states + E1 programs', 'exhaustive enumeration of IT start states + Hypothesis-generated programs, differential against a reference interpreter',
                  'All legal (firstcond, mask) x NZCV start states are executed with 1-4 following instructions, and Hypothesis-generated blocks (16/32-bit ALU, CMP inside the block, '
                  'loads/stores, SVC/UDF/aborting load at every position, branches as last, ARM and Thumb handlers executing the standard return) are compared step by step with the '
                  'reference machine on the complete state (slot execution, CPSR.IT after every step, flags untouched inside, SPSR IT bits, IT restored by the return).',
                  E1_NOTE, 'DESIGN.md section 5 C08')
CLAIMED['C10'] = ('E5 stateful + E1 stepdiff', 'stateful model-based property testing (Hypothesis rule-based machine) + differential stepping focused on wrap-around',
                  'A Hypothesis rule-based machine drives a real Registers object (writes by current and explicit mode, mode switches, legal CPSR writes, SPSR writes, every '
                  'exception entry) against a bank-table model; after every rule the whole snapshot, every (n, mode) read and the 32-bit range are checked. The range invariant is '
                  'additionally asserted after every step of every E1 check, and C10 runs load/store/block/branch/exception encodings with operands at the 0 / 2^32 edges.',
                  'Trusted: bank table (DESIGN.md A.1) and entry rules of vf/ref/machine.py.', 'DESIGN.md section 5 C10')
CLAIMED['C11'] = ('E3 unitdiff', 'exhaustive enumeration of routing bits x random remaining state, differential against a table-driven reference',
                  'Every take_*_exception function and take_reset is called directly; per exception kind the bits its rule reads and every source mode are enumerated completely '
                  '(thorough) on four extension configurations, all other state random per cell; the complete post-state is compared with the reference entry rules (mode, SPSR, '
                  'LR/ELR_hyp, A/I/F, IT/J, T/E, vector base incl. V/VBAR/MVBAR/HVBAR/VE, SCR.NS). Entries through instructions are covered by C12/C08/C14.',
                  'Trusted: vf/ref/machine.py exception entry (B1.9); external / asynchronous / debug Data Aborts are generated through the flags of take_data_abort_exception (not raised by devices).', 'DESIGN.md section 5 C11')

CLAIMED['C13'] = ('E3 unitdiff + E1', 'exhaustive enumeration of the access-policy matrix with random data, differential against a reference memory model',
                  'mem_a / mem_u / mem_u_unpriv get and set are called for every cell of size x offset 0..7 x base class (mid, device end, top of memory, zero) x E x A x U x arch 5/6/7 x '
                  'privilege (+Hyp/HSCTLR.A) x read/write with random data and surrounding memory; value, fault kind, DFSR/DFAR and the exact byte footprint (all memory) are compared '
                  'with the reference MemA/MemU, plus store-then-load round trips and E-independent instruction fetch. Exhaustive over the matrix, sampled over data.',
                  'Trusted: vf/ref/machine.py MemA/MemU (B2.4).', 'DESIGN.md section 5 C13')
CLAIMED['C14'] = ('E3 unitdiff + E1 stepdiff', 'property-based differential testing against a reference MPU model (constructed region sets, boundary-directed addresses)',
                  'translate_address is compared with a reference region match / AP table / background rule on constructed overlapping and nested region sets at boundary-directed '
                  'addresses (result, fault kind, DFSR, DFAR); every load/store/block-transfer encoding is executed with the MPU on and a permission boundary inside the transfer '
                  'and compared on the complete state (partial transfer, no write-back, abort bookkeeping).', E1_NOTE, 'DESIGN.md section 5 C14')
CLAIMED['C19'] = ('E4 validity', 'exhaustive enumeration of 16-bit encodings + constructed/random fuzzing with a privileged-state frame oracle',
                  'Every 16-bit halfword (exhaustive per config/IT position), constructed privileged-state-touching instructions, random and corpus words and short programs are '
                  'executed in User mode from generated states; afterwards either everything privileged is bit-identical or an architectural exception was taken to its vector with '
                  'SPSR.M=User and only that entry\'s state changed. Unprivileged load/store forms in privileged modes must honour User permissions of the MPU.',
                  'Trusted: the list of user-visible state (DESIGN.md A.8). No reference semantics involved.', 'DESIGN.md section 5 C19')
CLAIMED['C20'] = ('E5 stateful', 'stateful property testing of instance interleavings (Hypothesis rule-based machine) + snapshot/replay trace equality',
                  'Per-step digests of the complete state are compared between an instance, its deepcopy, a rebuild from the saved case and an instance with a different prior '
                  'history; a rule-based machine creates up to three instances and interleaves their steps, each must follow its solo trace. Mixed-configuration groups hit the '
                  'known finding config-singleton, attributed only when the quirk model predicts the observed trace exactly.',
                  'Trusted: the harness owns the schedule (whole emulate_cycle calls, plus peer instructions placed inside a step at device reads / source lines); no real threads.', 'DESIGN.md section 5 C20')

CLAIMED['C15'] = ('E3 unitdiff + E1 stepdiff', 'property-based differential testing against a reference page-table walker (tables built by construction + arbitrary descriptors)',
                  'translate_address is compared with an independent short-descriptor walker (TTBR0/1 split, sections, supersections, large/small pages, domains, AP/APX with AFE, '
                  'access flag, TEX remap / table B3-10, EE, FCSE) and a long-descriptor stage-1 walker on page tables built by construction plus arbitrary descriptor words: PA, memory '
                  'type, fault kind and level, DFSR/DFAR. Loads/stores are executed end to end with the MMU on through virtual windows with random permissions. Stock and hooked targets.',
                  'Trusted: vf/ref/mmu.py (B3). Stage 2, the Hyp regime and hardware access-flag update are excluded (mock hooks).', 'DESIGN.md section 5 C15')

NOT_YET = {}


def main():
    props = [json.loads(l) for l in open(os.path.join(ROOT, 'properties.jsonl'))]
    checks = []
    na = []
    for p in props:
        pid = p['id']
        if pid in CLAIMED:
            eng, tech, text, note, ref = CLAIMED[pid]
            if 'E1' in eng or pid in ('C13', 'C14', 'C15', 'C19'):
                text += E1_ADD
            text += ADD.get(pid, '')
            checks.append({
                'property_id': pid,
                'quick_cmd': f'{PY} -m vf.cli check {pid} --tier quick',
                'thorough_cmd': f'{PY} -m vf.cli check {pid} --tier thorough',
                'evidence_file': f'/verif/evidence/{pid}.json',
                'replay_cmd_template': f'{PY} -m vf.cli replay {{path}}',
                'engine': eng,
                'level_claimed': {'category': 'exploration', 'text': text, 'design_ref': ref},
                'level_note': note,
                'technique': tech,
            })
        else:
            na.append({'property_id': pid, 'reason': NOT_YET.get(pid, 'check not built yet in this revision of /verif (planned: see DESIGN.md section 5); '
                                                                   'property-based testing applies, nothing is claimed until the check exists')})
    man = {
        'version': 1,
        'setup_cmd': '/venv/bin/python -c "import hypothesis" 2>/dev/null || /venv/bin/pip install --no-index --find-links /opt/veriftools/wheels hypothesis',
        'hooks': {
            'guard': 'ARMULATOR_VERIF',
            'enable': 'no hooks are needed: checks import /repo as it is (PYTHONPATH=/repo) and observe public attributes; the guard name is reserved and unused',
            'baseline_off_cmd': 'cd /repo && /venv/bin/python -m pytest -ra -q -p no:cacheprovider --timeout=900 --continue-on-collection-errors',
            'source_commits': [],
            'add_only': True,
        },
        'engines': [
            {'name': 'E1 stepdiff', 'path': 'vf/props', 'serves_properties': ['C01', 'C02', 'C03', 'C04', 'C05', 'C08', 'C09', 'C10', 'C12'], 'kind_free_text': 'differential stepping of emulate_cycle against the reference model vf/ref'},
            {'name': 'E2 decodediff', 'path': 'vf/props/decode_check.py', 'serves_properties': ['C06', 'C07'], 'kind_free_text': 'joint path enumeration of decoders and reference encoding tables'},
            {'name': 'E3 unitdiff', 'path': 'vf/props/c17.py', 'serves_properties': ['C11', 'C13', 'C14', 'C15', 'C17'], 'kind_free_text': 'direct calls of helpers against independent re-implementations'},
            {'name': 'E4 totality', 'path': 'vf/props/c18.py', 'serves_properties': ['C18', 'C19'], 'kind_free_text': 'validity-predicate fuzzing of emulate_cycle'},
            {'name': 'E5 stateful', 'path': 'vf/props/c16.py', 'serves_properties': ['C10', 'C16', 'C20'], 'kind_free_text': 'Hypothesis rule-based state machines against in-memory models'},
        ],
        'checks': checks,
        'not_applicable': na,
        'notes': 'All checks: python -m vf.cli check <id> --tier quick|thorough; exit 0 held / 1 VIOLATION / 2 harness error. See DESIGN.md.',
    }
    with open(os.path.join(ROOT, 'MANIFEST.json'), 'w') as f:
        json.dump(man, f, indent=1)
    print('claimed', [c['property_id'] for c in checks])


if __name__ == '__main__':
    main()
